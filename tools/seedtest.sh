#!/bin/bash
# usage: tools/seedtest.sh <seed-dir-name> [Cnn ...]
# Applies seeded/<name>/patch.diff to a scratch copy of /repo's working tree (never to /repo), confirms the
# demo fails there and passes on the unchanged tree, then runs the listed checks (default: the seed's own
# property) against the scratch copy.  Scratch results go to out/evidence_scratch, never to evidence/.
set -u
name=$1; shift
props=${@:-${name%%-*}}
here=$(cd "$(dirname "$0")/.." && pwd)
sc=$(mktemp -d /tmp/seedrun_${name}_XXXX)
(cd /repo && git ls-files -z | xargs -0 cp --parents -t "$sc" 2>/dev/null)
if ! (cd "$sc" && patch -s -p1 < "$here/seeded/$name/patch.diff"); then echo "PATCH FAILED"; rm -rf "$sc"; exit 3; fi
if [ -f "$here/seeded/$name/demo.py" ]; then
  (cd "$sc" && PYTHONPATH="$sc" timeout 300 /venv/bin/python "$here/seeded/$name/demo.py" >/dev/null 2>&1); echo "demo on changed tree: exit $?"
  (cd /repo && PYTHONPATH=/repo timeout 300 /venv/bin/python "$here/seeded/$name/demo.py" >/dev/null 2>&1); echo "demo on unchanged tree: exit $?"
fi
for p in $props; do
  (cd "$here" && PYVC_REPO="$sc" timeout 3000 ./vf check $p 2>&1 | grep -E "VIOLATION|KNOWN-FINDING|UNDECIDED|exit|held|obligations" | tail -8); echo "check $p exit ${PIPESTATUS[0]}"
done
rm -rf "$sc"
