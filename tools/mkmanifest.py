#!/usr/bin/env python3
"""Regenerate MANIFEST.json from props/Cnn.py (claimed) and props/NOT_CLAIMED (with reasons)."""
import importlib
import json
import os
import sys

HERE = os.path.dirname(os.path.dirname(os.path.abspath(__file__)))
sys.path.insert(0, HERE)
ALL = ['C%02d' % i for i in range(1, 21)]


def main():
    checks = []
    na = []
    from props import unclaimed
    for pid in ALL:
        if pid in unclaimed.REASONS:
            na.append({'property_id': pid, 'reason': unclaimed.REASONS[pid]})
            continue
        m = importlib.import_module('props.' + pid)
        checks.append({
            'property_id': pid,
            'quick_cmd': './vf check %s --tier quick' % pid,
            'thorough_cmd': './vf check %s --tier thorough' % pid,
            'evidence_file': 'evidence/%s.json' % pid,
            'replay_cmd_template': './vf replay {path}',
            'engine': 'pyvc',
            'level_claimed': {'category': 'proof', 'text': m.LEVEL_TEXT, 'design_ref': m.DESIGN_REF},
            'level_note': m.LEVEL_NOTE,
            'technique': m.TECHNIQUE,
        })
    man = {
        'version': 1,
        'setup_cmd': './vf setup',
        'hooks': {
            'guard': 'CIRCUS_VERIF',
            'enable': 'none needed: contracts are sidecar files under /verif/contracts; the source of '
                      '/repo is read and turned into verification conditions, never instrumented',
            'baseline_off_cmd': 'cd /repo && /venv/bin/python -m pytest -ra -q -p no:cacheprovider '
                                '--timeout=900 --continue-on-collection-errors',
            'source_commits': [],
            'add_only': True,
        },
        'engines': [{
            'name': 'pyvc', 'path': 'pyvc/',
            'serves_properties': [c['property_id'] for c in checks],
            'kind_free_text': 'contract-based deductive verification: VC generation from the Python AST '
                              'of the real functions (re-read from /repo on every run) against sidecar '
                              'contracts, calls by contract, loops by invariant; discharge with z3 5.1 '
                              '(cvc5 1.0.3 on unknown); counterexamples replayed on the real code',
        }],
        'checks': checks,
        'not_applicable': na,
        'notes': 'exit codes: 0 all obligations discharged; 1 VIOLATION; 2 undecided (unknown/timeout/'
                 'construct outside the modelled subset); 3 checker failure. See DESIGN.md.',
    }
    json.dump(man, open(os.path.join(HERE, 'MANIFEST.json'), 'w'), indent=1)
    print('claimed', [c['property_id'] for c in checks], 'not claimed', len(na))


if __name__ == '__main__':
    main()
