"""C09: events let a subscriber reconstruct the live process set."""
FUNCTIONS = [
    'circus.watcher:Watcher.notify_event',
    'circus.watcher:Watcher.reap_process',
    'circus.watcher:Watcher.reap_processes',
    'circus.arbiter:Arbiter.reap_processes',     # the periodic waitpid(-1) loop: every collected worker goes through reap_process
    'circus.watcher:Watcher.spawn_process',
    'circus.watcher:Watcher._start',
    'circus.watcher:Watcher.manage_processes',
    # a signal delivered to a worker by the termination path is announced by a kill event for its pid
    'circus.watcher:Watcher.send_signal_process',
    'circus.watcher:Watcher.send_signal',
    'circus.watcher:Watcher.call_hook',
]
LEMMAS = []
FRAMES = [
    {'name': 'event-publishers', 'kind': 'call', 'callee': ['send_multipart'], 'methods_only': True,
     'what': 'watcher events reach the PUB socket only through Watcher.notify_event',
     'allowed': ['circus.watcher:Watcher.notify_event'], 'scope': ['circus.watcher', 'circus.arbiter']},
]
ASSUMPTIONS = ['A-PY', 'T-KERNEL wait-status layout (Linux)', 'T-PSUTIL', 'A-ZMQSEND', 'A-HOOKPURE', 'A-PIDREUSE']
TRUSTED = []
NOT_DECIDED = ['PUB/SUB delivery', 'event payload times',
               'kill events at the kill_process level: a worker that is already gone (NoSuchProcess) is "terminated" without a '
               'kill event, and a before_signal hook returning false suppresses the signal but not the kill event (candidate F-26)']
DESIGN_REF = 'DESIGN.md section 8, C09'
TECHNIQUE = 'contract-based deductive verification (ghost event logs attached at the real notify_event calls; wait-status arithmetic)'
LEVEL_TEXT = ('reap_process publishes exactly one reap event per adopted pid with exit_code equal to the decoded '
              'wait status for every status value; spawn_process publishes exactly one spawn event after '
              'registering the pid iff it returns a start time; _start publishes start iff it ends active.')
LEVEL_NOTE = 'Trusted: kernel wait-status layout, zmq send.'

# the accounting clause of spawn_process (known finding F-21) is claimed by C04 / C14
EXCLUDE_CLAUSES = ['post[accounted]:Watcher.spawn_process']
