"""Properties not (yet) claimed, each with the reason that goes into MANIFEST.not_applicable."""
_NYB = ('not claimed in this build: the functions this property depends on are not yet under '
        'machine-checked contract (planned, DESIGN.md section 8); no other technique is substituted')
REASONS = dict(('C%02d' % i, _NYB) for i in range(1, 21) if i not in (1, 2, 3, 4, 5, 6, 7, 8, 9, 10, 11, 13, 14, 15, 17, 18, 19, 20))
