"""Properties not claimed, each with the reason that goes into MANIFEST.not_applicable (see DESIGN.md 13.6)."""
REASONS = {
    'C12': (
        'not applicable with the contracts within reach: the property is carried by Arbiter.reload_from_config (130 lines: '
        'set algebra over name sets, three nested loops over sockets and watchers, DictDiffer, parse_env_dict, substring tests '
        'on command lines, five awaited coroutines) diffing against config.get_config (C16, itself out of reach), and its '
        'statement is about SEQUENCES of reloads (convergence = an inductive snapshot invariant over Watcher._cfg across '
        'histories). The pyvc subset has no Python-set theory with iteration, and the string theory of z3/cvc5 does not '
        'decide the env / substring clauses within budget; no smaller set of functions carries the property, and a '
        'hand-written model of the reload algorithm would be a different technique. Defects seen natively while reading '
        '(stale _cfg after a numprocesses-only change; DictDiffer.changed ignoring added/removed keys) are described in '
        'DESIGN.md 13.4 as candidates only, since no check decides them.'),
    'C16': (
        'not applicable with the contracts within reach: the property is carried by config.get_config (190 lines over '
        'ConfigParser sections: option typing chain, env / env:PATTERN layering with fnmatch, recursive expansion through '
        'replace_gnu_args regex substitution, nested closures, list.sort(key=itemgetter)) and StrictConfigParser._read (line '
        'grammar). Its clauses are string-to-string (pattern matching, case-insensitive variable expansion, comma lists), '
        'which the seq/string theories of z3 and cvc5 leave undecided within budget (replace_all chains, regex callbacks), '
        'and the layering clause needs a fold invariant over three nested loops of dict updates. Verifying only the small '
        'helpers (to_bool, rlimit_value, dget) would not carry any clause of the statement, so nothing is claimed.'),
}
