"""C06: exactly one well-formed reply bearing the request id."""
FUNCTIONS = [
    'circus.controller:Controller.handle_message',
    'circus.controller:Controller.dispatch',
    'circus.controller:Controller._dispatch_callback',
    'circus.controller:Controller._dispatch_callback_future',
    'circus.controller:Controller.send_response',
    'circus.controller:Controller.send_error',
    'circus.controller:Controller.send_ok',
    'circus.commands.base:ok',
    'circus.commands.base:error',
    'circus.util:TransformableFuture._internal_callback',
    'circus.util:TransformableFuture.exception',
    # client half: only the reply bearing this call's id is returned
    'circus.client:CircusClient.call',
]
LEMMAS = []
FRAMES = [
    {'name': 'reply-senders', 'kind': 'call', 'callee': ['send'], 'methods_only': True,
     'what': 'frames are written to the control stream only by Controller.send_response',
     'allowed': ['circus.controller:Controller.send_response'], 'scope': ['circus.controller']},
]
ASSUMPTIONS = ['A-PY', 'T-STDLIB json.loads / json.dumps', 'T-ZMQ stream.send queues the frame or raises ZMQError '
               '(a reply handed to json.dumps + stream counts as sent)',
               'A-JSONERR: error replies are serialisable',
               'every registered command is abstracted by $AnyCommand.validate/execute: any result, any exception, '
               'arbitrary effect on the arbiter, no write to the control stream',
               'T-TORNADO: a done-callback runs exactly once when the future completes']
TRUSTED = []
NOT_DECIDED = ['ZeroMQ framing/delivery', 'reply content beyond id and status',
               'AsyncCircusClient.call (tornado stream variant of the client) is not under contract; a reply that is JSON but not an '
               'object makes CircusClient.call raise AttributeError (allowed by its contract, never sent by the daemon)',
               'client timeout accuracy (Poller.poll is trusted)']
DESIGN_REF = 'DESIGN.md section 8, C06'
TECHNIQUE = 'contract-based deductive verification (dispatch over a symbolic JSON value; ghost reply log)'
LEVEL_TEXT = ('For every byte string and every JSON document the real Controller.dispatch returns normally and '
              'appends exactly one reply with the request id (none for cast; for a waiting request with an '
              'operation in flight: none now and a registered callback that sends exactly one).')
LEVEL_NOTE = 'Trusted: json/zmq/tornado contracts, abstraction of command bodies.'
