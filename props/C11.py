"""C11: a request refused as invalid or conflicting changes nothing."""
FUNCTIONS = [
    # the dispatcher: execute starts at most once and only after validate accepted; when it is not started
    # the heap is as before (invalid JSON, non-object, unknown command, refused by validate)
    'circus.controller:Controller.dispatch',
    'circus.controller:Controller.send_error',
    'circus.controller:Controller.send_response',
    # every validate there is (Command.validate and its four overrides) modifies nothing but the request's own
    # JSON properties, on acceptance and on refusal
    'circus.commands.base:Command.validate',
    'circus.commands.util:validate_option',
    'circus.commands.set:Set.validate',
    'circus.commands.addwatcher:AddWatcher.validate',
    'circus.commands.kill:Kill.validate',
    'circus.commands.sendsignal:Signal.validate',
    # refusals raised after validate: unknown watcher, duplicate name, conflict -- each before any effect
    'circus.commands.base:Command._get_watcher',
    'circus.arbiter:Arbiter.get_watcher',
    'circus.arbiter:Arbiter.add_watcher',
    'circus.util:synchronized.real_decorator.wrapper',
    'circus.commands.sendsignal:Signal.execute',
    'circus.commands.kill:Kill.execute',
    # applying a set request: option by option through set_opt (known finding F-15: a refusal by set_opt itself comes
    # after the earlier options of the same request were applied)
    'circus.watcher:Watcher.set_opt',
    'circus.commands.set:Set.execute',
    # add: endpoint-owner check and duplicate-name refusal before any effect
    'circus.commands.addwatcher:AddWatcher.execute',
    'circus.arbiter:Arbiter.endpoint_owner_mode',
]
LEMMAS = []
FRAMES = [
    {'name': 'validate-overrides', 'kind': 'defs', 'def_name': 'validate', 'scope': ['circus.commands'],
     'what': 'the only validate methods are Command.validate and the overrides under contract',
     'allowed': ['circus.commands.base:Command.validate', 'circus.commands.set:Set.validate',
                 'circus.commands.addwatcher:AddWatcher.validate', 'circus.commands.kill:Kill.validate',
                 'circus.commands.sendsignal:Signal.validate']},
]
ASSUMPTIONS = ['A-PY', 'A-STR', 'A-TYPES', 'A-DICTORDER: dict iteration order left abstract',
               'T-STDLIB getattr(resource, name)', 'A-1THREAD']
TRUSTED = ['$AnyCommand.validate / $AnyCommand.execute: the abstract command the dispatcher calls; every validate '
           'under contract above refines the abstract validate contract (modifies only the JSON properties)']
NOT_DECIDED = [
    'the stream (stdout_stream.* / stderr_stream.*) and hook (hooks.*) option families: Watcher._reload_stream and '
    '_reload_hook are trusted, not verified, and may fail half-way',
    'the Watcher constructor (options applied by keyword in add) is trusted; Watcher.start after add is trusted',
    'commands other than set/add/signal/kill: their execute bodies are abstracted by $AnyCommand.execute',
]
DESIGN_REF = 'DESIGN.md section 8, C11'
TECHNIQUE = ('contract-based deductive verification (ghost counters val_calls/exec_calls and a call-site obligation '
             'on the real dispatch; frame conditions "modifies nothing" on every validate; pyvc VCs, z3/cvc5)')
LEVEL_TEXT = ('Dispatch: execute starts only after validate accepted, and a request refused before execution leaves the '
              'whole heap unchanged; every validate (base + 4 overrides) has an empty frame and Set/AddWatcher validate '
              'every option before returning; unknown watcher / duplicate name / conflict are raised before any write.')
LEVEL_NOTE = 'Known finding F-15 (Set.execute applies options before a later one is refused by set_opt). Not decided: AddWatcher.execute, stream/hook option families.'
