"""C07: managed sockets reach every worker generation and are never rebound (code-level part)."""
FUNCTIONS = [
    # no daemon descriptor leaks into workers of watchers without use_sockets: close_fds = not use_fds, and use_fds is the
    # watcher's use_sockets for every worker generation (every worker is built by spawn_process)
    'circus.process:Process.spawn',
    'circus.watcher:Watcher.spawn_process',
    # the managed sockets are closed only by the shutdown closer
    'circus.arbiter:Arbiter.stop_controller_and_close_sockets',
    # reload half, snapshot only: what a re-read socket section is compared with
    'circus.sockets:CircusSocket.load_from_config',
]
EXCLUDE_CLAUSES = ['post[accounted]:Watcher.spawn_process']
LEMMAS = []
FRAMES = [
    {'name': 'bind-sites', 'kind': 'call', 'callee': ['bind_and_listen', 'bind_and_listen_all', 'bind'], 'methods_only': True,
     'scope': ['circus.arbiter', 'circus.watcher', 'circus.process', 'circus.sockets', 'circus.commands'],
     'what': 'a managed socket is bound once: at Arbiter.initialize (all), in reload_from_config (sockets new in the file) '
             'and for SO_REUSEPORT clones per worker (by design); never on respawn / restart / reload of workers',
     'allowed': ['circus.arbiter:Arbiter.initialize', 'circus.arbiter:Arbiter.reload_from_config',
                 'circus.process:Process._get_sockets_fds', 'circus.sockets:CircusSockets.bind_and_listen_all',
                 'circus.sockets:CircusSocket.bind_and_listen']},
    {'name': 'managed-socket-closers', 'kind': 'call', 'callee': ['close_all'], 'methods_only': True,
     'scope': ['circus.arbiter', 'circus.watcher', 'circus.process', 'circus.sockets', 'circus.commands', 'circus.controller'],
     'what': 'the managed sockets are closed as a set only by the shutdown closer',
     'allowed': ['circus.arbiter:Arbiter.stop_controller_and_close_sockets']},
    {'name': 'popen-sites', 'kind': 'call', 'callee': ['Popen'], 'methods_only': False,
     'scope': ['circus.watcher', 'circus.process', 'circus.arbiter', 'circus.util', 'circus.commands', 'circus.stream'],
     'what': 'workers are created only by the Popen call in Process.spawn',
     'allowed': ['circus.process:Process.spawn']},
]
ASSUMPTIONS = ['A-PY', 'T-PSUTIL Popen(close_fds=True) leaves the child with stdio only; close_fds=False lets inheritable '
               'descriptors through (CircusSocket sets inheritable at construction)', 'A-PROCCLS']
TRUSTED = ['Process.format_args substituting $(circus.sockets.NAME) by the fd number, Process._get_sockets_fds: not verified',
           'CircusSocket / CircusSockets (socket module): not verified']
NOT_DECIDED = ['that the descriptor number substituted in the command line is the managed socket\'s fileno (format_args, '
               '_get_sockets_fds are trusted)',
               'that the socket stays open and listening for the daemon\'s whole life (kernel state); only "no code path other '
               'than the shutdown closer and reload_from_config closes it" is decided, by frame scan',
               'WHEN reload_from_config closes and rebinds a socket: it does so for every socket whose re-read section differs '
               'from the snapshot CircusSocket._cfg. That the snapshot IS the raw section (a copy of it) is under contract '
               '(CircusSocket.load_from_config); the comparison and the close/rebind in Arbiter.reload_from_config are not '
               '(see C12, not applicable)',
               'descriptor inheritance across fork/exec itself']
DESIGN_REF = 'DESIGN.md section 13.6'
TECHNIQUE = ('contract-based deductive verification (call-site obligations / ghost record of the Popen arguments) plus '
             'whole-package frame scans of the bind / close sites')
LEVEL_TEXT = ('Every worker is created by the one Popen call in Process.spawn with close_fds = not use_fds, where use_fds is '
              'the watcher\'s use_sockets for every generation; managed sockets are bound only at initialize / config reload / '
              'per-worker SO_REUSEPORT clones and closed as a set only by the shutdown closer; the snapshot a config reload compares a '
              're-read socket section with (CircusSocket._cfg) is a copy of the raw section.')
LEVEL_NOTE = ('Kernel-level inheritance and the fd substitution in the command line are trusted, not decided; the comparison and '
              'the close / rebind inside Arbiter.reload_from_config are not under contract.')
