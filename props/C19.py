"""C19: priority order, paced by the warmup delays."""
FUNCTIONS = [
    'circus.watcher:Watcher.spawn_processes',
    'circus.watcher:Watcher._start',
    'circus.watcher:Watcher.spawn_process',
]
LEMMAS = []
FRAMES = []
ASSUMPTIONS = ['A-PY', 'A-REAL', 'T-TORNADO gen.sleep(d) resumes after >= d (ghost clock)', 'R-EXCL', 'T-PSUTIL',
               'time.time() reads the monotone ghost clock']
TRUSTED = []
NOT_DECIDED = ['real-time spacing (scheduler latency only adds delay)',
               'inter-watcher order and spacing (Arbiter._start_watchers / iter_watchers: not yet under contract)']
DESIGN_REF = 'DESIGN.md section 8, C19'
TECHNIQUE = 'contract-based deductive verification (ghost spawn log with clock stamps, loop invariant on spacing)'
LEVEL_TEXT = ('Within one watcher: consecutive spawns of spawn_processes are at least warmup_delay apart on the '
              'ghost clock, all belong to that watcher, and _start spawns exactly numprocesses workers.')
LEVEL_NOTE = 'Trusted: tornado sleep, clock. Arbiter-level ordering not yet covered.'

# the accounting clause of spawn_process (known finding F-21) is claimed by C04 / C14
EXCLUDE_CLAUSES = ['post[accounted]:Watcher.spawn_process']
