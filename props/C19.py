"""C19: priority order, paced by the warmup delays."""
FUNCTIONS = [
    'circus.watcher:Watcher.spawn_processes',
    'circus.watcher:Watcher._start',
    'circus.watcher:Watcher.spawn_process',
    # arbiter level: descending priority, one watcher after the other, warmup_delay apart
    'circus.arbiter:Arbiter.iter_watchers',
    'circus.arbiter:Arbiter._start_watchers',
    # start / restart of a selection of watchers: the selection callable returns them sorted by priority
    'circus.commands.restart:execute_watcher_start_stop_restart.watcher_iter_func',
]
LEMMAS = []
FRAMES = []
ASSUMPTIONS = ['A-PY', 'A-REAL', 'T-TORNADO gen.sleep(d) resumes after >= d (ghost clock)', 'R-EXCL', 'T-PSUTIL',
               'time.time() reads the monotone ghost clock']
TRUSTED = []
NOT_DECIDED = ['real-time spacing (scheduler latency only adds delay)',
               'execute_watcher_start_stop_restart itself (name matching by glob / regex) is not under contract: that the '
               'closure it builds is what reaches _start_watchers is by inspection (A-ITERFUNC)',
               'Arbiter.start / start_watchers wrappers and the reverse (lowest first) order used when stopping']
DESIGN_REF = 'DESIGN.md section 8, C19'
TECHNIQUE = 'contract-based deductive verification (ghost spawn log with clock stamps, loop invariant on spacing)'
LEVEL_TEXT = ('Within one watcher: consecutive spawns of spawn_processes are at least warmup_delay apart on the '
              'ghost clock, all belong to that watcher, and _start spawns exactly numprocesses workers. Across watchers '
              '(Arbiter._start_watchers over iter_watchers): any two spawns of different watchers are ordered by descending '
              'priority and at least the arbiter warmup_delay apart; iter_watchers is a sorted permutation.')
LEVEL_NOTE = 'Trusted: tornado sleep, clock.'

# the accounting clause of spawn_process (known finding F-21) is claimed by C04 / C14
EXCLUDE_CLAUSES = ['post[accounted]:Watcher.spawn_process']
