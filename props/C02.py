"""C02: stop leaves no survivor and no zombie, and stopped stays stopped."""
SPEC_PROFILE = 'lifecycle'
FUNCTIONS = [
    'circus.watcher:Watcher._stop',
    'circus.watcher:Watcher.kill_processes',
    'circus.watcher:Watcher.kill_process',
    'circus.watcher:Watcher.reap_processes',
    'circus.watcher:Watcher.reap_process',
    'circus.watcher:Watcher.is_stopped',
    # Process.stop: what a reaped / removed worker still receives (SIGTERM to its own pid only if alive; pipes closed)
    'circus.process:Process.stop',
    'circus.process:Process.is_alive',
    # stopped stays stopped: the periodic check and spawn do nothing on a stopped watcher
    'circus.watcher:Watcher.manage_processes',
    'circus.watcher:Watcher.spawn_process',
    'circus.watcher:Watcher.do_action',      # what a `set` request triggers
    # arbiter level: every watcher is stopped by stop / rm (unless nostop)
    'circus.arbiter:Arbiter._stop_watchers',
    'circus.arbiter:Arbiter.stop',
    'circus.arbiter:Arbiter.rm_watcher',
    'circus.arbiter:Arbiter.iter_watchers',
]
EXCLUDE_CLAUSES = ['post[accounted]:Watcher.spawn_process',
                   # C09's clause on the shared contract of manage_processes (known finding F-13 there)
                   'post[dead-removed-are-reaped]:Watcher.manage_processes']
LEMMAS = []
FRAMES = [
    {'name': 'pid-property-definition', 'kind': 'body_is', 'function': 'circus.process:Process.pid',
     'body': 'return self._worker.pid', 'decorators': ['property'],
     'what': 'Process.pid (a model field in the contracts) is the property `return self._worker.pid`: justifies the entry '
             'assumption A-WORKERPID of the Process wrappers'},
]
ASSUMPTIONS = ['A-POLLREAP: Popen.poll() also reaps the zombie; the model keeps the pid in K_child until a waitpid (reap_process is verified for both waitpid answers)', 'A-PY', 'A-REAL', 'A-1THREAD', 'T-KERNEL waitpid / wait-status layout', 'T-PSUTIL', 'A-PIDREUSE',
               'A-HOOKPURE', 'A-ZMQSEND', 'A-STREAMS', 'R-EXCL (protected fields stable while the slot is owned)',
               'A-ATOMIC-COMP (get_active_processes)', 'A-PARSTABLE (parallel-for rule for gen.multi)',
               'on_demand = False',
               'partial correctness: that Watcher.reap_process terminates is C05 (it only returns once waitpid '
               'reports the child as terminated, which is exactly why "no survivor" holds on return)']
TRUSTED = []
NOT_DECIDED = ['actual kernel process table of a real daemon', 'termination of the reap loop (C05)']
DESIGN_REF = 'DESIGN.md section 8, C02'
TECHNIQUE = 'contract-based deductive verification (coroutine _stop with yield-point rely, ghost kernel child table)'
LEVEL_TEXT = ('On return of the real Watcher._stop: status stopped, process table empty, and every pid that was '
              'listed is no longer an unreaped child (neither alive nor zombie) in the ghost kernel table; for '
              'every worker behaviour and every death instant at kernel-call boundaries.')
LEVEL_NOTE = ('Trusted: kernel/psutil contracts, hooks pure, rely under the exclusive slot. Termination not decided here.')
