"""C05: the daemon never blocks; requests complete in bounded time (contract-expressible part)."""
import ast


def _not_wnohang(call):
    """os.waitpid(...) whose second argument is not os.WNOHANG"""
    if len(call.args) < 2:
        return True
    a = call.args[1]
    return not (isinstance(a, ast.Attribute) and a.attr == 'WNOHANG')


def _select_may_wait(call):
    """select.select(...) without a literal 0 timeout"""
    if len(call.args) < 4:
        return True
    t = call.args[3]
    return not (isinstance(t, ast.Constant) and t.value == 0)


SCOPE = ['circus.watcher', 'circus.arbiter', 'circus.controller', 'circus.commands', 'circus.process',
         'circus.sighandler', 'circus.stream', 'circus.sockets', 'circus.pidfile']
FUNCTIONS = [
    'circus.watcher:Watcher.kill_process',        # while loop with a variant: at most graceful_timeout/0.1 + 1 naps
    'circus.watcher:Watcher.reap_process',        # while loop polling waitpid: no variant (known finding F-1)
    'circus.watcher:Watcher.spawn_process',       # retry loop: variant max_retry - nb_tries (fails for -1: F-24)
    'circus.controller:Controller.dispatch',      # a non-waiting request is answered before dispatch returns
    # the escalation that bounds a stop: SIGKILL is sent whatever the before_signal hook says
    'circus.watcher:Watcher.send_signal',
    'circus.watcher:Watcher.send_signal_process',
    'circus.watcher:Watcher.call_hook',
]
REQUIRE_VARIANTS = True
EXCLUDE_CLAUSES = ['post[accounted]:Watcher.spawn_process']
LEMMAS = []
FRAMES = [
    {'name': 'blocking-sleep', 'kind': 'call', 'callee': ['time.sleep', 'sleep'], 'methods_only': False, 'scope': SCOPE,
     'what': 'time.sleep (blocks the event loop) is called only in the waitpid polling loop of Watcher.reap_process; '
             'every other wait is tornado_sleep (a future)',
     'allowed': ['circus.watcher:Watcher.reap_process']},
    {'name': 'waitpid-nohang', 'kind': 'call', 'callee': ['os.waitpid'], 'methods_only': False, 'scope': SCOPE,
     'arg_filter': _not_wnohang,
     'what': 'every os.waitpid passes os.WNOHANG', 'allowed': []},
    {'name': 'select-zero-timeout', 'kind': 'call', 'callee': ['select.select'], 'methods_only': False, 'scope': SCOPE,
     'arg_filter': _select_may_wait,
     'what': 'select.select is only used with a literal 0 timeout', 'allowed': []},
    {'name': 'worker-wait', 'kind': 'call', 'callee': ['wait', 'communicate', 'run_sync'], 'methods_only': True,
     'scope': ['circus.watcher', 'circus.arbiter', 'circus.controller', 'circus.commands', 'circus.process'],
     'arg_filter': lambda call: not (isinstance(call.func, ast.Attribute) and isinstance(call.func.value, ast.Constant)),
     'what': 'blocking waits on a child: Process.wait (timeout; Windows reap path only)',
     'allowed': ['circus.watcher:Watcher.reap_process', 'circus.process:Process.wait',
                 'circus.arbiter:ThreadedArbiter.stop']},
]
ASSUMPTIONS = ['A-PY', 'A-REAL', 'A-1THREAD', 'T-KERNEL', 'T-PSUTIL', 'T-TORNADO: tornado_sleep / gen.sleep never block',
               'A-HOOKPURE: user hooks return (their running time is the user\'s)']
TRUSTED = []
NOT_DECIDED = [
    'bounded TIME (as opposed to bounded iterations) of a whole request: the sum of graceful_timeout and warmup delays is '
    'a whole-history statement over the scheduler; what is decided is per function: no blocking call outside the listed '
    'sites, every while loop has a termination measure, kill_process naps less than graceful_timeout + 0.1 (C03)',
    'read-only requests answered at once while a long operation is in flight: follows from the synchronized wrapper '
    'not being applied to them (C10 sync-decorated scan) and dispatch replying before it returns (C06), not re-proved here',
    'stream handlers (Redirector), stats and plugins',
]
DESIGN_REF = 'DESIGN.md section 8, C05 and section 13.6'
TECHNIQUE = ('contract-based deductive verification (termination measures on every while loop of the request path as '
             'obligations; whole-package frame scans for blocking calls)')
LEVEL_TEXT = ('No blocking call (time.sleep, waitpid without WNOHANG, select with a timeout, child/thread waits) outside the '
              'listed sites; every while loop on the request path has a termination measure except the two recorded as '
              'known findings; a non-waiting request is answered before dispatch returns.')
LEVEL_NOTE = 'Known findings F-1 (reap_process polls a live child without yielding) and F-24 (max_retry = -1 retries for ever).'
