"""C03: stop signal first, SIGKILL only after the grace period."""
FUNCTIONS = [
    'circus.watcher:Watcher.kill_process',
    'circus.watcher:Watcher.send_signal_process',
    'circus.watcher:Watcher.send_signal',
    'circus.watcher:Watcher.call_hook',
    # the Process wrappers the escalation relies on (is the worker still alive? deliver this signal to it)
    'circus.process:Process.poll',
    'circus.process:Process.is_alive',
    'circus.process:Process.send_signal',
]
LEMMAS = []
FRAMES = [
    {'name': 'pid-property-definition', 'kind': 'body_is', 'function': 'circus.process:Process.pid',
     'body': 'return self._worker.pid', 'decorators': ['property'],
     'what': 'Process.pid (a model field in the contracts) is the property `return self._worker.pid`: justifies the entry '
             'assumption A-WORKERPID of the Process wrappers'},
    {'name': 'stopping-writers', 'kind': 'attr_store', 'attr': 'stopping',
     'what': 'Process.stopping is written only by Process.__init__ and Watcher.kill_process (ownership of a '
             'termination in flight: rely relation "kill")',
     'allowed': ['circus.process:Process.__init__', 'circus.watcher:Watcher.kill_process']},
    {'name': 'signal-senders', 'kind': 'call', 'callee': ['send_signal_process'], 'methods_only': True,
     'what': 'Watcher.send_signal_process (worker + children) is called only from kill_process',
     'allowed': ['circus.watcher:Watcher.kill_process']},
    {'name': 'terminators', 'kind': 'call', 'callee': ['kill_process'], 'methods_only': True,
     'what': 'every worker termination goes through Watcher.kill_process: its callers are the stop / '
             'decr / reload / max_age / after_spawn-failure / kill paths',
     'allowed': ['circus.watcher:Watcher.manage_processes', 'circus.watcher:Watcher.remove_expired_processes',
                 'circus.watcher:Watcher.spawn_process', 'circus.watcher:Watcher.kill_processes',
                 'circus.watcher:Watcher._reload', 'circus.commands.kill:Kill.execute']},
]
ASSUMPTIONS = ['A-POLLREAP: Popen.poll() also reaps the zombie; the model keeps the pid in K_child until a waitpid (reap_process is verified for both waitpid answers)', 'A-PY', 'A-REAL: floats are mathematical reals (waited += 0.1)', 'A-1THREAD',
               'T-PSUTIL', 'A-PIDREUSE', 'A-HOOKPURE', 'A-ZMQSEND',
               'rely "kill": ownership of process.stopping by the kill_process instance that set it '
               '(argued from frame-scan stopping-writers and the stopping test at entry; not a VC)',
               'T-TORNADO: gen.sleep(d) resumes after >= d; ghost clock']
TRUSTED = []
NOT_DECIDED = ['real signal delivery order inside the kernel', 'wall-clock latency of the loop']
DESIGN_REF = 'DESIGN.md section 8, C03'
TECHNIQUE = 'contract-based deductive verification (coroutine kill_process with loop invariant, ghost signal log and ghost clock; yield-point rely)'
LEVEL_TEXT = ('Postconditions of the real Watcher.kill_process over a per-worker ghost log of termination '
              'signals: stop signal (configured or override) first, at most one SIGKILL, never before '
              'graceful_timeout, within one polling step after it, only to a worker seen alive after the '
              'timeout; for every timeout, override, stop_children setting and every death instant.')
LEVEL_NOTE = ('Trusted: psutil/kernel contracts (deaths at any kernel call), tornado sleep, hooks pure. '
              'Ownership argument of the rely relation is not machine-checked.')
