"""C14: hooks gate exactly the documented transitions."""
FUNCTIONS = [
    'circus.watcher:Watcher.call_hook',
    'circus.watcher:Watcher.send_signal',
    'circus.watcher:Watcher._start',
    'circus.watcher:Watcher.spawn_process',
    'circus.watcher:Watcher.spawn_processes',
    'circus.watcher:Watcher._stop',
]
LEMMAS = []
FRAMES = [
    {'name': 'hook-callers', 'kind': 'call', 'callee': ['call_hook'], 'methods_only': True,
     'what': 'hooks are invoked only through Watcher.call_hook, from the lifecycle functions under contract',
     'allowed': ['circus.watcher:Watcher.reap_process', 'circus.watcher:Watcher.spawn_process',
                 'circus.watcher:Watcher.send_signal', 'circus.watcher:Watcher._stop',
                 'circus.watcher:Watcher._start']},
]
ASSUMPTIONS = ['A-PY', 'A-HOOKPURE / A-HOOKRET: a hook returns any value or raises any Exception and does not '
               'modify supervisor state', 'A-ZMQSEND', 'T-PSUTIL', 'T-KERNEL', 'A-PIDREUSE', 'R-EXCL', 'A-STREAMS',
               'on_demand = False; no recovered wids (_found_wids empty)']
TRUSTED = []
NOT_DECIDED = ['hooks that block or mutate the watcher', 'extended_stats (not a lifecycle hook)']
DESIGN_REF = 'DESIGN.md section 8, C14'
TECHNIQUE = 'contract-based deductive verification (hook outcomes symbolic: one VC family over all outcome combinations; ghost hook log)'
LEVEL_TEXT = ('call_hook: result/exception mapping and exactly one hook_success/hook_failure event per call; '
              'before_signal gate with SIGKILL exemption; before_start / before_spawn / after_start gates of the '
              'real _start / spawn_process: a falsy or failing hook leaves the watcher stopped with an empty table; '
              'before_stop / after_stop outcomes do not appear in the postcondition of _stop.')
LEVEL_NOTE = ('Trusted: hook purity, psutil/kernel contracts. Known finding F-21 (after_spawn failure leaves the '
              'worker alive while unlisted) is reported through the accounting clause of spawn_process.')
