"""C13: exact command line / environment / directory; unique worker ids."""
FUNCTIONS = [
    'circus.watcher:Watcher._nextwid',
]
LEMMAS = []
FRAMES = []
ASSUMPTIONS = ['A-PY', 'A-TYPES: declared field sorts (checked at every store inside functions under contract)']
TRUSTED = []
NOT_DECIDED = ['what execve receives in a real child; uid/gid switching']
DESIGN_REF = 'DESIGN.md section 8, C13'
TECHNIQUE = 'contract-based deductive verification (pyvc VC generation from the real AST, z3/cvc5)'
LEVEL_TEXT = ('Postconditions of the real Watcher._nextwid (worker id is >= 1, unused by every listed '
              'process, minimal, RuntimeError only when 1..2n are all used) are discharged for all '
              'process tables and all numprocesses.')
LEVEL_NOTE = ('Trusted: CPython semantics of the modelled subset (A-PY), declared field sorts. '
              'Not decided: what execve receives in a real child.')
