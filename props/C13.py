"""C13: exact command line / environment / directory; unique worker ids."""
FUNCTIONS = [
    'circus.watcher:Watcher._nextwid',
    # the worker object is built from the watcher's configured values and a fresh id ...
    'circus.watcher:Watcher.spawn_process',
    # ... and Popen receives exactly format_args' vector, the configured cwd and env
    'circus.process:Process.spawn',
    # the vector itself: cmd and string args are substituted first and split afterwards, list args are kept word by word,
    # one variable table (with this worker's wid) for every substitution
    'circus.process:Process.format_args',
]
EXCLUDE_CLAUSES = ['post[accounted]:Watcher.spawn_process']
LEMMAS = []
FRAMES = [
    {'name': 'popen-sites', 'kind': 'call', 'callee': ['Popen'], 'methods_only': False,
     'scope': ['circus.watcher', 'circus.process', 'circus.arbiter', 'circus.util', 'circus.commands', 'circus.stream'],
     'what': 'workers are created only by the Popen call in Process.spawn',
     'allowed': ['circus.process:Process.spawn']},
    {'name': 'process-constructors', 'kind': 'call', 'callee': ['ProcCls', 'Process'], 'methods_only': False,
     'scope': ['circus.watcher', 'circus.arbiter', 'circus.commands'],
     'what': 'Process objects are constructed only in Watcher.spawn_process',
     'allowed': ['circus.watcher:Watcher.spawn_process']},
    {'name': 'daemon-environ-read-only', 'kind': 'escaping_use', 'object': 'os.environ',
     'scope': ['circus.watcher', 'circus.process', 'circus.arbiter', 'circus.util', 'circus.config', 'circus.commands',
               'circus.stream', 'circus.sockets', 'circus.controller'],
     'what': 'the daemon\'s own os.environ is only ever read (copy / get / items / dict(...) / subscript / in): no watcher '
             'environment aliases it and nothing writes through it, so what one watcher adds to its environment cannot '
             'reach another watcher\'s workers or the daemon',
     'allowed': []},
]
ASSUMPTIONS = ['A-PY', 'A-TYPES: declared field sorts (checked at every store inside functions under contract)',
               'T-PSUTIL psutil.Popen = subprocess.Popen executes exactly the argument vector / cwd / env it is given',
               'A-PROCCLS']
TRUSTED = ['util.replace_gnu_args (regex substitution), shlex.split, shlex.quote: uninterpreted functions (T-RGA, T-SHLEX) -- '
           'what is proved about format_args is which of them is applied to what, in which order, with which variable table',
           'Process.__init__ (stores its arguments, calls spawn): trusted T-PSUTIL contract']
NOT_DECIDED = ['what replace_gnu_args computes ($(circus.wid) -> the id, unknown variables left verbatim) and what shlex.split '
               'computes: regex substitution and shell lexing are outside the string theories the solvers decide',
               'the shell=True branch of format_args (quote / join / shell_args) is outside the precondition',
               'Watcher.__init__ env assembly (copy_env, copy_path)',
               'what execve receives in a real child; uid/gid switching in the preexec function']
DESIGN_REF = 'DESIGN.md section 8, C13 and 13.3'
TECHNIQUE = ('contract-based deductive verification (call-site obligations on the real constructor call, ghost record of the '
             'real Popen arguments; pyvc VCs, z3/cvc5)')
LEVEL_TEXT = ('Worker ids: >= 1, unused by every listed process, minimal, RuntimeError only when 1..2n are all used. '
              'Watcher.spawn_process constructs the worker from cmd (after variable substitution), args, working_dir, env, '
              'uid, gid, shell, rlimits of the watcher and use_fds = use_sockets. Process.spawn calls Popen exactly once with '
              'the vector returned by format_args, cwd = working_dir, env = env, close_fds = not use_fds, pipes as configured. '
              'format_args: substitute-then-split for cmd and string args, list args word by word, one variable table '
              'carrying this worker\'s wid.')
LEVEL_NOTE = 'replace_gnu_args / shlex are uninterpreted: structure of format_args proved, their computations not.'
