"""C15: the watcher directory stays coherent; names unique ignoring case."""
FUNCTIONS = [
    'circus.arbiter:Arbiter.add_watcher',
    'circus.arbiter:Arbiter.rm_watcher',
    'circus.arbiter:Arbiter.get_watcher',
    'circus.arbiter:Arbiter.numwatchers',
    'circus.arbiter:Arbiter.statuses',
    'circus.commands.base:Command._get_watcher',
    'circus.commands.numwatchers:NumWatchers.execute',
    'circus.commands.list:List.execute',
    'circus.commands.status:Status.execute',
    'circus.watcher:Watcher.notify_event',
    'circus.watcher:Watcher.initialize',
    'circus.watcher:Watcher.status',
]
LEMMAS = ['SAMESET']
FRAMES = [
    {'name': 'directory-writers', 'kind': 'container_mutation', 'attr': '_watchers_names',
     'what': 'the watcher directory dict is mutated only by __init__, initialize, add_watcher, rm_watcher, '
             'reload_from_config',
     'allowed': ['circus.arbiter:Arbiter.__init__', 'circus.arbiter:Arbiter.initialize',
                 'circus.arbiter:Arbiter.add_watcher', 'circus.arbiter:Arbiter.rm_watcher',
                 'circus.arbiter:Arbiter.reload_from_config']},
    {'name': 'watchers-list-writers', 'kind': 'container_mutation', 'attr': 'watchers',
     'what': 'the watcher list is mutated only by __init__, add_watcher, rm_watcher, reload_from_config',
     'allowed': ['circus.arbiter:Arbiter.__init__', 'circus.arbiter:Arbiter.add_watcher',
                 'circus.arbiter:Arbiter.rm_watcher', 'circus.arbiter:Arbiter.reload_from_config'],
     'exclude_modules': ['circus.plugins', 'circus.stats', 'circus.circusctl']},
]
ASSUMPTIONS = ['A-PY', 'A-STR: str.lower is an uninterpreted idempotent function', 'A-TYPES',
               'A-NOSTRLIKE: opaque objects do not implement str/dict/list method names']
TRUSTED = []
NOT_DECIDED = []
DESIGN_REF = 'DESIGN.md section 8, C15'
TECHNIQUE = 'contract-based deductive verification (representation invariant DIR as pre/postcondition of every directory operation; lemma SAMESET over the contracts)'
LEVEL_TEXT = 'Representation invariant DIR of (watchers, _watchers_names) preserved by the real add_watcher etc.'
LEVEL_NOTE = 'Trusted: Watcher.__init__ (initialises only the new object), zmq send.'
