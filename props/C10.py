"""C10: exclusive operations are serialized; the slot is always freed."""
FUNCTIONS = [
    'circus.util:synchronized.real_decorator.wrapper',
    'circus.util:_synchronized_cb',
]
LEMMAS = []
SYNC = {
    'circus.watcher:Watcher.stop': 'watcher_stop', 'circus.watcher:Watcher.start': 'watcher_start',
    'circus.watcher:Watcher.restart': 'watcher_restart', 'circus.watcher:Watcher.reload': 'watcher_reload',
    'circus.watcher:Watcher.incr': 'watcher_incr', 'circus.watcher:Watcher.decr': 'watcher_decr',
    'circus.watcher:Watcher.set_opt': 'watcher_set_opt', 'circus.watcher:Watcher.do_action': 'watcher_do_action',
    'circus.arbiter:Arbiter.reload_from_config': 'arbiter_reload_config',
    'circus.arbiter:Arbiter.stop': 'arbiter_stop', 'circus.arbiter:Arbiter.manage_watchers': 'manage_watchers',
    'circus.arbiter:Arbiter.reload': 'arbiter_reload', 'circus.arbiter:Arbiter.add_watcher': 'arbiter_add_watcher',
    'circus.arbiter:Arbiter.rm_watcher': 'arbiter_rm_watcher',
    'circus.arbiter:Arbiter.start_watchers': 'arbiter_start_watchers',
    'circus.arbiter:Arbiter.stop_watchers': 'arbiter_stop_watchers',
    'circus.arbiter:Arbiter.restart': 'arbiter_restart',
}
# state-changing helpers that are NOT themselves synchronized: they may only be called from
# synchronized functions, from each other, or from the declared non-exclusive / start-up sites
HELPERS = [
    'circus.watcher:Watcher._stop', 'circus.watcher:Watcher._start', 'circus.watcher:Watcher._restart',
    'circus.watcher:Watcher._reload', 'circus.watcher:Watcher.set_numprocesses',
    'circus.watcher:Watcher.manage_processes', 'circus.watcher:Watcher.remove_expired_processes',
    'circus.watcher:Watcher.reap_and_manage_processes', 'circus.watcher:Watcher.spawn_processes',
    'circus.watcher:Watcher.spawn_process', 'circus.watcher:Watcher.reap_process',
    'circus.watcher:Watcher.reap_processes', 'circus.watcher:Watcher.kill_processes',
    'circus.arbiter:Arbiter._stop_watchers', 'circus.arbiter:Arbiter._start_watchers',
    'circus.arbiter:Arbiter._restart', 'circus.arbiter:Arbiter.start_watcher',
    'circus.arbiter:Arbiter.reap_processes', 'circus.arbiter:Arbiter.__stop',
    'circus.arbiter:Arbiter._emergency_stop',
]
_ALLOWED_CALLERS = list(SYNC) + HELPERS + [
    'circus.arbiter:Arbiter.start',          # daemon start-up, before the controller serves requests
    'circus.commands.restart:execute_watcher_start_stop_restart',   # calls arbiter.start/stop/restart_watchers (synchronized) and watcher.start/stop/restart (synchronized)
    'circus.commands',                       # Command.execute bodies call the synchronized methods listed in SYNC
    'circus.arbiter:ThreadedArbiter',        # out of scope (A-1THREAD)
    'circus.circusd:main',                   # emergency stop after the loop died
    'circus.plugins', 'circus.stats', 'circus.consumer', 'circus.client', 'circus.circusctl',
    'circus.green', 'circus.stream', 'circus.process', 'circus.sockets', 'circus.controller',
    'circus.util', 'circus.py3compat', 'circus.sighandler', 'circus.pidfile', 'circus.config',
    'circus:',
]
FRAMES = [
    {'name': 'slot-writers', 'kind': 'attr_store', 'attr': '_exclusive_running_command',
     'what': 'the exclusive slot is written only by synchronized.wrapper, _synchronized_cb and Arbiter.__init__',
     'allowed': ['circus.util:synchronized.real_decorator.wrapper', 'circus.util:_synchronized_cb',
                 'circus.arbiter:Arbiter.__init__']},
    {'name': 'sync-decorated', 'kind': 'decorated', 'methods': SYNC,
     'what': 'each state-changing entry point carries @synchronized(name) as its outermost decorator'},
    {'name': 'status-writers', 'kind': 'attr_store', 'attr': '_status',
     'what': 'Watcher._status is written only by __init__, _start, _stop, spawn_processes',
     'allowed': ['circus.watcher:Watcher.__init__', 'circus.watcher:Watcher._start',
                 'circus.watcher:Watcher._stop', 'circus.watcher:Watcher.spawn_processes']},
    {'name': 'numprocesses-writers', 'kind': 'attr_store', 'attr': 'numprocesses',
     'what': 'Watcher.numprocesses is written only by __init__, set_numprocesses, set_opt',
     'allowed': ['circus.watcher:Watcher.__init__', 'circus.watcher:Watcher.set_numprocesses',
                 'circus.watcher:Watcher.set_opt'], 'exclude_modules': ['circus.plugins', 'circus.stats']},
    {'name': 'processes-writers', 'kind': 'container_mutation', 'attr': 'processes',
     'what': 'the process table is mutated only by reap_process, manage_processes, remove_expired_processes, spawn_process',
     'allowed': ['circus.watcher:Watcher.__init__', 'circus.watcher:Watcher.reap_process',
                 'circus.watcher:Watcher.manage_processes', 'circus.watcher:Watcher.remove_expired_processes',
                 'circus.watcher:Watcher.spawn_process'], 'exclude_modules': ['circus.plugins', 'circus.stats']},
    {'name': 'directory-writers', 'kind': 'container_mutation', 'attr': '_watchers_names',
     'what': 'the watcher directory dict is mutated only by initialize, add_watcher, rm_watcher, reload_from_config',
     'allowed': ['circus.arbiter:Arbiter.__init__', 'circus.arbiter:Arbiter.initialize',
                 'circus.arbiter:Arbiter.add_watcher', 'circus.arbiter:Arbiter.rm_watcher',
                 'circus.arbiter:Arbiter.reload_from_config']},
    {'name': 'watchers-list-writers', 'kind': 'container_mutation', 'attr': 'watchers',
     'what': 'the watcher list is mutated only by __init__, add_watcher, rm_watcher, reload_from_config',
     'allowed': ['circus.arbiter:Arbiter.__init__', 'circus.arbiter:Arbiter.add_watcher',
                 'circus.arbiter:Arbiter.rm_watcher', 'circus.arbiter:Arbiter.reload_from_config'],
     'exclude_modules': ['circus.plugins', 'circus.stats', 'circus.circusctl']},
    {'name': 'helper-callers', 'kind': 'call',
     'callee': [h.split('.')[-1] for h in HELPERS if h.split('.')[-1] not in ('reap_processes',)],
     'methods_only': True,
     'what': 'unsynchronized state-changing helpers are called only from synchronized methods, from each '
             'other, from Arbiter.start (start-up) or from the emergency stop',
     'allowed': [a for a in _ALLOWED_CALLERS if a not in ('circus.commands', 'circus.controller')] +
                ['circus.commands.restart:execute_watcher_start_stop_restart'],
     'scope': ['circus.watcher', 'circus.arbiter', 'circus.commands', 'circus.controller', 'circus.circusd',
               'circus.sighandler']},
]
ASSUMPTIONS = ['A-PY', 'A-1THREAD: one event-loop thread; ThreadedArbiter and plugin timer threads out of scope',
               'A-NOSETATTR: scanned attributes are not written through setattr/__dict__ (scanned for setattr)',
               'T-TORNADO-CB: future_add_done_callback runs the callback exactly once when the future completes']
TRUSTED = ['decorated bodies are abstracted by $SyncBody.__call__ (arbitrary effect except writing the slot; '
           'justified by frame-scan slot-writers)']
NOT_DECIDED = ['that the in-flight Future completes (C05 termination)',
               '_restarting is reset only by Arbiter.start']
DESIGN_REF = 'DESIGN.md section 8, C10'
TECHNIQUE = 'contract-based deductive verification (pyvc VCs on util.synchronized) + whole-package AST frame scans'
LEVEL_TEXT = ('The real synchronized wrapper is verified against its contract for every bound object, every '
              'slot state and every behaviour of the decorated body (value, exception, Future): refusal '
              'leaves the heap unchanged, the slot is released on return/exception or by the registered '
              'done-callback. Frame scans show who may write the slot and the protected state.')
LEVEL_NOTE = ('Trusted: tornado done-callback semantics; decorated bodies abstracted as arbitrary code that '
              'does not write the slot (checked by scan). Liveness of the Future is not decided here.')
