"""C08: shutdown is complete; the pid file is honoured at start-up and removed at exit."""
FUNCTIONS = [
    # pid file: refuse when it names another live process; take over stale / empty / garbled / missing; remove only ours
    'circus.pidfile:Pidfile.validate',
    'circus.pidfile:Pidfile.create',
    'circus.pidfile:Pidfile.unlink',
    # Arbiter.stop: every watcher stopped (no listed worker left, none an unreaped child), then exactly one closer scheduled
    'circus.arbiter:Arbiter.iter_watchers',
    'circus.arbiter:Arbiter._stop_watchers',
    'circus.arbiter:Arbiter.stop',
    'circus.arbiter:Arbiter.stop_controller_and_close_sockets',
    'circus.watcher:Watcher._stop',
    'circus.watcher:Watcher.kill_processes',
    'circus.watcher:Watcher.kill_process',       # the escalation that lets a stop end: SIGKILL once graceful_timeout has elapsed
    'circus.watcher:Watcher.reap_processes',
    'circus.watcher:Watcher.reap_process',
]
LEMMAS = []
FRAMES = [
    {'name': 'closer-callers', 'kind': 'call', 'callee': ['stop_controller_and_close_sockets'], 'methods_only': True,
     'what': 'the socket closer is reached from Arbiter.start (after the loop ends), _emergency_stop, and as the callback '
             'scheduled by stop / __stop',
     'allowed': ['circus.arbiter:Arbiter.start', 'circus.arbiter:Arbiter._emergency_stop']},
    {'name': 'pidfile-unlinkers', 'kind': 'call', 'callee': ['os.unlink', 'os.remove', 'unlink'], 'methods_only': False,
     'scope': ['circus.pidfile', 'circus.circusd'],
     'what': 'the pid file is removed only through Pidfile.unlink (from Pidfile.rename and the finally-block of circusd.main)',
     'allowed': ['circus.pidfile:Pidfile.unlink', 'circus.pidfile:Pidfile.rename', 'circus.circusd:main']},
]
ASSUMPTIONS = ['A-PY', 'A-1THREAD', 'T-FS', 'T-KERNEL', 'T-KERNEL-KILL0', 'T-PSUTIL', 'A-PIDREUSE', 'A-HOOKPURE', 'R-EXCL',
               'A-PARSTABLE: the per-watcher _stop instances run in parallel; only their watcher-local postconditions are '
               'combined (whole-heap clauses are excluded from the parallel rule)',
               'A-UTF8: decode(encode(s)) == s', 'A-STR: int()/str() of a pid through uninterpreted int_ok/int_of']
TRUSTED = ['Controller.stop, zmq socket close, CircusSockets.close_all ($CtlHandle.stop, $PubSocket.close, $SockSet.close_all)',
           'IOLoop.add_callback runs the scheduled closer once (T-TORNADO)',
           'os.open/os.write/os.close/os.unlink/open/read over the ghost file system, os.kill(pid, 0) over the ghost process table']
NOT_DECIDED = [
    'signal path: SysHandler turning SIGTERM/SIGINT/SIGQUIT into arbiter.stop on the loop (sighandler.py) is not under contract',
    'CircusSocket.close unlinking unix-socket paths and Controller.stop internals are trusted, not verified',
    'exit status 0 of circusd.main and the restart loop around arbiter.start are not under contract',
    'that the scheduled closer callback actually runs (loop liveness)',
]
DESIGN_REF = 'DESIGN.md section 8, C08'
TECHNIQUE = ('contract-based deductive verification (ghost file system + ghost process table for the pid file; coroutine '
             'contracts with the parallel-for rule for the stop chain; pyvc VCs from the real AST, z3/cvc5)')
LEVEL_TEXT = ('Pidfile.create refuses exactly when the file names another live process and otherwise rewrites it with the '
              'own pid; validate reports a pid iff the file holds a positive number of an existing process; unlink removes '
              'the file iff it is ours (or unreadable as a number) and never raises. Arbiter.stop: sets _stopping, every '
              'watcher ends stopped with an empty table, then exactly one closer is scheduled; the closer stops the '
              'controller and closes the event and managed sockets.')
LEVEL_NOTE = 'Signal handler, socket unlink internals, exit status and loop liveness are not decided.'
