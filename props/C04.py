"""C04: process accounting is exact."""
FUNCTIONS = [
    'circus.watcher:Watcher.spawn_process',
    'circus.watcher:Watcher.reap_process',
    'circus.watcher:Watcher.reap_processes',
    'circus.watcher:Watcher._start',
    'circus.watcher:Watcher._stop',
]
LEMMAS = []
FRAMES = []
ASSUMPTIONS = ['A-PY', 'T-PSUTIL', 'T-KERNEL', 'A-PIDREUSE', 'A-HOOKPURE', 'A-ZMQSEND', 'A-PROCCLS',
               'max_retry != -1 is not assumed: the retry loop is verified for partial correctness only']
TRUSTED = []
NOT_DECIDED = ['comparison with a real /proc', 'pid reuse']
DESIGN_REF = 'DESIGN.md section 8, C04'
TECHNIQUE = 'contract-based deductive verification (ghost kernel child table vs process table; accounting clause as postcondition)'
LEVEL_TEXT = ('Accounting against a ghost kernel child table: a child created by spawn_process is listed on '
              'return (known finding F-21 for the after_spawn-failure arm), reap_process unlists exactly the reaped '
              'pid and leaves no zombie, _start/_stop end in a stable status (active/stopped) with stopped '
              'implying an empty table.')
LEVEL_NOTE = 'Trusted: kernel / psutil contracts.'
