"""C04: process accounting is exact."""
FUNCTIONS = [
    'circus.watcher:Watcher.spawn_process',
    'circus.watcher:Watcher.reap_process',
    'circus.watcher:Watcher.reap_processes',
    'circus.watcher:Watcher._start',
    'circus.watcher:Watcher._stop',
    # periodic check: the arbiter collects every terminated child (no zombie outlives it); manage_processes unlists only
    # workers the kernel reports dead, and the processes-table writers are exactly the listed functions
    'circus.arbiter:Arbiter.reap_processes',
    'circus.arbiter:Arbiter.iter_watchers',
    'circus.watcher:Watcher.manage_processes',
]
EXCLUDE_CLAUSES = ['post[dead-removed-are-reaped]:Watcher.manage_processes']
LEMMAS = []
FRAMES = [
    {'name': 'processes-writers', 'kind': 'container_mutation', 'attr': 'processes',
     'what': 'the process table is mutated only by reap_process, manage_processes, remove_expired_processes, spawn_process',
     'allowed': ['circus.watcher:Watcher.__init__', 'circus.watcher:Watcher.reap_process',
                 'circus.watcher:Watcher.manage_processes', 'circus.watcher:Watcher.remove_expired_processes',
                 'circus.watcher:Watcher.spawn_process'], 'exclude_modules': ['circus.plugins', 'circus.stats']},
]
ASSUMPTIONS = ['A-PY', 'T-PSUTIL', 'T-KERNEL', 'A-PIDREUSE', 'A-HOOKPURE', 'A-ZMQSEND', 'A-PROCCLS',
               'max_retry != -1 is not assumed: the retry loop is verified for partial correctness only']
TRUSTED = []
NOT_DECIDED = ['comparison with a real /proc', 'pid reuse']
DESIGN_REF = 'DESIGN.md section 8, C04'
TECHNIQUE = 'contract-based deductive verification (ghost kernel child table vs process table; accounting clause as postcondition)'
LEVEL_TEXT = ('Accounting against a ghost kernel child table: a child created by spawn_process is listed on '
              'return (known finding F-21 for the after_spawn-failure arm), reap_process unlists exactly the reaped '
              'pid and leaves no zombie, _start/_stop end in a stable status (active/stopped) with stopped '
              'implying an empty table; Arbiter.reap_processes leaves no terminated child uncollected and publishes reap '
              'events only for terminated pids; manage_processes unlists only workers reported dead.')
LEVEL_NOTE = 'Trusted: kernel / psutil contracts.'
