"""C17: captured worker output is delivered complete, in order, once, correctly labelled."""
SPEC_PROFILE = 'redirector'
FUNCTIONS = [
    # the data path: one readiness event -> at most one read -> the chunk handed once to the channel's stream,
    # labelled with the worker pid and the channel name; EOF / error event -> the fd is no longer watched
    'circus.stream.redirector:Redirector.Handler.__call__',
    'circus.stream.redirector:Redirector.Handler.__init__',
    # the watch set: the loop watches exactly the active fds (no leak, no double registration)
    'circus.stream.redirector:Redirector._start_one',
    'circus.stream.redirector:Redirector._stop_one',
    'circus.stream.redirector:Redirector.remove_fd',
    'circus.stream.redirector:Redirector.start',
    'circus.stream.redirector:Redirector.stop',
    # on spawn / kill: a new generation's pipes get their own handler even when the fd number is reused
    'circus.stream.redirector:Redirector.add_redirections',
    'circus.stream.redirector:Redirector.remove_redirections',
]
LEMMAS = []
FRAMES = [
    {'name': 'loop-handler-callers', 'kind': 'call', 'callee': ['add_handler', 'remove_handler'], 'methods_only': True,
     'scope': ['circus.stream', 'circus.watcher', 'circus.process', 'circus.arbiter'],
     'what': 'fd handlers are (un)registered with the IOLoop only by Redirector._start_one / _stop_one',
     'allowed': ['circus.stream.redirector:Redirector._start_one', 'circus.stream.redirector:Redirector._stop_one']},
    {'name': 'active-writers', 'kind': 'container_mutation', 'attr': '_active',
     'what': 'the active-handler table is mutated only by __init__, _start_one, _stop_one',
     'allowed': ['circus.stream.redirector:Redirector.__init__', 'circus.stream.redirector:Redirector._start_one',
                 'circus.stream.redirector:Redirector._stop_one']},
]
ASSUMPTIONS = ['A-PY', 'A-1THREAD', 'T-PIPE: what os.read returns (order, completeness of the byte stream) is the kernel\'s',
               'T-TORNADO: add_handler / remove_handler; a registered handler is called with (fd, events) when the fd is ready',
               'events >= 0 (IOLoop event masks)', 'A-STREAMS: the stream object is an arbitrary callable (may raise)']
TRUSTED = ['os.read, IOLoop.add_handler/remove_handler', 'sys.exc_clear (absent on py3: AttributeError, swallowed by the code)']
NOT_DECIDED = [
    'Process.close_output_channels is not verified; the watcher lifecycle (spawn_process, kill_process) sees the '
    'Redirector methods through frame-only placeholders (A-REDIRFRAME), so that they are CALLED at spawn and kill is '
    'decided only syntactically',
    'in-order / complete delivery ACROSS events is an inductive consequence of the per-event clause plus T-PIPE and '
    'T-TORNADO (one call per readiness event, sequential): the induction over the event history is not mechanised',
    'that the stream object (FileStream etc.) writes the chunk (C20 covers FileStream.write_data)',
]
DESIGN_REF = 'DESIGN.md section 8, C17 and 13.3'
TECHNIQUE = ('contract-based deductive verification (ghost read log / delivery log attached at the real os.read and stream '
             'calls; representation invariant: loop handler set == active table)')
LEVEL_TEXT = ('Per readiness event: at most one os.read of that fd; a non-empty chunk is handed exactly once, unchanged, to the '
              'stream registered for the handler\'s channel with the handler\'s worker pid and channel name; EAGAIN changes '
              'nothing; EOF or a pure error event removes the fd from the active table, the pipes table and the loop. '
              'start/stop/_start_one/_stop_one/remove_fd/add_redirections/remove_redirections keep "loop watches exactly the '
              'active fds"; add_redirections gives a new worker its own handler even on a reused descriptor number.')
LEVEL_NOTE = 'The cross-event induction is not mechanised.'
