"""C01: the process count converges to numprocesses and then stays put (step-function form)."""
FUNCTIONS = [
    'circus.watcher:Watcher.manage_processes',
    'circus.watcher:Watcher.remove_expired_processes',
    'circus.watcher:Watcher.spawn_processes',
    'circus.watcher:Watcher.spawn_process',
    'circus.watcher:Watcher.set_numprocesses',
    'circus.watcher:Watcher.incr',
    'circus.watcher:Watcher.decr',
    'circus.watcher:Watcher.kill_process',
    'circus.watcher:Watcher._stop',
    'circus.watcher:Watcher._nextwid',
]
LEMMAS = []
# the accounting clause of spawn_process belongs to C04/C14 (known finding F-21 there), not to the count property
EXCLUDE_CLAUSES = ['post[accounted]:Watcher.spawn_process',
                   # C09's clause on the shared contract of manage_processes (known finding F-13 there)
                   'post[dead-removed-are-reaped]:Watcher.manage_processes']
FRAMES = [
    {'name': 'numprocesses-writers', 'kind': 'attr_store', 'attr': 'numprocesses',
     'what': 'Watcher.numprocesses is written only by __init__, set_numprocesses, set_opt',
     'allowed': ['circus.watcher:Watcher.__init__', 'circus.watcher:Watcher.set_numprocesses',
                 'circus.watcher:Watcher.set_opt'], 'exclude_modules': ['circus.plugins', 'circus.stats']},
    {'name': 'processes-writers', 'kind': 'container_mutation', 'attr': 'processes',
     'what': 'the process table is mutated only by reap_process, manage_processes, remove_expired_processes, spawn_process',
     'allowed': ['circus.watcher:Watcher.__init__', 'circus.watcher:Watcher.reap_process',
                 'circus.watcher:Watcher.manage_processes', 'circus.watcher:Watcher.remove_expired_processes',
                 'circus.watcher:Watcher.spawn_process'], 'exclude_modules': ['circus.plugins', 'circus.stats']},
    {'name': 'found-wids-writers', 'kind': 'attr_store', 'attr': '_found_wids',
     'what': 'Watcher._found_wids is assigned only the empty literals [] (__init__) and {} (spawn_processes)',
     'allowed': ['circus.watcher:Watcher.__init__', 'circus.watcher:Watcher.spawn_processes']},
    {'name': 'found-wids-mutators', 'kind': 'container_mutation', 'attr': '_found_wids',
     'what': 'the container held in Watcher._found_wids is never mutated in place (it stays empty)',
     'allowed': ['circus.watcher:Watcher.__init__', 'circus.watcher:Watcher.spawn_processes']},
]
ASSUMPTIONS = ['A-PY', 'A-REAL', 'A-1THREAD', 'T-PSUTIL', 'T-KERNEL', 'A-PIDREUSE', 'A-HOOKPURE', 'A-ZMQSEND',
               'R-EXCL: protected fields are stable while the running operation owns the exclusive slot '
               '(frame scans of C10: every writer is a synchronized method or a helper of one)',
               'A-PARSTABLE: parallel kill_process instances do not invalidate each other\'s postconditions',
               'T-CLOCK Process.age(), T-STDLIB random.randint']
TRUSTED = ['Process.status / Process.age (psutil), random.randint, get_active_processes (A-ATOMIC-COMP)']
NOT_DECIDED = [
    'convergence "after a bounded number of periodic checks" is a whole-history (liveness) statement: what is proved is the '
    'step function -- one manage_processes call fills the deficit exactly (or stops the watcher when a spawn fails) and '
    'is a fixpoint when the count is right and nothing died; that the periodic callback keeps being scheduled is outside',
    'with max_age > 0 only "processes are only unlisted, never over-spawned" is proved (expiry is time-dependent)',
    'surplus removal: proved that at most the surplus is set aside and the count does not drop below the target; that the '
    'OLDEST workers are the ones removed (sorted by started, reverse) is not stated',
    '_restart / _reload generations ("every one of them started after the request"), Arbiter.manage_watchers '
    '(parallel manage_processes over watchers) and set_opt("numprocesses") are not under contract',
]
DESIGN_REF = 'DESIGN.md section 8, C01'
TECHNIQUE = ('contract-based deductive verification (coroutine contracts with rely/guarantee at suspension points, loop '
             'invariants over the process table, ghost pop counter; pyvc VCs from the real AST, z3/cvc5)')
LEVEL_TEXT = ('One periodic check (manage_processes) on the real code: unlists only workers the kernel reports dead, fills a '
              'deficit to exactly numprocesses (or stops on spawn failure), never overshoots, leaves a right-sized table '
              'untouched (fixpoint: nothing started, signalled or published); set_numprocesses/incr/decr clamp at 0, '
              'refuse >1 for singletons before any change, and end with the count at least the target.')
LEVEL_NOTE = 'Liveness over histories, restart/reload generations and the arbiter-level periodic loop are not decided.'
