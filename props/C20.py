"""C20: size rotation without losing or reordering retained data."""
FUNCTIONS = [
    'circus.stream.file_stream:FileStream.__call__',
    'circus.stream.file_stream:FileStream._should_rollover',
    'circus.stream.file_stream:FileStream._do_rollover',
    'circus.stream.file_stream:_FileStreamBase.write_data',
    'circus.stream.file_stream:_FileStreamBase._open',
    'circus.stream.file_stream:_FileStreamBase.open',
    'circus.stream.file_stream:_FileStreamBase.close',
    'circus.util:to_str',
]
LEMMAS = []
FRAMES = []
ASSUMPTIONS = ['A-PY', 'T-FS: ghost file system (open a+/exists/remove/rename/write/seek/tell as map updates)',
               'A-ASCII-DATA: sizes are counted in characters = bytes; for bytes input the decoded text has the '
               'same length (stated as hypothesis of the size clause)',
               "T-STDLIB: '%s.%d' % (path, i) is injective in i and never equals path; path + '.1' is that path with i = 1",
               'time_format is None (the timestamp prefix branch is outside the proved domain)',
               'induction over the sequence of writes (each step is proved; the composition into '
               '"contiguous unduplicated tail of everything written" is a two-line paper argument)']
TRUSTED = []
NOT_DECIDED = ['time_format prefixing (clause e)', 'non-ASCII str / invalid UTF-8 (size measured in characters)',
               'the real file system (bounded replay enumeration only)']
DESIGN_REF = 'DESIGN.md section 8, C20'
TECHNIQUE = 'contract-based deductive verification (ghost file-system map, shift-loop invariant, z3)'
LEVEL_TEXT = ('Each write through the real FileStream.__call__ is proved, for all max_bytes, backup_count, '
              'existing backups and data, to be either a pure append or an exact shift (.i -> .i+1, active -> .1, '
              'record starts the new file), touching no other path, and to keep the active file below max_bytes '
              'for records smaller than max_bytes.')
LEVEL_NOTE = 'Trusted: file-system model and path numbering; ASCII data; no time_format.'
