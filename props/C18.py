"""C18: signals reach exactly the addressed workers, with the signal that was named."""
FUNCTIONS = [
    'circus.util:to_signum',
    # confinement: request -> Signal/Kill command -> Watcher -> Process -> psutil handle
    'circus.process:get_children',
    'circus.process:Process.poll',
    'circus.process:Process.is_alive',
    'circus.process:Process.send_signal',
    'circus.process:Process.stop',
    'circus.process:Process.children',
    'circus.process:Process.send_signal_child',
    'circus.process:Process.send_signal_children',
    'circus.watcher:Watcher.send_signal',
    'circus.watcher:Watcher.send_signal_child',
    'circus.watcher:Watcher.send_signal_children',
    'circus.watcher:Watcher.send_signal_process',
    'circus.watcher:Watcher.kill_process',
    'circus.watcher:Watcher.call_hook',
    'circus.commands.base:Command.validate',
    'circus.commands.base:Command._get_watcher',
    'circus.commands.sendsignal:Signal.validate',
    'circus.commands.sendsignal:Signal.execute',
    'circus.commands.kill:Kill.validate',
    'circus.commands.kill:Kill.execute',
]
LEMMAS = []
FRAMES = [
    {'name': 'pid-property-definition', 'kind': 'body_is', 'function': 'circus.process:Process.pid',
     'body': 'return self._worker.pid', 'decorators': ['property'],
     'what': 'Process.pid (a model field in the contracts) is the property `return self._worker.pid`: justifies the entry '
             'assumption A-WORKERPID of the Process wrappers'},
    {'name': 'kernel-kill-sites', 'kind': 'call',
     'callee': ['os.kill', 'os.killpg', 'kill', 'killpg', 'terminate', 'send_signal'], 'methods_only': False,
     'what': 'signals reach the kernel only through psutil send_signal/terminate in Process.send_signal, '
             'send_signal_child, send_signal_children, stop (SIGTERM to the own worker); Watcher.send_signal, '
             'send_signal_process, kill_process, _reload (SIGHUP to own workers) and Signal.execute reach those; '
             'pidfile probes with signal 0',
     'allowed': ['circus.process:Process.send_signal', 'circus.process:Process.send_signal_child',
                 'circus.process:Process.send_signal_children', 'circus.process:Process.stop',
                 'circus.watcher:Watcher.send_signal', 'circus.watcher:Watcher.send_signal_process',
                 'circus.watcher:Watcher.kill_process', 'circus.watcher:Watcher._reload',
                 'circus.commands.sendsignal:Signal.execute', 'circus.pidfile:Pidfile.validate'],
     'exclude_modules': ['circus.plugins', 'circus.stats', 'circus.circusctl', 'circus.client']},
    {'name': 'worker-writers', 'kind': 'attr_store', 'attr': '_worker',
     'what': 'Process._worker (the psutil handle; Process.pid is self._worker.pid) is assigned only in '
             'Process.__init__ (None, then spawn() unless spawn=False, which no circus call site passes) and Process.spawn',
     'allowed': ['circus.process:Process.__init__', 'circus.process:Process.spawn']},
    {'name': 'child-signal-callers', 'kind': 'call', 'callee': ['send_signal_child', 'send_signal_children'],
     'methods_only': True,
     'what': 'child signalling is reached only from Signal.execute through Watcher.send_signal_child(ren)',
     'allowed': ['circus.watcher:Watcher.send_signal_child', 'circus.watcher:Watcher.send_signal_children',
                 'circus.watcher:Watcher.send_signal_process',
                 'circus.commands.sendsignal:Signal.execute']},
]
ASSUMPTIONS = ['A-POLLREAP: Popen.poll() also reaps the zombie; the model keeps the pid in K_child until a waitpid (reap_process is verified for both waitpid answers)', 'A-PY', 'A-STR', 'T-PSUTIL', 'A-HOOKPURE', 'A-ATOMIC-COMP (get_active_pids / get_active_processes)', 'A-WORKERPID', 'A-ASCII: \\w and \\d are the ASCII classes in the regex model',
               'T-SIGTABLE: signal table read from the interpreter running the verifier']
TRUSTED = ["T-STDLIB re.match / re.fullmatch for the literal pattern (\\w+)(\\+(\\d+))? (pyvc/regex.py)"]
NOT_DECIDED = ['kernel delivery of the signal',
               'request pids that are JSON non-integers (strings, floats, lists): Signal.execute / Kill.execute are '
               'proved for integer pid (Kill.validate establishes it; Signal.validate does not check it) -- the '
               'replay adapter exercises non-integer pids as a bounded stand-in only',
               'Kill: an unvalidated graceful_timeout property (string / negative) is outside the precondition',
               'the descendant relation is whatever psutil children() reports at the time of the call (T-PSUTIL)']
DESIGN_REF = 'DESIGN.md section 8, C18'
TECHNIQUE = 'contract-based deductive verification (pyvc VC generation from the real AST, z3/cvc5)'
LEVEL_TEXT = 'to_signum against the spec function of signal designations for every input value; confinement of every kernel signal issued by signal/kill requests to workers of the named watcher and their descendants, function by function down to the psutil calls.'
LEVEL_NOTE = 'Trusted: regex model for the one literal pattern, signal table of the running interpreter, psutil children()/send_signal, get_active_pids/get_active_processes comprehension contracts.'
