"""C18: signals reach exactly the addressed workers, with the signal that was named."""
FUNCTIONS = [
    'circus.util:to_signum',
]
LEMMAS = []
FRAMES = []
ASSUMPTIONS = ['A-PY', 'A-STR', 'A-ASCII: \\w and \\d are the ASCII classes in the regex model',
               'T-SIGTABLE: signal table read from the interpreter running the verifier']
TRUSTED = ["T-STDLIB re.match / re.fullmatch for the literal pattern (\\w+)(\\+(\\d+))? (pyvc/regex.py)"]
NOT_DECIDED = ['kernel delivery of the signal']
DESIGN_REF = 'DESIGN.md section 8, C18'
TECHNIQUE = 'contract-based deductive verification (pyvc VC generation from the real AST, z3/cvc5)'
LEVEL_TEXT = 'to_signum against the spec function of signal designations, for every input value.'
LEVEL_NOTE = 'Trusted: regex model for the one literal pattern, signal table of the running interpreter.'
