"""C08 (daemon half): Arbiter.stop stops every watcher, then hands control/event/managed sockets to the closer."""
from pyvc.tys import *   # noqa
from pyvc.spec import *   # noqa


def declare(spec):
    declare_iterfunc(spec)
    _declare(spec)
    declare_start(spec)
    declare_reap(spec)


def _declare(spec):
    spec.ghost('sw_selected', List(Ref('Watcher')))
    spec.local_ghosts.add('sw_selected')
    spec.local_ghosts.add('loop_cbs')
    spec.ghost('loop_cbs', List(INT))        # callbacks handed to loop.add_callback: 1 = close sockets, 2 = loop.stop
    spec.add(Contract('$CtlHandle.stop', params={'self': Ref('CtlHandle')}, trusted=True,
                      modifies=['self.stopped'], ensures=['self.stopped'],
                      note='Controller.stop: closes the control stream and socket, stops the signal handler (not under contract)'))
    spec.add(Contract('$PubSocket.close', params={'self': Ref('PubSocket')}, trusted=True,
                      modifies=['self.closed'], ensures=['self.closed'], note='T-ZMQ socket.close'))
    spec.add(Contract(
        'circus.arbiter:Arbiter.iter_watchers', params={'reverse': BOOL}, ret=List(Ref('Watcher')),
        defaults={'reverse': True}, modifies=[],
        ensures=['length(result) == length(self.watchers)',
                 'forall(INT, lambda i: implies(0 <= i and i < length(self.watchers), contains(result, self.watchers[i])))',
                 'forall(INT, lambda j: implies(0 <= j and j < length(result), contains(self.watchers, result[j])))']))
    ALLWF = ("forall(INT, lambda i: implies(0 <= i and i < length(self.watchers), not isnull(self.watchers[i]) and "
             "wf_w(self.watchers[i]) and self.watchers[i].graceful_timeout >= 0 and "
             "implies(self.watchers[i]._status == 'stopped', len(self.watchers[i].processes) == 0)))")
    ALLSTOPPED = ("forall(INT, lambda i: implies(0 <= i and i < length(self.watchers), "
                  "self.watchers[i]._status == 'stopped' and len(self.watchers[i].processes) == 0))")
    NOCHILD = ("forall(INT, INT, lambda i, k: implies(0 <= i and i < length(self.watchers) and "
               "old(self.watchers[i]._status) != 'stopped' and (k in old(self.watchers[i].processes)), not (k in K_child)))")
    SAMEDIR = "same_field('Arbiter.watchers', 'Arbiter._watchers_names')"
    spec.add(Contract(
        'circus.arbiter:Arbiter._stop_watchers', kind='coroutine', rely='arb',
        params={'close_output_streams': BOOL, 'watcher_iter_func': Ref('IterFunc')},
        defaults={'close_output_streams': False, 'watcher_iter_func': None},
        requires=['excl', ALLWF, 'isnull(watcher_iter_func) or watcher_iter_func.owner == self', 'dir1(self)'],
        # sw_selected: the list the selection callable (or iter_watchers) REALLY returned
        ghost_at={'iter_watchers': ['sw_selected = call_result'], 'watcher_iter_func': ['sw_selected = call_result']},
        ensures=[('every-watcher-stopped', 'implies(isnull(watcher_iter_func), %s)' % ALLSTOPPED),
                 ('every-selected-watcher-stopped',
                  "forall(INT, lambda j: implies(0 <= j and j < length(sw_selected), sw_selected[j]._status == 'stopped' and "
                  "len(sw_selected[j].processes) == 0))"),
                 SAMEDIR, 'excl', 'implies(isnull(watcher_iter_func), %s)' % ALLWF,
                 "same_field('Arbiter._stopping', 'Arbiter.loop', 'Arbiter._provided_loop', 'Arbiter.ctrl', "
                 "'Arbiter.sockets', 'Arbiter.evpub_socket')"],
        modifies=['*']))
    spec.add(Contract('$SockSet.close_all', params={'self': Ref('SockSet')}, trusted=True,
                      modifies=['self.all_closed'], ensures=['self.all_closed'],
                      note='CircusSockets.close_all: closes every managed socket (unlinking unix paths): not under contract'))
    spec.add(Contract('$SockSet.__len__', params={'self': Ref('SockSet')}, ret=INT, trusted=True, modifies=[],
                      ensures=['result == self.size', 'result >= 0'], inline='self.size'))
    spec.add(Contract('$LoopHandle.add_callback', params={'self': Ref('LoopHandle'), 'cb': VAL}, trusted=True,
                      modifies=[], note='T-TORNADO IOLoop.add_callback: runs cb once on the next loop iteration'))
    spec.add(Contract('$LoopHandle.stop', params={'self': Ref('LoopHandle')}, trusted=True, modifies=[]))
    spec.add(Contract(
        'circus.arbiter:Arbiter.stop_controller_and_close_sockets',
        requires=['not isnull(self.ctrl)', 'not isnull(self.evpub_socket)', 'not isnull(self.sockets)'],
        ensures=[('controller-stopped', 'self.ctrl.stopped'), ('event-socket-closed', 'self.evpub_socket.closed'),
                 ('managed-sockets-closed', 'implies(self.sockets.size > 0, self.sockets.all_closed)'),
                 'not self._running'],
        modifies=['CtlHandle.stopped', 'PubSocket.closed', 'SockSet.all_closed', 'self._running']))
    spec.add(Contract(
        'circus.arbiter:Arbiter.stop', kind='coroutine', rely='arb',
        requires=['excl', ALLWF, 'dir1(self)', 'not isnull(self.loop)'],
        ensures=[('every-watcher-stopped', ALLSTOPPED), ('stopping-flag', 'self._stopping'), SAMEDIR, 'excl',
                 # exactly one follow-up is scheduled: closing the sockets, or stopping the loop (whose caller closes them)
                 ('closer-scheduled', 'length(loop_cbs) == length(old(loop_cbs)) + 1')],
        ghost_at={'add_callback': ['loop_cbs = loop_cbs + [1]']},
        modifies=['*']))


def declare_iterfunc(spec):
    """the watcher_iter_func handed to _start_watchers / _stop_watchers by the start / stop / restart commands: a callable
    returning the selected watchers ordered by priority.  The one producer (the closure in commands/restart.py) is
    verified against this contract."""
    spec.Class('IterFunc', fields={'owner': Ref('Arbiter')})
    SORTED = ("forall(INT, INT, lambda a, b: implies(0 <= a and a < b and b < length(result), "
              "ite(reverse, result[a].priority >= result[b].priority, result[a].priority <= result[b].priority)))")
    spec.add(Contract('$IterFunc.__call__', params={'self': Ref('IterFunc'), 'reverse': BOOL}, defaults={'reverse': True},
                      ret=List(Ref('Watcher')), trusted=True, modifies=[],
                      ensures=[SORTED,
                               "forall(INT, INT, lambda a, b: implies(0 <= a and a < b and b < length(result), result[a] != result[b]))",
                               "forall(INT, lambda j: implies(0 <= j and j < length(result), not isnull(result[j]) and "
                               "contains(self.owner.watchers, result[j])))"],
                      note='A-ITERFUNC: contract of the watcher selection callable; its only producer, the closure '
                           'watcher_iter_func in commands/restart.py, is verified to return a priority-sorted permutation of '
                           'the selected watchers (which come from arbiter.iter_watchers())'))
    spec.add(Contract(
        'circus.commands.restart:execute_watcher_start_stop_restart.watcher_iter_func',
        params={'reverse': BOOL, 'watchers': List(Ref('Watcher'))}, defaults={'reverse': True},
        ret=List(Ref('Watcher')), modifies=[],
        ensures=[('sorted-by-priority', SORTED), 'length(result) == length(watchers)',
                 "forall(INT, lambda j: implies(0 <= j and j < length(result), contains(watchers, result[j])))",
                 "forall(INT, lambda i: implies(0 <= i and i < length(watchers), contains(result, watchers[i])))",
                 "implies(distinct(watchers), forall(INT, INT, lambda a, b: implies(0 <= a and a < b and "
                 "b < length(result), result[a] != result[b])))"]))


def declare_start(spec):
    """C19 (arbiter half): watchers are started one after the other in descending priority, warmup_delay apart."""
    iw = spec.contracts['circus.arbiter:Arbiter.iter_watchers']
    iw.ensure_names.append('distinct-kept')
    iw.ensures.append("implies(distinct(self.watchers), forall(INT, INT, lambda a, b: implies(0 <= a and a < b and "
                      "b < length(result), result[a] != result[b])))")
    iw.ensure_names.append('sorted-by-priority')
    iw.ensures.append(
        "forall(INT, INT, lambda a, b: implies(0 <= a and a < b and b < length(result), "
        "ite(reverse, result[a].priority >= result[b].priority, result[a].priority <= result[b].priority)))")
    NEWI = "length(old(spawnlog)) <= i and i < length(spawnlog)"
    WI = "as_ref('Watcher', sig_mode(spawnlog[i]))"
    WJ = "as_ref('Watcher', sig_mode(spawnlog[j]))"
    ORDER = ("forall(INT, INT, lambda i, j: implies("
             "length(old(spawnlog)) <= i and i < j and j < length(spawnlog) and "
             "sig_mode(spawnlog[i]) != sig_mode(spawnlog[j]), "
             "%s.priority >= %s.priority and sig_t(spawnlog[j]) >= sig_t(spawnlog[i]) + self.warmup_delay))" % (WI, WJ))
    ALLLIFE = ("forall(INT, lambda i: implies(0 <= i and i < length(self.watchers), not isnull(self.watchers[i]) and "
               "wf_w(self.watchers[i]) and not self.watchers[i].on_demand and self.watchers[i].arbiter == self and "
               "found_empty(self.watchers[i]) and is_str(self.watchers[i].cmd) and self.watchers[i].warmup_delay >= 0 and "
               "self.watchers[i].graceful_timeout >= 0 and "
               "(self.watchers[i]._status == 'stopped' or self.watchers[i]._status == 'active') and "
               "implies(self.watchers[i]._status == 'stopped', len(self.watchers[i].processes) == 0)))")
    SPKEEP = spec.consts['$SPKEEP']
    spec.add(Contract(
        'circus.arbiter:Arbiter._start_watchers', kind='coroutine', rely='arb',
        params={'watcher_iter_func': Ref('IterFunc')}, defaults={'watcher_iter_func': None},
        requires=['excl', ALLLIFE, 'isnull(watcher_iter_func) or watcher_iter_func.owner == self', 'dir1(self)',
                  'self.warmup_delay >= 0'],
        ensures=[('priority-order-and-pacing', ORDER), SPKEEP, 'excl',
                 "same_field('Arbiter.watchers', 'Arbiter._watchers_names')", 'clock >= old(clock)'],
        raises={'RuntimeError': []},
        modifies=['*'],
        loops={0: Loop(invariant=[
            ORDER, SPKEEP, 'excl', 'clock >= old(clock)',
            # every spawn so far is at least warmup_delay in the past, and belongs to a watcher of no lower priority
            # than everything still to be started
            "forall(INT, lambda i: implies(%s, sig_t(spawnlog[i]) + self.warmup_delay <= clock))" % NEWI,
            "forall(INT, INT, lambda i, m: implies(%s and loop_i <= m and m < loop_n, "
            "%s.priority >= loop_seq[m].priority))" % (NEWI, WI),
            "forall(INT, INT, lambda a, b: implies(0 <= a and a < b and b < loop_n, "
            "loop_seq[a].priority >= loop_seq[b].priority and loop_seq[a] != loop_seq[b]))",
            "forall(INT, lambda j: implies(0 <= j and j < loop_n, contains(self.watchers, loop_seq[j])))",
            "same_field('Arbiter.watchers', 'Arbiter._watchers_names', 'Arbiter.warmup_delay', 'Watcher.priority')",
            "self.warmup_delay >= 0",
            # what is still to be started is as the precondition found it
            "forall(INT, lambda m: implies(loop_i <= m and m < loop_n, not isnull(loop_seq[m])))",
            "forall(INT, lambda m: implies(loop_i <= m and m < loop_n, wf_procs_pid(loop_seq[m])))",
            "forall(INT, lambda m: implies(loop_i <= m and m < loop_n, wf_w(loop_seq[m])))",
            "forall(INT, lambda m: implies(loop_i <= m and m < loop_n, not loop_seq[m].on_demand and loop_seq[m].arbiter == self))",
            "forall(INT, lambda m: implies(loop_i <= m and m < loop_n, found_empty(loop_seq[m])))",
            "forall(INT, lambda m: implies(loop_i <= m and m < loop_n, is_str(loop_seq[m].cmd) and loop_seq[m].warmup_delay >= 0 and loop_seq[m].graceful_timeout >= 0))",
            "forall(INT, lambda m: implies(loop_i <= m and m < loop_n, (loop_seq[m]._status == 'stopped' or loop_seq[m]._status == 'active')))",
            "forall(INT, lambda m: implies(loop_i <= m and m < loop_n, implies(loop_seq[m]._status == 'stopped', len(loop_seq[m].processes) == 0)))",
        ], fingerprint='for:watchers')}))


def declare_reap(spec):
    """C04 (arbiter half): the periodic waitpid(-1) loop collects every terminated child and reports those it knows."""
    RKEEP = ("(length(reaplog) >= length(old(reaplog)) and forall(INT, lambda i: implies(0 <= i and "
             "i < length(old(reaplog)), reaplog[i] == old(reaplog)[i])))")
    ALLW = ("forall(INT, lambda i: implies(0 <= i and i < length(self.watchers), not isnull(self.watchers[i]) and "
            "wf_procs_pid(self.watchers[i]) and forall(INT, lambda k: implies(k in self.watchers[i].processes, k > 0))))")
    KCH = "forall(INT, lambda p: implies(p in K_child, p in old(K_child)))"
    spec.add(Contract(
        'circus.arbiter:Arbiter.reap_processes',
        requires=[ALLW],
        ensures=[
            # when the loop ends because waitpid found nothing more to collect, no terminated child is left unreaped
            ('no-zombie-left', "forall(INT, lambda p: implies(p in K_child, p in K_alive))"),
            KCH, RKEEP,
            # a reap event is published only for a pid that had terminated
            ('reaped-were-dead', "forall(INT, lambda i: implies(length(old(reaplog)) <= i and i < length(reaplog), "
             "not (ev_pid(reaplog[i]) in K_child)))"),
            "same_field('Arbiter.watchers', 'Arbiter._watchers_names', 'Watcher._status', 'Watcher.numprocesses')",
        ],
        raises={'OSError': [KCH, RKEEP]},
        modifies=['Watcher.processes', 'evlog', 'reaplog', 'hooklog', 'clock', 'K_alive', 'K_child', 'siglog',
                  'Process.closed'],
        local_types={'watchers_pids': Dict(INT, Ref('Watcher'))},
        loops={
            0: Loop(invariant=[
                "forall(INT, lambda k: implies(k in watchers_pids, k > 0 and not isnull(watchers_pids[k]) and "
                "contains(self.watchers, watchers_pids[k])))"],
                fingerprint='for:self.iter_watchers()', modifies=[]),
            1: Loop(invariant=[
                "forall(INT, lambda k: implies(k in watchers_pids, k > 0 and not isnull(watchers_pids[k]) and "
                "contains(self.watchers, watchers_pids[k])))", "not isnull(watcher)", "contains(self.watchers, watcher)"],
                fingerprint='for:watcher.processes.values()', modifies=[]),
            2: Loop(invariant=[
                KCH, RKEEP, ALLW,
                "forall(INT, lambda i: implies(length(old(reaplog)) <= i and i < length(reaplog), "
                "not (ev_pid(reaplog[i]) in K_child)))",
                "forall(INT, lambda k: implies(k in watchers_pids, k > 0 and not isnull(watchers_pids[k]) and "
                "contains(self.watchers, watchers_pids[k])))",
                "same_field('Arbiter.watchers', 'Arbiter._watchers_names', 'Watcher._status', 'Watcher.numprocesses')",
            ], fingerprint='while:True',
                modifies=['Watcher.processes', 'evlog', 'reaplog', 'hooklog', 'clock', 'K_alive', 'K_child', 'siglog',
                          'Process.closed'])},
    ))
