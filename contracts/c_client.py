"""C06 (client half): CircusClient.call returns only the reply that bears this call's id."""
from pyvc.tys import *   # noqa
from pyvc.spec import *   # noqa


def declare(spec):
    spec.Class('UUID', fields={'hex': STR})
    spec.Class('ZSock', fields={})
    spec.Class('ZPoller', fields={})
    spec.Class('CircusClient', qual='circus.client:CircusClient', fields={
        'socket': Ref('ZSock'), 'poller': Ref('ZPoller'), 'timeout': VAL})
    spec.ghost('cl_recv', List(BYTES))       # every frame the client took off its socket
    spec.ghost('cl_sent', List(VAL))         # every frame the client sent
    spec.ghost('cl_id', STR)                 # the id generated for the call in progress
    spec.local_ghosts.update(['cl_id'])
    spec.add(Contract('uuid:uuid4', ret=Ref('UUID'), trusted=True, modifies=['new:UUID'],
                      ensures=['not isnull(result)', 'fresh_obj(result)'], note='T-STDLIB uuid4(): a fresh identifier'))
    spec.add(Contract('$ZSock.send', params={'self': Ref('ZSock'), 'data': VAL}, trusted=True, modifies=['cl_sent'],
                      ensures=['cl_sent == old(cl_sent) + [data]'],
                      raises={'ZMQError': ['cl_sent == old(cl_sent)']}, note='T-ZMQ DEALER send'))
    spec.add(Contract('$ZSock.recv', params={'self': Ref('ZSock')}, ret=BYTES, trusted=True, modifies=['cl_recv'],
                      ensures=['cl_recv == old(cl_recv) + [result]'], note='T-ZMQ recv of one frame (after POLLIN)'))
    spec.add(Contract('$ZPoller.poll', params={'self': Ref('ZPoller'), 'timeout': VAL}, ret=Dict(Ref('ZSock'), INT),
                      trusted=True, modifies=[],
                      ensures=['forall(Ref("ZSock"), lambda s: implies(s in result, not isnull(s)))'],
                      raises={'ZMQError': []},
                      note='T-ZMQ Poller.poll: the (socket, event) pairs that are ready -- modelled as the dict the code '
                           'builds from them at once (dict(pairs)); empty = timeout'))
    RKEEP = ("(length(cl_recv) >= length(old(cl_recv)) and forall(INT, lambda i: implies(0 <= i and "
             "i < length(old(cl_recv)), cl_recv[i] == old(cl_recv)[i])))")
    spec.add(Contract(
        'circus.client:CircusClient.call', params={'cmd': VAL}, ret=VAL,
        requires=['not isnull(self.socket)', 'not isnull(self.poller)', 'is_obj(cmd)'],
        ensures=[
            # the reply handed back is a frame received during THIS call, it is a JSON object, and its id is the id
            # generated for this call -- stale or foreign replies are never returned
            ('reply-bears-this-calls-id', "is_obj(result) and obj_has(result, 'id') and obj_get(result, 'id') == val(cl_id)"),
            ('reply-was-received-now', "length(cl_recv) > length(old(cl_recv)) and "
                                       "result == ufn('json_of', VAL, val(last(cl_recv)))"),
            ('request-carries-the-id', "length(cl_sent) == length(old(cl_sent)) + 1"),
            RKEEP,
        ],
        raises={'CallError': [RKEEP], 'DeprecationWarning': ['is_str(cmd)', 'cl_recv == old(cl_recv)', 'cl_sent == old(cl_sent)'],
                'TypeError': [RKEEP], 'AttributeError': [RKEEP]},
        modifies=['cl_recv', 'cl_sent', 'cl_id', '$val', 'new:UUID', 'UUID.hex'],
        ghost_at={'uuid4': ['cl_id = call_result.hex']},
        loops={0: Loop(invariant=[RKEEP, 'length(cl_sent) == length(old(cl_sent)) + 1', 'is_str(val(call_id))',
                                  'call_id == cl_id'],
                       fingerprint='while:True', modifies=['cl_recv', '$val']),
               1: Loop(invariant=[RKEEP, 'length(cl_sent) == length(old(cl_sent)) + 1', 'call_id == cl_id'],
                       fingerprint='for:events', modifies=['cl_recv', '$val'])}))
