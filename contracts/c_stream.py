"""C20: FileStream (size rotation) over a ghost file system  FS : path -> content."""
from pyvc.tys import *   # noqa
from pyvc.spec import *   # noqa

FSKEEP = "forall(PATH, lambda fq: implies(fq != %s, (fq in FS) == (fq in old(FS)) and FS[fq] == old(FS)[fq]))"


def declare(spec):
    spec.ghost('FS', Dict(PATH, STR))
    spec.Class('File', fields={'path': PATH, 'closed': BOOL})
    spec.Class('_FileStreamBase', qual='circus.stream.file_stream:_FileStreamBase', fields={
        '_filename': PATH, '_file': Ref('File'), '_time_format': VAL})
    spec.Class('FileStream', qual='circus.stream.file_stream:FileStream', bases=('_FileStreamBase',), fields={
        '_max_bytes': INT, '_backup_count': INT})
    spec.assumptions['T-FS'] = ('ghost file system: open/exists/remove/rename/write/seek/tell as map updates; '
                                'disk errors and concurrent external modification are out of scope')
    spec.assumptions['A-ASCII-DATA'] = ('file content is measured in bytes = characters (ASCII data); '
                                        'non-ASCII str / invalid UTF-8 bytes are outside the proved domain')
    # ---- T-KERNEL file operations
    spec.add(Contract('os.path:exists', params={'p': PATH}, ret=BOOL, trusted=True, modifies=[],
                      ensures=['result == (p in FS)'], inline='p in FS'))
    spec.add(Contract('os:remove', params={'p': PATH}, trusted=True, modifies=['FS'],
                      requires=[], ensures=['p in old(FS)', 'not (p in FS)', FSKEEP % 'p'],
                      raises={'OSError': ['not (p in old(FS))', 'FS == old(FS)']}))
    spec.add(Contract('os:rename', params={'a': PATH, 'b': PATH}, trusted=True, modifies=['FS'],
                      ensures=['a in old(FS)', 'implies(a != b, not (a in FS))', 'b in FS', 'FS[b] == old(FS)[a]',
                               "forall(PATH, lambda fq: implies(fq != a and fq != b, (fq in FS) == (fq in old(FS)) "
                               "and FS[fq] == old(FS)[fq]))"],
                      raises={'OSError': ['not (a in old(FS))', 'FS == old(FS)']}))
    spec.add(Contract('builtins:open', params={'path': PATH, 'mode': STR}, ret=Ref('File'), trusted=True,
                      modifies=['FS', 'new:File', 'File.path', 'File.closed'],
                      requires=["mode == 'a+'"],
                      ensures=['fresh_obj(result)', 'result.path == path', 'not result.closed', 'path in FS',
                               "FS[path] == ite(path in old(FS), old(FS)[path], '')", FSKEEP % 'path',
                               "forall(Ref('File'), lambda f: implies(f != result, f.path == old(f.path) and f.closed == old(f.closed)))"],
                      note="open(path, 'a+'): creates an empty file when missing, never truncates"))
    spec.add(Contract('$File.write', params={'self': Ref('File'), 's': STR}, trusted=True, modifies=['FS'],
                      requires=['not self.closed', 'self.path in FS'],
                      ensures=['self.path in FS', "FS[self.path] == old(FS)[self.path] + s", FSKEEP % 'self.path'],
                      note="append-mode write: content' = content ++ s"))
    spec.add(Contract('$File.seek', params={'self': Ref('File'), 'off': INT, 'whence': INT}, trusted=True,
                      modifies=[], requires=['not self.closed']))
    spec.add(Contract('$File.tell', params={'self': Ref('File')}, ret=INT, trusted=True, modifies=[],
                      requires=['not self.closed', 'self.path in FS'],
                      ensures=['result == slen(FS[self.path])'],
                      note='tell() after seek(0, 2): size of the file (A-ASCII-DATA)'))
    spec.add(Contract('$File.flush', params={'self': Ref('File')}, trusted=True, modifies=[]))
    spec.add(Contract('$File.close', params={'self': Ref('File')}, trusted=True, modifies=['self.closed'],
                      ensures=['self.closed']))

    # ---- functions under contract
    spec.pred('txt', [('v', VAL)],
              "ite(is_bytes(v), ufn('bytes_decode', STR, as_bytes(v)), as_str(v))", ret=STR)
    spec.pred('vlen', [('v', VAL)], "ite(is_bytes(v), slen(as_bytes(v)), slen(as_str(v)))", ret=INT)
    spec.add(Contract('circus.util:to_str', params={'s': VAL, 'encoding': STR, 'errors': STR}, ret=STR,
                      requires=['is_str(s) or is_bytes(s)'], modifies=[],
                      ensures=["result == txt(s)"]))
    spec.add(Contract('circus.stream.file_stream:_FileStreamBase._open', ret=Ref('File'),
                      ensures=['fresh_obj(result)', 'result.path == self._filename', 'not result.closed',
                               'self._filename in FS',
                               "FS[self._filename] == ite(self._filename in old(FS), old(FS)[self._filename], '')",
                               FSKEEP % 'self._filename',
                               "forall(Ref('File'), lambda f: implies(f != result, f.path == old(f.path) and f.closed == old(f.closed)))"],
                      modifies=['FS', 'new:File', 'File.path', 'File.closed']))
    spec.pred('fs_wf', [('s', Ref('FileStream'))],
              "implies(not isnull(s._file), not s._file.closed and s._file.path == s._filename and (s._filename in FS))")
    spec.pred('fs_same', [('pp', PATH)],
              "(pp in FS) == (pp in old(FS)) and implies(pp in FS, FS[pp] == old(FS)[pp])")
    spec.pred('bk', [('s', Ref('FileStream')), ('n', INT)], "path_idx(s._filename, n)", ret=PATH)
    spec.pred('is_bk', [('s', Ref('FileStream')), ('pp', PATH)],
              "1 <= path_inv(pp) and path_inv(pp) <= s._backup_count and pp == path_idx(s._filename, path_inv(pp))")
    N = "self._backup_count"
    spec.add(Contract(
        'circus.stream.file_stream:FileStream._do_rollover',
        requires=['fs_wf(self)', 'self._filename in FS', '%s >= 0' % N],
        ensures=[
            'fs_wf(self)', 'not isnull(self._file)',
            # active file restarts empty (or is kept when no backup is configured)
            "implies(%s > 0, FS[self._filename] == '')" % N,
            "implies(%s == 0, FS[self._filename] == old(FS)[self._filename])" % N,
            # .1 receives the old active file
            "implies(%s > 0, (bk(self, 1) in FS) and FS[bk(self, 1)] == old(FS)[self._filename])" % N,
            # .i+1 receives the old .i  (1 <= i < N) when that existed
            "forall(INT, lambda i: implies(1 <= i and i < %s and (bk(self, i) in old(FS)), "
            "(bk(self, i + 1) in FS) and FS[bk(self, i + 1)] == old(FS)[bk(self, i)]))" % N,
            # a backup whose predecessor did not exist receives nothing: it has moved up (if it existed and
            # is not the last one) or is left alone
            "forall(INT, lambda i: implies(2 <= i and i <= %s and not (bk(self, i - 1) in old(FS)), "
            "ite(i < %s and (bk(self, i) in old(FS)), not (bk(self, i) in FS), fs_same(bk(self, i)))))" % (N, N),
            # nothing else is touched: in particular no backup beyond backup_count is created
            "forall(PATH, lambda p: implies(p != self._filename and not is_bk(self, p), fs_same(p)))",
        ],
        modifies=['FS', 'self._file', 'File.closed', 'File.path', 'new:File'],
        loops={0: Loop(invariant=[
            # cur = loop_n - loop_i is the next source index; sources above cur are done
            "forall(INT, lambda j: implies(loop_n - loop_i + 1 < j and j <= %s and (bk(self, j - 1) in old(FS)), "
            "(bk(self, j) in FS) and FS[bk(self, j)] == old(FS)[bk(self, j - 1)]))" % N,
            "forall(INT, lambda j: implies(loop_n - loop_i + 1 < j and j <= %s and not (bk(self, j - 1) in old(FS)), "
            "ite(j < %s and (bk(self, j) in old(FS)), not (bk(self, j) in FS), fs_same(bk(self, j)))))" % (N, N),
            "implies(loop_i >= 1, not (bk(self, loop_n - loop_i + 1) in FS))",
            "implies(loop_i == 0, fs_same(bk(self, loop_n + 1)))",
            "forall(INT, lambda j: implies(1 <= j and j <= loop_n - loop_i, fs_same(bk(self, j))))",
            "forall(PATH, lambda p: implies(not is_bk(self, p), fs_same(p)))",
            "loop_n == %s - 1" % N, "isnull(self._file)", "self._filename == old(self._filename)",
            "%s == old(%s)" % (N, N),
        ], fingerprint='for:range(self._backup_count - 1, 0, -1)')},
    ))

    M = "self._max_bytes"
    ROLL = "(%s > 0 and slen(old(FS)[self._filename]) + vlen(%s) >= %s)"
    spec.add(Contract(
        'circus.stream.file_stream:FileStream._should_rollover', params={'raw_data': VAL}, ret=INT,
        requires=['fs_wf(self)', 'not isnull(self._file)', 'is_str(raw_data) or is_bytes(raw_data)'],
        ensures=['result == ite(%s, 1, 0)' % (ROLL % (M, 'raw_data', M)), 'fs_wf(self)', 'not isnull(self._file)',
                 'FS == old(FS)', 'self._file == old(self._file)'],
        modifies=[]))
    spec.add(Contract(
        'circus.stream.file_stream:_FileStreamBase.write_data', params={'data': VAL},
        requires=['fs_wf(self)', 'not isnull(self._file)', 'is_none(self._time_format)', 'is_obj(data)',
                  "obj_has(data, 'data')", "is_str(obj_get(data, 'data')) or is_bytes(obj_get(data, 'data'))"],
        ensures=["FS[self._filename] == old(FS)[self._filename] + txt(obj_get(data, 'data'))",
                 "forall(PATH, lambda p: implies(p != self._filename, fs_same(p)))", 'fs_wf(self)',
                 'self._filename in FS'],
        modifies=['FS']))
    D = "obj_get(data, 'data')"
    R = ROLL % (M, D, M)
    spec.add(Contract(
        'circus.stream.file_stream:FileStream.__call__', params={'data': VAL},
        requires=['fs_wf(self)', 'not isnull(self._file)', 'is_none(self._time_format)', 'is_obj(data)',
                  "obj_has(data, 'data')", "is_str(%s) or is_bytes(%s)" % (D, D), '%s >= 0' % N],
        ensures=[
            'fs_wf(self)', 'not isnull(self._file)',
            # no rotation (or rotation without backups): plain append, nothing else changes
            "implies(not %s or %s == 0, FS[self._filename] == old(FS)[self._filename] + txt(%s))" % (R, N, D),
            "implies(not %s or %s == 0, forall(PATH, lambda p: implies(p != self._filename, fs_same(p))))" % (R, N),
            # rotation: the record starts the new active file, the old active file becomes .1, .i becomes .i+1
            "implies(%s and %s > 0, FS[self._filename] == txt(%s))" % (R, N, D),
            "implies(%s and %s > 0, (bk(self, 1) in FS) and FS[bk(self, 1)] == old(FS)[self._filename])" % (R, N),
            "implies(%s and %s > 0, forall(INT, lambda i: implies(1 <= i and i < %s and (bk(self, i) in old(FS)), "
            "(bk(self, i + 1) in FS) and FS[bk(self, i + 1)] == old(FS)[bk(self, i)])))" % (R, N, N),
            "implies(%s and %s > 0, forall(INT, lambda i: implies(2 <= i and i <= %s and not (bk(self, i - 1) in old(FS)), "
            "ite(i < %s and (bk(self, i) in old(FS)), not (bk(self, i) in FS), fs_same(bk(self, i))))))" % (R, N, N, N),
            # at most backup_count backups, nothing else touched
            "forall(PATH, lambda p: implies(p != self._filename and not is_bk(self, p), fs_same(p)))",
            # a record smaller than max_bytes never leaves the active file at or above max_bytes
            "implies(%s > 0 and %s > 0 and vlen(%s) < %s and slen(txt(%s)) == vlen(%s), "
            "slen(FS[self._filename]) < %s)" % (M, N, D, M, D, D, M),
        ],
        modifies=['FS', 'self._file', 'File.closed', 'File.path', 'new:File'],
        must_fail=["slen(FS[self._filename]) < %s" % M],
    ))
    spec.add(Contract('circus.stream.file_stream:_FileStreamBase.close',
                      requires=['not isnull(self._file)'], ensures=['self._file.closed', 'FS == old(FS)'],
                      modifies=['File.closed']))
    spec.add(Contract('circus.stream.file_stream:_FileStreamBase.open',
                      requires=['not isnull(self._file)', 'self._file.path == self._filename', 'self._filename in FS'],
                      ensures=['not self._file.closed', 'self._file.path == self._filename',
                               "forall(PATH, lambda p: fs_same(p))"],
                      modifies=['FS', 'self._file', 'new:File', 'File.path', 'File.closed']))
