"""C06: Controller.dispatch and the reply path."""
import z3
from pyvc.tys import *   # noqa
from pyvc.spec import *   # noqa


def h_json_dumps(eng, st, args, kw, node):
    """T-STDLIB json.dumps: total on str-keyed dicts of JSON scalars (event payloads); on an arbitrary
    dynamic value it returns bytes or raises TypeError (unserialisable object inside)"""
    o = args[0]
    eng.used_contracts.add('zmq.utils.jsonapi:dumps')
    out = eng.ok(st, fresh(BYTES, 'json'))
    if o.ty == VAL:
        ja = z3.Function('u_json_able', Val, z3.BoolSort())
        t, f = eng.branch(st, z3.Not(ja(o.z)))
        if t is not None:
            out += eng.raise_(t, 'TypeError', node)
    return out


def h_add_done_callback(eng, st, recv, args, node):
    """T-TORNADO Future.add_done_callback(cb): cb(future) runs exactly once when the future is done.
    Ghost: dcb_flag[future] := send_resp flag, accepted only for partial(self._dispatch_callback_future, ...)"""
    cb = args[0]
    ok = (cb.ty == PY and cb.py[0] == 'partial' and cb.py[1].ty == PY and cb.py[1].py[0] == 'bound' and
          cb.py[1].py[2] == '_dispatch_callback_future' and len(cb.py[2]) == 6)
    if not ok:
        eng.oos('add_done_callback with a callback other than partial(self._dispatch_callback_future, ...)', node)
    flag = cb.py[2][5]
    fid = Val.vx(recv.z)
    g = eng.ghost_get(st, 'dcb_flag')
    st2 = eng.ghost_set(st, 'dcb_flag', eng.dict_set(g, fid, eng.coerce(flag, BOOL)))
    g2 = eng.ghost_get(st2, 'dcb_mid')
    st3 = eng.ghost_set(st2, 'dcb_mid', eng.dict_set(g2, fid, eng.coerce(cb.py[2][2], VAL)))
    return eng.ok(st3, mk_none())


RKEEP = ("(length(sentlog) >= length(old(sentlog)) and forall(INT, lambda i: implies(0 <= i and "
         "i < length(old(sentlog)), sentlog[i] == old(sentlog)[i])))")
ONE = ("length(sentlog) == length(old(sentlog)) + 1 and rp_cid(last(sentlog)) == cid and "
       "rp_mid(last(sentlog)) == %s and (rp_status(last(sentlog)) == val('ok') or rp_status(last(sentlog)) == val('error'))")


def declare(spec):
    spec.ghost('sentlog', List(REPEV))        # one entry per reply handed to the ROUTER stream
    spec.ghost('dcb_flag', Dict(INT, BOOL))   # future id -> send_resp flag of the registered done-callback
    spec.ghost('dcb_mid', Dict(INT, VAL))
    spec.ghost('val_calls', INT)     # C11: number of cmd.validate calls that returned normally
    spec.ghost('exec_calls', INT)    # C11: number of cmd.execute calls started
    spec.handlers['zmq.utils.jsonapi:dumps'] = h_json_dumps
    spec.consts['zmq:SNDMORE'] = 2
    spec.method_handlers['add_done_callback'] = h_add_done_callback
    spec.Class('ZStream', fields={})
    spec.Class('AnyCommand', fields={})
    spec.Class('Controller', qual='circus.controller:Controller', fields={
        'commands': Dict(STR, Ref('AnyCommand')), 'stream': Ref('ZStream'), 'arbiter': Ref('Arbiter')})
    spec.add(Contract('$ZStream.send', params={'self': Ref('ZStream'), 'data': VAL, 'flags': INT}, trusted=True,
                      modifies=[], raises={'ZMQError': []}, defaults={'flags': 0},
                      note='T-ZMQ ZMQStream.send: queues the frame or raises ZMQError'))
    spec.add(Contract('$ZStream.flush', params={'self': Ref('ZStream')}, trusted=True, modifies=[]))
    spec.add(Contract('zmq.utils.jsonapi:loads', params={'s': VAL}, ret=VAL, trusted=True, modifies=['$val'],
                      raises={'ValueError': ["same_field('$vobj.map', '$vlist.seq')", "ufn('json_bad', BOOL, s)"]},
                      ensures=['not is_ref(result)', 'not is_bytes(result)', "not ufn('json_bad', BOOL, s)",
                               "result == ufn('json_of', VAL, s)", "ufn('json_able', BOOL, result)",
                               # the parsed document, as heap-independent functions of the value
                               "implies(is_obj(result), forall(STR, lambda k: obj_has(result, k) == ufn('jhas', BOOL, result, k) "
                               "and obj_get(result, k) == ufn('jget', VAL, result, k) and "
                               "ufn('json_able', BOOL, obj_get(result, k))))"],
                      note='T-STDLIB json.loads: ValueError or any JSON value (fresh containers)'))
    spec.add(Contract('$AnyCommand.validate', params={'self': Ref('AnyCommand'), 'props': VAL}, trusted=True,
                      modifies=['$val'], raises={'*': []},
                      note='any registered command: validate may raise anything and may normalise props in place; '
                           'every concrete Command.validate contract refines this'))
    spec.add(Contract('$AnyCommand.execute', params={'self': Ref('AnyCommand'), 'arbiter': Ref('Arbiter'), 'props': VAL},
                      ret=VAL, trusted=True, modifies=['*'],
                      ensures=["same_ghost('sentlog', 'dcb_flag', 'dcb_mid', 'val_calls', 'exec_calls')", "same_field('Controller.commands', 'Controller.stream', 'Controller.arbiter')"],
                      raises={'*': ["same_ghost('sentlog', 'dcb_flag', 'dcb_mid', 'val_calls', 'exec_calls')", "same_field('Controller.commands', 'Controller.stream', 'Controller.arbiter')"]},
                      note='any registered command: arbitrary effect on the arbiter, any result or exception; it '
                           'does not itself write to the control stream nor touch the controller'))
    declare_dispatch_later = True
    spec.add(Contract('sys:exc_info', ret=Tuple(VAL, VAL, VAL), trusted=True, modifies=[]))
    spec.add(Contract('traceback:format_exc', ret=STR, trusted=True, modifies=[]))
    spec.add(Contract('circus.util:check_future_exception_and_log', params={'future': VAL}, ret=VAL,
                      trusted=True, modifies=[],
                      ensures=["result == ufn('fut_exc', VAL, future)"],
                      note='returns future.exception() (logging only): verified separately'))
    # ---- reply constructors
    spec.add(Contract('circus.commands.base:ok', params={'props': VAL}, ret=VAL,
                      requires=['is_none(props) or is_obj(props)'],
                      ensures=['is_obj(result)', "obj_has(result, 'status')",
                               "implies(is_none(props) or not old(obj_has(props, 'status')), obj_get(result, 'status') == val('ok'))",
                               "implies(is_obj(props) and old(obj_has(props, 'status')) and old(obj_size(props)) > 0, "
                               "obj_get(result, 'status') == old(obj_get(props, 'status')))",
                               "same_ghost('sentlog')"],
                      assumed=["implies(is_none(props) or ufn('json_able', BOOL, props), ufn('json_able', BOOL, result))"],
                      modifies=['$val', 'clock']))
    spec.add(Contract('circus.commands.base:error', params={'reason': VAL, 'tb': VAL, 'errno': VAL}, ret=VAL,
                      ensures=['is_obj(result)', "obj_has(result, 'status')", "obj_get(result, 'status') == val('error')"],
                      assumed=["ufn('json_able', BOOL, result)"],
                      modifies=['$val', 'clock'],
                      note="error(): the reply is built from strings and numbers only (A-JSONERR: reason/tb are "
                           "str, errno an int), hence serialisable"))
    MIDCID = ['not cast and not is_none(cid)']
    spec.add(Contract(
        'circus.controller:Controller.send_response',
        params={'mid': VAL, 'cid': VAL, 'msg': VAL, 'resp': VAL, 'cast': BOOL},
        requires=['not isnull(self.stream)', "is_obj(resp) and obj_has(resp, 'status')"],
        ensures=[
            "implies(cast or is_none(cid), sentlog == old(sentlog))",
            "implies(not cast and not is_none(cid), length(sentlog) == length(old(sentlog)) + 1 and "
            "last(sentlog) == repev(cid, mid, old(obj_get(resp, 'status'))))", RKEEP,
            "same_ghost('dcb_flag', 'dcb_mid')",
        ],
        raises={'TypeError': ['sentlog == old(sentlog)', 'not cast and not is_none(cid)',
                              "not ufn('json_able', BOOL, resp)"]},
        modifies=['sentlog', '$val'], exc_modifies=['$val'],
        # the reply id and status recorded are the ones inside the object that is really serialised
        ghost_at={'dumps': ["sentlog = sentlog + [repev(cid, obj_get(args[0], 'id'), obj_get(args[0], 'status'))]"]},
    ))
    spec.add(Contract(
        'circus.controller:Controller.send_error',
        params={'mid': VAL, 'cid': VAL, 'msg': VAL, 'reason': VAL, 'tb': VAL, 'cast': BOOL, 'errno': VAL},
        requires=['not isnull(self.stream)'],
        ensures=["implies(cast or is_none(cid), sentlog == old(sentlog))",
                 "implies(not cast and not is_none(cid), length(sentlog) == length(old(sentlog)) + 1 and "
                 "last(sentlog) == repev(cid, mid, val('error')))", RKEEP, "same_ghost('dcb_flag', 'dcb_mid')"],
        modifies=['sentlog', '$val', 'clock']))
    spec.add(Contract(
        'circus.controller:Controller.send_ok',
        params={'mid': VAL, 'cid': VAL, 'msg': VAL, 'props': VAL, 'cast': BOOL},
        requires=['not isnull(self.stream)', 'is_none(props) or is_obj(props)'],
        ensures=["implies(cast or is_none(cid), sentlog == old(sentlog))",
                 "implies(not cast and not is_none(cid), length(sentlog) == length(old(sentlog)) + 1 and "
                 "rp_cid(last(sentlog)) == cid and rp_mid(last(sentlog)) == mid)",
                 # status ok unless the command's own result carries a 'status' key
                 "implies(not cast and not is_none(cid) and (is_none(props) or not old(obj_has(props, 'status'))), "
                 "rp_status(last(sentlog)) == val('ok'))",
                 "implies(not cast and not is_none(cid) and is_obj(props) and old(obj_has(props, 'status')) and "
                 "old(obj_size(props)) > 0, rp_status(last(sentlog)) == old(obj_get(props, 'status')))",
                 RKEEP, "same_ghost('dcb_flag', 'dcb_mid')"],
        raises={'TypeError': ['sentlog == old(sentlog)']},
        modifies=['sentlog', '$val', 'clock'], exc_modifies=['$val', 'clock']))
    declare_dispatch(spec)
    declare_future(spec)
    spec.add(Contract(
        'circus.controller:Controller.handle_message', params={'raw_msg': VAL},
        requires=['not isnull(self.stream)', 'not isnull(self.arbiter)',
                  "forall(STR, lambda k: implies(k in self.commands, not isnull(self.commands[k])))",
                  # frames as delivered by the ROUTER stream: a list; the first frame (peer identity) is never None
                  "implies(is_list(raw_msg) and length(vlist_of(raw_msg)) == 2, not is_none(vlist_of(raw_msg)[0]) and "
                  "is_bytes(vlist_of(raw_msg)[1]))"],
        ensures=['length(sentlog) <= length(old(sentlog)) + 1', RKEEP,
                 "same_field('Controller.commands', 'Controller.stream', 'Controller.arbiter')"],
        modifies=['*']))


def declare_dispatch(spec):
    NOW = "length(sentlog) == length(old(sentlog)) + 1"
    REPLY_OK = ("rp_cid(last(sentlog)) == cid and rp_mid(last(sentlog)) == mid")
    spec.add(Contract(
        'circus.controller:Controller._dispatch_callback',
        params={'msg': VAL, 'cid': VAL, 'mid': VAL, 'cast': BOOL, 'cmd_name': VAL, 'resp': VAL},
        requires=['not isnull(self.stream)', 'is_str(cmd_name)'],
        ensures=[
            "implies(cast or is_none(cid), sentlog == old(sentlog))",
            "implies(not cast and not is_none(cid), %s and %s)" % (NOW, REPLY_OK),
            # the reply status is ok or error
            ('status-ok-or-error',
             "implies(not cast and not is_none(cid), rp_status(last(sentlog)) == val('ok') or "
             "rp_status(last(sentlog)) == val('error'))"),
            # ... which holds at least whenever the command result does not carry its own 'status' key
            "implies(not cast and not is_none(cid) and not (is_obj(resp) and old(obj_has(resp, 'status'))), "
            "rp_status(last(sentlog)) == val('ok') or rp_status(last(sentlog)) == val('error'))",
            RKEEP, "same_ghost('dcb_flag', 'dcb_mid')",
        ],
        raises={'TypeError': ['sentlog == old(sentlog)']},
        modifies=['sentlog', '$val', 'clock'], exc_modifies=['$val', 'clock']))
    spec.add(Contract(
        'circus.controller:Controller._dispatch_callback_future',
        params={'msg': VAL, 'cid': VAL, 'mid': VAL, 'cast': BOOL, 'cmd_name': VAL, 'send_resp': BOOL, 'future': VAL},
        requires=['not isnull(self.stream)', 'is_str(cmd_name)', 'is_ref(future)'],
        ensures=[
            "implies(not send_resp or cast or is_none(cid), sentlog == old(sentlog))",
            "implies(send_resp and not cast and not is_none(cid), %s and %s)" % (NOW, REPLY_OK),
            RKEEP,
        ],
        raises={'TypeError': ['sentlog == old(sentlog)']},
        modifies=['sentlog', '$val', 'clock'], exc_modifies=['$val', 'clock']))
    J = "ufn('json_of', VAL, job[1])"
    MID = "ite(is_obj(%s) and ufn('jhas', BOOL, %s, 'id'), ufn('jget', VAL, %s, 'id'), vnone())" % (J, J, J)
    CAST = "(is_obj(%s) and ufn('jhas', BOOL, %s, 'msg_type') and ufn('jget', VAL, %s, 'msg_type') == val('cast'))" % (J, J, J)
    BAD = "ufn('json_bad', BOOL, job[1])"
    spec.add(Contract(
        'circus.controller:Controller.dispatch', params={'job': Tuple(VAL, VAL)},
        requires=['not isnull(self.stream)', 'not isnull(self.arbiter)',
                  "forall(STR, lambda k: implies(k in self.commands, not isnull(self.commands[k])))",
                  'not is_none(job[0])'],
        ensures=[
            # not JSON: one error reply with a null id
            "implies(%s, %s and rp_cid(last(sentlog)) == job[0] and is_none(rp_mid(last(sentlog))) and "
            "rp_status(last(sentlog)) == val('error'))" % (BAD, NOW),
            # cast messages are never answered
            "implies(not %s and %s, sentlog == old(sentlog))" % (BAD, CAST),
            # everything else: exactly one reply bearing the request id -- now, or (waiting request whose
            # operation is in flight) none now and a registered done-callback that will send exactly one
            ('one-reply',
             "implies(not %s and not %s, (%s and rp_cid(last(sentlog)) == job[0] and rp_mid(last(sentlog)) == %s) or "
             "(sentlog == old(sentlog) and exists(INT, lambda f: (f in dcb_flag) and dcb_flag[f] and "
             "dcb_mid[f] == %s)))" % (BAD, CAST, NOW, MID, MID)),
            # a non-waiting future replies now and its callback must stay silent
            "implies(%s, forall(INT, lambda f: implies((f in dcb_flag) and (not (f in old(dcb_flag)) or "
            "dcb_flag[f] != old(dcb_flag)[f]), not dcb_flag[f])))" % NOW,
            RKEEP,
            "same_field('Controller.commands', 'Controller.stream', 'Controller.arbiter')",
            # C11: a request refused before execution (not JSON, not an object, unknown command, or refused by the
            # command's validate) changes nothing but the reply log: execute is started at most once, only after
            # validate accepted the properties (callsite[validated-first]), and when it is not started the whole
            # heap and every ghost except the reply bookkeeping is as before
            ('execute-at-most-once', 'exec_calls <= old(exec_calls) + 1 and exec_calls >= old(exec_calls)'),
            ('refused-before-execute-changes-nothing',
             "implies(exec_calls == old(exec_calls), same_heap(except_=['sentlog', 'clock', 'val_calls', "
             "'$vobj.map', '$vlist.seq', '$vobj.$alloc', '$vlist.$alloc']))"),
            ('invalid-json-or-unknown-command-not-executed',
             "implies(%s or not is_obj(%s) or not ufn('jhas', BOOL, %s, 'command') or "
             "not is_str(ufn('jget', VAL, %s, 'command')) or "
             "not (lower(as_str(ufn('jget', VAL, %s, 'command'))) in self.commands), exec_calls == old(exec_calls))"
             % (BAD, J, J, J, J)),
        ],
        call_requires={'execute': [('validated-first', 'val_calls == old(val_calls) + 1 and exec_calls == old(exec_calls)')]},
        ghost_at={'validate': ['val_calls = val_calls + 1'], 'execute!': ['exec_calls = exec_calls + 1']},
        modifies=['*']))


def declare_future(spec):
    """TransformableFuture relays both outcomes of the underlying operation (C06: waiting requests)."""
    spec.Class('TransformableFuture', qual='circus.util:TransformableFuture', fields={
        '_upstream_future': VAL, '_upstream_callback': Ref('DoneCb'), '_result': VAL, '_exception': VAL})
    spec.Class('DoneCb', fields={})
    spec.add(Contract('$DoneCb.__call__', params={'self': Ref('DoneCb'), 'fut': VAL}, trusted=True,
                      modifies=['clock', 'K_alive', 'sentlog', '$val'],
                      note='a done-callback (Controller._dispatch_callback_future via functools.partial): returns; '
                           'its own contract is verified separately'))
    spec.ghost('tf_calls', INT)      # number of times a TransformableFuture called its downstream callback
    spec.add(Contract(
        'circus.util:TransformableFuture._internal_callback', params={'future': VAL},
        requires=['is_ref(future)'],
        ensures=[
            # the downstream callback runs exactly once, whether the operation produced a result or failed
            "implies(not isnull(old(self._upstream_callback)), tf_calls == old(tf_calls) + 1)",
            "implies(isnull(old(self._upstream_callback)), tf_calls == old(tf_calls))",
            "self._exception == ufn('fut_exc', VAL, future)",
            "implies(is_none(ufn('fut_exc', VAL, future)), self._result == ufn('fut_res', VAL, future))",
        ],
        modifies=['self._result', 'self._exception', 'tf_calls', 'clock', 'K_alive', 'sentlog', '$val'],
        ghost_at={'_upstream_callback': ["tf_calls = tf_calls + 1"]},
    ))
    spec.add(Contract('circus.util:TransformableFuture.exception', params={'timeout': VAL}, ret=VAL,
                      ensures=['implies(truthy(self._exception), result == self._exception)',
                               'implies(not truthy(self._exception), is_none(result))'], modifies=[]))
