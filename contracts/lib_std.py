"""Trusted contracts of library / kernel functions (T-STDLIB, T-KERNEL, ...)."""
from pyvc.tys import *   # noqa
from pyvc.spec import *   # noqa


def declare(spec):

    # ---- methods of opaque library objects (futures, streams ...) reached through a dynamic value
    spec.add(Contract('$method.exception', params={'self': VAL}, ret=VAL, trusted=True, modifies=[],
                      ensures=["ufn('fut_exc', VAL, self) == result"],
                      note='T-TORNADO Future.exception(): pure observer'))
    spec.add(Contract('$method.result', params={'self': VAL}, ret=VAL, trusted=True, modifies=[],
                      raises={'*': ["not is_none(ufn('fut_exc', VAL, self))"]},
                      ensures=["is_none(ufn('fut_exc', VAL, self))", "ufn('fut_res', VAL, self) == result"],
                      note='T-TORNADO Future.result(): returns the result or re-raises the exception'))
    # ---- time (ghost clock, monotone; A-REAL)
    spec.ghost('clock', REAL)
    spec.add(Contract('time:time', ret=REAL, trusted=True, modifies=['clock'],
                      ensures=['clock >= old(clock)', 'result == clock'],
                      note='T-KERNEL time.time(): reads the monotone ghost clock (time may pass)'))
