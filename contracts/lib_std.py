"""Trusted contracts of library / kernel functions (T-STDLIB, T-KERNEL, ...)."""
from pyvc.tys import *   # noqa
from pyvc.spec import *   # noqa


def declare(spec):
    pass
