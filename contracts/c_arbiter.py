"""Contracts for circus.arbiter (directory part: C15)."""
from pyvc.tys import *   # noqa
from pyvc.spec import *   # noqa

DIR1 = "distinct(a.watchers)"
DIR2 = ("forall(INT, lambda i: implies(0 <= i and i < length(a.watchers), not isnull(a.watchers[i]) and allocated(a.watchers[i]) and "
        "(lower(a.watchers[i].name) in a._watchers_names) and a._watchers_names[lower(a.watchers[i].name)] == a.watchers[i]))")
DIR3 = ("forall(STR, lambda k: implies(k in a._watchers_names, not isnull(a._watchers_names[k]) and "
        "contains(a.watchers, a._watchers_names[k]) and lower(a._watchers_names[k].name) == k))")
DIR4 = "length(a.watchers) == len(a._watchers_names)"
DIR = "dir1(a) and dir2(a) and dir3(a) and dir4(a)"


def declare(spec):
    spec.pred('dir1', [('a', Ref('Arbiter'))], DIR1)
    spec.pred('dir2', [('a', Ref('Arbiter'))], DIR2)
    spec.pred('dir3', [('a', Ref('Arbiter'))], DIR3)
    spec.pred('dir4', [('a', Ref('Arbiter'))], DIR4)
    spec.pred('dir_wf', [('a', Ref('Arbiter'))], DIR)
    spec.add(Contract(
        'circus.arbiter:Arbiter.add_watcher', params={'name': VAL, 'cmd': VAL, 'kw': Dict(STR, VAL)},
        ret=Ref('Watcher'),
        requires=['dir_wf(self)'],
        ensures=[
            'dir1(self)', 'dir2(self)', 'dir3(self)', 'dir4(self)',
            'is_str(name)',
            'lower(as_str(name)) in self._watchers_names',            # "ok only if the watcher now exists"
            'self._watchers_names[lower(as_str(name))] == result',
            'not (lower(as_str(name)) in old(self._watchers_names))',
            'fresh_obj(result)',
            'forall(STR, lambda k: implies(k != lower(as_str(name)), (k in self._watchers_names) == '
            '(k in old(self._watchers_names)) and self._watchers_names[k] == old(self._watchers_names)[k]))',
            'length(self.watchers) == length(old(self.watchers)) + 1',
        ],
        raises={
            'AlreadyExist': ['is_str(name)', 'lower(as_str(name)) in old(self._watchers_names)',
                             "same_field('Arbiter.watchers', 'Arbiter._watchers_names')"],
            '*': ['dir1(self)', 'dir2(self)', 'dir3(self)', 'dir4(self)'],
        },
        modifies=['self.watchers', 'self._watchers_names', 'evlog', 'clock', 'new:Watcher'],
    ))
    spec.add(Contract(
        'circus.arbiter:Arbiter.get_watcher', params={'name': VAL}, ret=Ref('Watcher'),
        requires=[],
        ensures=['is_str(name)', 'lower(as_str(name)) in self._watchers_names',
                 'result == self._watchers_names[lower(as_str(name))]'],
        raises={'KeyError': ['is_str(name)', 'not (lower(as_str(name)) in self._watchers_names)'],
                'AttributeError': ['not is_str(name)']},
        modifies=[]))
    # ---- rm_watcher: a coroutine holding the exclusive slot; its directory update is complete before its
    # first suspension (detached prefix), and the watcher is stopped at the end unless nostop
    from pyvc.rely import Rely
    PROT = spec.consts['$PROT']
    spec.relies['arb'] = Rely(
        'arb', stable=['excl', 'Process.pid', 'Process.wid', 'Process.started'],
        facts=['implies(excl, %s)' % PROT, spec.consts['$LOGS']],
        note='suspension of an arbiter-level operation that owns the slot: protected fields (incl. the watcher '
             'directory, statuses, tables) stable under excl (R-EXCL); kernel, logs, clock may change')
    KEY = 'lower(as_str(name))'
    RM_DIR = [
        'dir1(self)', 'dir2(self)', 'dir3(self)', 'dir4(self)',
        'is_str(name)', 'old(%s in self._watchers_names)' % KEY,
        # the name is gone from both structures, in every letter case, and nothing else moved
        ('removed-from-dict', 'not (%s in self._watchers_names)' % KEY),
        ('removed-from-list', 'not contains(self.watchers, old(self._watchers_names[%s]))' % KEY),
        ('others-kept', 'forall(STR, lambda k: implies(k != %s, (k in self._watchers_names) == '
         '(k in old(self._watchers_names)) and self._watchers_names[k] == old(self._watchers_names)[k]))' % KEY),
        'length(self.watchers) == length(old(self.watchers)) - 1',
    ]
    WFALL = ("forall(INT, lambda i: implies(0 <= i and i < length(self.watchers), wf_w(self.watchers[i]) and "
             "self.watchers[i].graceful_timeout >= 0))")
    rm = Contract(
        'circus.arbiter:Arbiter.rm_watcher', kind='coroutine', rely='arb', params={'name': VAL, 'nostop': BOOL},
        requires=['excl', 'dir_wf(self)', WFALL],
        ensures=RM_DIR + [
            ('stopped-unless-nostop', "implies(not nostop, old(self._watchers_names[%s])._status == 'stopped')" % KEY),
            'excl'],
        raises={'KeyError': ['is_str(name)', 'not (%s in old(self._watchers_names))' % KEY,
                             "same_field('Arbiter.watchers', 'Arbiter._watchers_names')"],
                'AttributeError': ['not is_str(name)', "same_field('Arbiter.watchers', 'Arbiter._watchers_names')"]},
        modifies=['*'])
    rm.detached = Contract('circus.arbiter:Arbiter.rm_watcher', params=rm.params, requires=[],
                           ensures=RM_DIR, modifies=['*'])
    spec.add(rm)
    spec.add(Contract('circus.arbiter:Arbiter.numwatchers', ret=INT,
                      ensures=['result == length(self.watchers)'], modifies=[], inline='length(self.watchers)'))
    spec.add(Contract(
        'circus.arbiter:Arbiter.statuses', ret=Dict(STR, STR), requires=['dir_wf(self)'],
        ensures=['forall(INT, lambda i: implies(0 <= i and i < length(self.watchers), '
                 'self.watchers[i].name in result and result[self.watchers[i].name] == self.watchers[i]._status))',
                 'forall(STR, lambda k: implies(k in result, exists(INT, lambda i: 0 <= i and i < '
                 'length(self.watchers) and self.watchers[i].name == k)))'],
        modifies=[]))
