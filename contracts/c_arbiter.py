"""Contracts for circus.arbiter (directory part: C15)."""
from pyvc.tys import *   # noqa
from pyvc.spec import *   # noqa

DIR1 = "distinct(a.watchers)"
DIR2 = ("forall(INT, lambda i: implies(0 <= i and i < length(a.watchers), not isnull(a.watchers[i]) and allocated(a.watchers[i]) and "
        "(lower(a.watchers[i].name) in a._watchers_names) and a._watchers_names[lower(a.watchers[i].name)] == a.watchers[i]))")
DIR3 = ("forall(STR, lambda k: implies(k in a._watchers_names, not isnull(a._watchers_names[k]) and "
        "contains(a.watchers, a._watchers_names[k]) and lower(a._watchers_names[k].name) == k))")
DIR4 = "length(a.watchers) == len(a._watchers_names)"
DIR = "dir1(a) and dir2(a) and dir3(a) and dir4(a)"


def declare(spec):
    spec.pred('dir1', [('a', Ref('Arbiter'))], DIR1)
    spec.pred('dir2', [('a', Ref('Arbiter'))], DIR2)
    spec.pred('dir3', [('a', Ref('Arbiter'))], DIR3)
    spec.pred('dir4', [('a', Ref('Arbiter'))], DIR4)
    spec.pred('dir_wf', [('a', Ref('Arbiter'))], DIR)
    spec.add(Contract(
        'circus.arbiter:Arbiter.add_watcher', params={'name': VAL, 'cmd': VAL, 'kw': Dict(STR, VAL)},
        ret=Ref('Watcher'),
        requires=['dir_wf(self)'],
        ensures=[
            'dir1(self)', 'dir2(self)', 'dir3(self)', 'dir4(self)',
            'is_str(name)',
            'lower(as_str(name)) in self._watchers_names',            # "ok only if the watcher now exists"
            'self._watchers_names[lower(as_str(name))] == result',
            'not (lower(as_str(name)) in old(self._watchers_names))',
            'fresh_obj(result)',
            'forall(STR, lambda k: implies(k != lower(as_str(name)), (k in self._watchers_names) == '
            '(k in old(self._watchers_names)) and self._watchers_names[k] == old(self._watchers_names)[k]))',
            'length(self.watchers) == length(old(self.watchers)) + 1',
        ],
        raises={
            'AlreadyExist': ['is_str(name)', 'lower(as_str(name)) in old(self._watchers_names)',
                             "same_field('Arbiter.watchers', 'Arbiter._watchers_names')"],
            '*': ['dir1(self)', 'dir2(self)', 'dir3(self)', 'dir4(self)'],
        },
        modifies=['self.watchers', 'self._watchers_names', 'evlog', 'clock', 'new:Watcher'],
    ))
    spec.add(Contract(
        'circus.arbiter:Arbiter.get_watcher', params={'name': VAL}, ret=Ref('Watcher'),
        requires=[],
        ensures=['is_str(name)', 'lower(as_str(name)) in self._watchers_names',
                 'result == self._watchers_names[lower(as_str(name))]'],
        raises={'KeyError': ['is_str(name)', 'not (lower(as_str(name)) in self._watchers_names)'],
                'AttributeError': ['not is_str(name)']},
        modifies=[]))
    spec.add(Contract('circus.arbiter:Arbiter.numwatchers', ret=INT,
                      ensures=['result == length(self.watchers)'], modifies=[], inline='length(self.watchers)'))
    spec.add(Contract(
        'circus.arbiter:Arbiter.statuses', ret=Dict(STR, STR), requires=['dir_wf(self)'],
        ensures=['forall(INT, lambda i: implies(0 <= i and i < length(self.watchers), '
                 'self.watchers[i].name in result and result[self.watchers[i].name] == self.watchers[i]._status))',
                 'forall(STR, lambda k: implies(k in result, exists(INT, lambda i: 0 <= i and i < '
                 'length(self.watchers) and self.watchers[i].name == k)))'],
        modifies=[]))
