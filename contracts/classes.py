"""Class table: declared sorts of the fields the contracts talk about (A-TYPES: every store to
these fields inside a function under contract is checked against the sort)."""
from pyvc.tys import *   # noqa
from pyvc.spec import *   # noqa


def declare(spec):
    spec.Class('Process', qual='circus.process:Process', fields={
        'pid': INT, 'wid': INT, 'started': REAL, 'stopping': BOOL, 'name': STR,
        # ghost fields (exist only in contracts; written by ghost_at statements)
        'klog': List(SIGEV),       # termination signals the supervisor issued for this worker
        'naps': REAL,              # total sleep requested by the kill_process instance owning it
        'alive_seen': REAL,        # value of naps when is_alive() last returned True
        'closed': BOOL,            # output pipes closed (Process.stop)
        # configuration the worker is started with (C13 / C07) and the psutil handle (C18)
        'working_dir': VAL, 'shell': VAL, 'env': VAL, 'use_fds': BOOL, 'executable': VAL,
        'pipe_stdout': BOOL, 'pipe_stderr': BOOL, '_sockets': VAL, 'cmd': STR, '_worker': Ref('PsProc'),
        'args': VAL, 'uid': VAL, 'gid': VAL, 'rlimits': VAL, 'watcher': Ref('Watcher'),
        'redirected': BOOL, 'stdout': VAL, 'stderr': VAL,
    })
    spec.Class('PsProc', fields={'pid': INT})
    spec.Class('Redirector', qual='circus.stream.redirector:Redirector', fields={})
    spec.ghost('K_alive', Set(INT))        # kernel: pids of live (not yet dead) children
    spec.ghost('siglog', List(SIGEV))      # every signal actually handed to the kernel
    spec.ghost('spawnlog', List(SIGEV))    # every process creation: (pid, wid, clock, watcher id)
    spec.ghost('spevlog', List(PUBEV))     # one entry per 'spawn' event handed to notify_event
    spec.ghost('reaplog', List(PUBEV))     # one entry per 'reap' event handed to notify_event
    spec.ghost('startlog', List(PUBEV))    # one entry per 'start' event handed to notify_event
    spec.ghost('K_child', Set(INT))
    spec.ghost('K_exit', Dict(INT, INT))
    spec.assumptions['A-PROCCLS'] = 'Watcher._process_class is circus.process.Process (circus.green subclasses out of scope)'
    spec.Class('Watcher', qual='circus.watcher:Watcher',
               const_attrs={'_process_class': ('class', 'circus.process:Process')}, fields={
        'name': STR, 'numprocesses': INT, 'processes': Dict(INT, Ref('Process')),
        '_status': STR, 'singleton': BOOL, 'respawn': BOOL, 'on_demand': BOOL,
        'max_age': INT, 'max_age_variance': INT, 'warmup_delay': REAL,
        'graceful_timeout': REAL, 'stop_signal': INT, 'stop_children': BOOL,
        'max_retry': INT, 'res_name': STR, 'evpub_socket': Ref('PubSocket'), 'sockets': VAL,
        'arbiter': Ref('Arbiter'), 'cmd': VAL, 'args': VAL, 'priority': INT, 'autostart': BOOL,
        'stream_redirector': Ref('Redirector'), 'hooks': Dict(STR, VAL), 'ignore_hook_failure': List(STR),
        'stdout_stream': VAL, 'stderr_stream': VAL, 'env': VAL, 'working_dir': VAL, 'shell': VAL,
        'uid': VAL, 'gid': VAL, 'rlimits': VAL, 'executable': VAL, 'use_sockets': BOOL,
        'close_child_stdin': VAL, 'close_child_stdout': VAL, 'close_child_stderr': VAL,
        '_found_wids': List(INT), 'send_hup': VAL, 'prereload_fn': VAL, 'optnames': List(STR),
    })
    spec.Class('PubSocket', fields={'closed': BOOL})
    spec.Class('Arbiter', qual='circus.arbiter:Arbiter', fields={
        'watchers': List(Ref('Watcher')), '_watchers_names': Dict(STR, Ref('Watcher')),
        'evpub_socket': Ref('PubSocket'), 'sockets': Ref('SockSet'), '_stopping': BOOL, '_restarting': BOOL,
        '_exclusive_running_command': VAL, 'warmup_delay': REAL, 'socket_event': BOOL,
        'ctrl': Ref('CtlHandle'), '_provided_loop': BOOL, 'loop': Ref('LoopHandle'), '_running': BOOL,
    })
    spec.Class('CtlHandle', fields={'stopped': BOOL})      # the Controller as seen from the arbiter (C08)
    spec.Class('LoopHandle', fields={})                     # tornado IOLoop
    spec.Class('SockSet', fields={'all_closed': BOOL, 'size': INT})   # CircusSockets: size and its closer
    spec.Class('Command', qual='circus.commands.base:Command', fields={'properties': List(STR)})
    spec.ghost('evlog', List(PUBEV))
    # ---- the exclusive slot (C10).  SyncHost = "whatever a synchronized method is bound to":
    # a Watcher (has .arbiter) or an Arbiter (has ._exclusive_running_command) or neither.
    spec.Class('SyncHost', fields={
        'arbiter': Ref('SyncHost'), '_restarting': BOOL, '_exclusive_running_command': VAL,
        'has_arbiter_attr': BOOL, 'has_slot_attr': BOOL,
    }, hasattr_fields={'arbiter': 'has_arbiter_attr', '_exclusive_running_command': 'has_slot_attr'})
    spec.Class('SyncBody', fields={})
    spec.ghost('release_on_done', Dict(INT, Ref('SyncHost')))
