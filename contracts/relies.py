"""Rely relations: what other coroutines and the kernel may do while a coroutine is suspended."""
from pyvc.rely import Rely


def h_tornado_sleep(eng, st, args, kw, node):
    """T-TORNADO gen.sleep(d): a future that completes after >= d seconds; awaiting it is a
    suspension point (nothing happens if it is never awaited)"""
    from pyvc.tys import mk_py
    d = args[0] if args else kw.get('duration')
    eng.used_contracts.add('circus.util:tornado_sleep')
    return eng.ok(st, mk_py(('pending', 'sleep', d)))


def h_gen_multi(eng, st, args, kw, node):
    from pyvc.tys import mk_py
    return eng.ok(st, mk_py(('pending', 'multi', args[0])))


def declare(spec):
    spec.handlers['circus.util:tornado_sleep'] = h_tornado_sleep
    spec.handlers['tornado.gen:multi'] = h_gen_multi
    spec.handlers['tornado.gen:sleep'] = h_tornado_sleep
    from pyvc.tys import BOOL
    spec.ghost('excl', BOOL)     # task-local: the running operation owns the exclusive slot (C10)
    FIELDS = ['Watcher.processes', 'Watcher._status', 'Watcher.numprocesses', 'Watcher.singleton',
              'Watcher.respawn', 'Watcher.max_age', 'Watcher.warmup_delay', 'Watcher.graceful_timeout',
              'Watcher.stop_signal', 'Watcher.stop_children', 'Watcher.hooks', 'Watcher.ignore_hook_failure',
              'Watcher.evpub_socket', 'Watcher.arbiter', 'Watcher.on_demand', 'Watcher.max_retry',
              'Watcher.name', 'Watcher.priority', 'Watcher.autostart', 'Watcher.stream_redirector',
              'Watcher.cmd', 'Watcher._found_wids', 'Watcher.max_age_variance', 'Arbiter.watchers',
              'Arbiter._watchers_names', 'Arbiter._stopping', 'Arbiter.warmup_delay', 'Arbiter.socket_event',
              'Arbiter.loop', 'Arbiter.ctrl', 'Arbiter._provided_loop', 'Arbiter.sockets', 'Arbiter.evpub_socket']
    GHOSTS = ['spawnlog', 'spevlog', 'reaplog', 'startlog']

    def prot(exc=(), child=True):
        """protected state unchanged, except the listed fields / ghosts"""
        fs = [f for f in FIELDS if f not in exc]
        parts = ["same_field(%s)" % ', '.join(repr(f) for f in fs)]
        parts += ['%s == old(%s)' % (g, g) for g in GHOSTS if g not in exc]
        if child and 'K_child' not in exc:
            parts.append('forall(INT, lambda p: implies(p in K_child, p in old(K_child)))')
        return ' and '.join(parts)
    spec.consts['$prot'] = prot
    PROT = prot()
    def keep(g):
        return ("(length(%s) >= length(old(%s)) and forall(INT, lambda i: implies(0 <= i and "
                "i < length(old(%s)), %s[i] == old(%s)[i])))" % (g, g, g, g, g))
    LOGS = ' and '.join(keep(g) for g in ('hooklog', 'evlog', 'siglog'))
    spec.consts['$LOGS'] = LOGS
    spec.consts['$PROT'] = PROT
    spec.relies['kill'] = Rely(
        'kill',
        stable=['process.stopping', 'process.klog', 'process.naps', 'process.alive_seen', 'Process.pid',
                'process.closed', 'excl', 'Process.wid', 'Process.started'],
        facts=['implies(not (process.pid in old(K_alive)), not (process.pid in K_alive))',
               'wf_procs_pid(self)', 'implies(excl, %s)' % PROT, LOGS,
               'implies(old(found_empty(self)), found_empty(self))'],
        note='suspension inside Watcher.kill_process(process): the instance that set process.stopping owns '
             'the per-process ghost fields until it clears the flag (every other kill_process(process) '
             'returns at the stopping test; frame-scan stopping-writers); a dead pid stays dead '
             '(A-PIDREUSE); protected fields are stable when the caller owns the slot (R-EXCL); '
             'everything else may change arbitrarily, subject to the global invariant')
    spec.relies['held'] = Rely(
        'held',
        stable=['excl', 'Process.pid', 'Process.wid', 'Process.started'],
        facts=['wf_procs_pid(self)', 'implies(excl, %s)' % PROT, LOGS,
               'implies(old(found_empty(self)), found_empty(self))'],
        note='suspension of an operation that may own the slot: protected fields stable under excl; kernel, '
             'logs, clocks and per-process termination state may change')
