"""Rely relations: what other coroutines and the kernel may do while a coroutine is suspended."""
from pyvc.rely import Rely


def h_tornado_sleep(eng, st, args, kw, node):
    """T-TORNADO gen.sleep(d): a future that completes after >= d seconds; awaiting it is a
    suspension point (nothing happens if it is never awaited)"""
    from pyvc.tys import mk_py
    d = args[0] if args else kw.get('duration')
    eng.used_contracts.add('circus.util:tornado_sleep')
    return eng.ok(st, mk_py(('pending', 'sleep', d)))


def h_gen_multi(eng, st, args, kw, node):
    from pyvc.tys import mk_py
    return eng.ok(st, mk_py(('pending', 'multi', args[0])))


def declare(spec):
    spec.handlers['circus.util:tornado_sleep'] = h_tornado_sleep
    spec.handlers['tornado.gen:multi'] = h_gen_multi
    spec.handlers['tornado.gen:sleep'] = h_tornado_sleep
    spec.relies['kill'] = Rely(
        'kill',
        stable=['process.stopping', 'process.klog', 'process.naps', 'process.alive_seen', 'Process.pid',
                'process.closed'],
        facts=['implies(not (process.pid in old(K_alive)), not (process.pid in K_alive))',
               'wf_procs_pid(self)'],
        note='suspension inside Watcher.kill_process(process): the instance that set process.stopping owns '
             'the per-process ghost fields until it clears the flag (every other kill_process(process) '
             'returns at the stopping test; frame-scan stopping-writers); a dead pid stays dead '
             '(A-PIDREUSE); everything else may change arbitrarily, subject to the global invariant')
