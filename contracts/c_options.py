"""C11: option validation and the set / add commands."""
from pyvc.tys import *   # noqa
from pyvc.spec import *   # noqa

VALID_KEYS = ('numprocesses', 'warmup_delay', 'working_dir', 'uid', 'gid', 'send_hup', 'stop_signal',
              'stop_children', 'shell', 'env', 'cmd', 'args', 'copy_env', 'retry_in', 'max_retry',
              'graceful_timeout', 'stdout_stream', 'stderr_stream', 'max_age', 'max_age_variance', 'respawn',
              'singleton', 'hooks', 'close_child_stdin', 'close_child_stdout', 'close_child_stderr')
PREFIXES = ('stdout_stream.', 'stderr_stream.', 'hooks.', 'rlimit_')


def declare(spec):
    _declare(spec)
    declare_set(spec)
    declare_add(spec)


def _declare(spec):
    spec.add(Contract('resource:__getattr__', params={'name': STR}, ret=VAL, trusted=True, modifies=[],
                      raises={'AttributeError': []},
                      note='T-STDLIB getattr(resource, name[, default])'))
    VALID = ('(' + ' or '.join("key == %r" % k for k in VALID_KEYS) + ' or ' +
             ' or '.join("prefix_of(%r, key)" % p for p in PREFIXES) + ')')
    INTKEYS = "(key == 'numprocesses' or key == 'max_retry' or key == 'max_age' or key == 'max_age_variance' or key == 'stop_signal')"
    TYPED = [
        'implies(%s, is_int(val) or is_bool(val))' % INTKEYS,
        "implies(key == 'warmup_delay' or key == 'retry_in' or key == 'graceful_timeout', is_int(val) or is_bool(val) or is_real(val))",
        "implies(key == 'uid' or key == 'gid', is_int(val) or is_bool(val) or is_str(val))",
        "implies(key == 'send_hup' or key == 'shell' or key == 'copy_env' or key == 'respawn' or "
        "key == 'stop_children' or key == 'close_child_stdin' or key == 'close_child_stdout' or "
        "key == 'close_child_stderr', is_bool(val))",
        "implies(key == 'env' or key == 'hooks' or key == 'stderr_stream' or key == 'stdout_stream', is_obj(val))",
    ]
    # validopt(key, val): what validate_option(key, val) establishes when it returns
    spec.pred('validopt', [('key', STR), ('val', VAL)], ' and '.join('(%s)' % t for t in [VALID] + TYPED))
    spec.add(Contract(
        'circus.commands.util:validate_option', params={'key': STR, 'val': VAL},
        requires=[],
        ensures=[
            # accepted => known key, and the value has the documented JSON type
            VALID] + TYPED + [('validopt', 'validopt(key, val)'),
            'same_heap()',
        ],
        # refused => MessageError, and in every case nothing is modified (C11)
        raises={'MessageError': ['same_heap()']},
        modifies=[],
        loops={1: Loop(invariant=["is_obj(val)", "key == 'env'"], fingerprint='for:val.items()', modifies=[]),
               2: Loop(invariant=["is_obj(val)"], fingerprint='for:val', modifies=[])},
    ))
    spec.add(Contract(
        'circus.commands.base:Command.validate', params={'props': VAL},
        ensures=['same_heap()',
                 # accepted => every required property is present
                 "implies(is_obj(props), forall(INT, lambda i: implies(0 <= i and i < length(self.properties), "
                 "obj_has(props, self.properties[i]))))"],
        raises={'MessageError': ['same_heap()'], 'TypeError': ['same_heap()']},
        modifies=[], requires=[],
        loops={0: Loop(invariant=["implies(is_obj(props), forall(INT, lambda i: implies(0 <= i and i < loop_i, "
                                  "obj_has(props, loop_seq[i]))))", "loop_seq == self.properties"],
                       fingerprint='for:self.properties', modifies=[])}))
    # ---- Set
    spec.add(Contract(
        'circus.commands.set:Set.validate', params={'props': VAL},
        ensures=['same_heap()', "is_obj(props)", "obj_has(props, 'name') and obj_has(props, 'options')",
                 "is_obj(obj_get(props, 'options'))",
                 # every option of a multi-option request is validated before any of them is applied
                 ('every-option-validated', "forall(STR, lambda k: implies(obj_has(obj_get(props, 'options'), k), "
                  "validopt(k, obj_get(obj_get(props, 'options'), k))))")],
        raises={'MessageError': ['same_heap()'], 'TypeError': ['same_heap()']},
        modifies=[], requires=["length(self.properties) == 2 and self.properties[0] == 'name' and self.properties[1] == 'options'"],
        loops={0: Loop(invariant=["is_obj(options)", "options == obj_get(props, 'options')",
                                  "forall(INT, lambda j: implies(0 <= j and j < loop_i, "
                                  "validopt(loop_keys[j], obj_get(options, loop_keys[j]))))"],
                       fingerprint='for:options.items()', modifies=[])}))
    spec.add(Contract(
        'circus.commands.addwatcher:AddWatcher.validate', params={'props': VAL},
        ensures=['same_heap()',
                 ('every-option-validated',
                  "implies(is_obj(props) and obj_has(props, 'options'), is_obj(obj_get(props, 'options')) and "
                  "forall(STR, lambda k: implies(obj_has(obj_get(props, 'options'), k), "
                  "validopt(k, obj_get(obj_get(props, 'options'), k)))))")],
        raises={'MessageError': ['same_heap()'], 'TypeError': ['same_heap()'], 'AttributeError': ['same_heap()']},
        modifies=[], requires=["length(self.properties) == 2 and self.properties[0] == 'name' and self.properties[1] == 'cmd'"],
        loops={0: Loop(invariant=["is_obj(props)", "is_obj(obj_get(props, 'options'))",
                                  "forall(INT, lambda j: implies(0 <= j and j < loop_i, "
                                  "validopt(loop_keys[j], obj_get(obj_get(props, 'options'), loop_keys[j]))))"],
                       fingerprint="for:props['options'].items()", modifies=[])}))


OPT_FIELDS = ['Watcher.numprocesses', 'Watcher.warmup_delay', 'Watcher.working_dir', 'Watcher.uid', 'Watcher.gid',
              'Watcher.send_hup', 'Watcher.stop_signal', 'Watcher.stop_children', 'Watcher.shell', 'Watcher.env',
              'Watcher.cmd', 'Watcher.args', 'Watcher.graceful_timeout', 'Watcher.max_age', 'Watcher.max_age_variance',
              'Watcher._options']
OPT_SAME = 'same_field(%s)' % ', '.join(repr(f) for f in OPT_FIELDS)


def declare_set(spec):
    """C11: Watcher.set_opt and Set.execute -- what a refused `set` leaves behind."""
    spec.classes['Watcher'].fields['_options'] = Dict(STR, VAL)
    for nm in ('to_uid', 'to_gid'):
        spec.add(Contract('circus.util:%s' % nm, params={'name': VAL}, ret=INT, trusted=True, modifies=[],
                          raises={'ValueError': [], 'TypeError': []},
                          note='T-STDLIB pwd/grp lookup: the id, or ValueError for an unknown user / group'))
    spec.add(Contract('circus.util:to_bool', params={'s': VAL}, ret=BOOL, trusted=True, modifies=[],
                      ensures=['implies(is_bool(s), result == as_bool(s))', 'implies(is_none(s), not result)'],
                      raises={'ValueError': ['is_str(s)'], 'AttributeError': ['not is_str(s) and not is_bool(s) and not is_none(s)']},
                      note='to_bool: bool as is, None -> False, yes/true/on/1 | no/false/off/0 (any case), else ValueError'))
    spec.add(Contract('circus.watcher:Watcher._reload_stream', params={'key': STR, 'val': VAL}, ret=INT, trusted=True,
                      modifies=['self.stdout_stream', 'self.stderr_stream', 'self.stream_redirector', '$val', 'new:Redirector'],
                      ensures=['result == 0 or result == 1'], raises={'*': []},
                      note='not under contract: rebuilds the stream object of one channel (may fail half-way)'))
    spec.add(Contract('circus.watcher:Watcher._reload_hook', params={'key': STR, 'hook': VAL, 'ignore_error': BOOL},
                      trusted=True, modifies=['self.hooks', 'self.ignore_hook_failure'], raises={'*': []},
                      note='not under contract: imports and registers the hook callable'))
    SIMPLE = ("(not prefix_of('stdout_stream', key) and not prefix_of('stderr_stream', key) and not prefix_of('hooks', key))")
    spec.add(Contract(
        'circus.watcher:Watcher.set_opt', params={'key': STR, 'val': VAL}, ret=INT,
        requires=['not isnull(self.arbiter)'],
        ensures=[
            '0 - 1 <= result and result <= 1',
            ('numprocesses-clamped', "implies(key == 'numprocesses' and not (key in old(self._options)), self.numprocesses >= 0)"),
            ('singleton-kept', "implies(key == 'numprocesses' and not (key in old(self._options)) and self.singleton, "
                               "self.numprocesses <= 1)"),
            # exactly the addressed option changes
            ('only-the-addressed-option',
             "implies(%s and not (key in old(self._options)), " % SIMPLE +
             ' and '.join("implies(key != %r, same_field('Watcher.%s'))" % (k, k) for k in
                          ('numprocesses', 'warmup_delay', 'working_dir', 'uid', 'gid', 'send_hup', 'stop_signal',
                           'stop_children', 'shell', 'env', 'cmd', 'args', 'graceful_timeout', 'max_age',
                           'max_age_variance')) + " and same_field('Watcher._options'))"),
        ],
        # a refused option (other than the stream / hook families, whose helpers are not under contract) changed nothing
        raises={'ValueError': ['implies(%s, %s)' % (SIMPLE, OPT_SAME), 'evlog == old(evlog)'],
                'TypeError': ['implies(%s, %s)' % (SIMPLE, OPT_SAME), 'evlog == old(evlog)'],
                'AttributeError': ['implies(%s, %s)' % (SIMPLE, OPT_SAME)],
                '*': ['not %s' % SIMPLE]},
        modifies=['self.numprocesses', 'self.warmup_delay', 'self.working_dir', 'self.uid', 'self.gid', 'self.send_hup',
                  'self.stop_signal', 'self.stop_children', 'self.shell', 'self.env', 'self.cmd', 'self.args',
                  'self.graceful_timeout', 'self.max_age', 'self.max_age_variance', 'self._options', 'self.hooks',
                  'self.ignore_hook_failure', 'self.stdout_stream', 'self.stderr_stream', 'self.stream_redirector',
                  'evlog', 'clock', '$val', 'new:Redirector']))

    # ---- Set.execute: options are applied one by one, in the order of the request object
    W = "arbiter._watchers_names[lower(as_str(old(obj_get(props, 'name'))))]"
    BUSY = "(arbiter._restarting or not is_none(arbiter._exclusive_running_command))"
    LOOPMODS = ['Watcher.' + f.split('.')[1] for f in OPT_FIELDS] + [
        'Watcher.hooks', 'Watcher.ignore_hook_failure', 'Watcher.stdout_stream', 'Watcher.stderr_stream',
        'Watcher.stream_redirector', 'evlog', 'clock', '$val', 'new:Redirector']
    KEEP = ["same_field('Arbiter._watchers_names', 'Arbiter._restarting', 'Arbiter._exclusive_running_command', "
            "'Watcher.arbiter', 'Watcher.singleton')",
            'not isnull(watcher)', 'watcher.arbiter == arbiter',
            # nothing is applied while the slot is busy: every set_opt would have been refused
            'implies(%s, %s)' % (BUSY, OPT_SAME)]
    spec.add(Contract('circus.watcher:Watcher.do_action', kind='coroutine', params={'num': INT}, trusted=True,
                      requires=[], modifies=['*'], raises={'*': []},
                      note='do_action: manage_processes or _reload, through @synchronized (verified under C01/C10)'))
    spec.add(Contract(
        'circus.commands.set:Set.execute', params={'arbiter': Ref('Arbiter'), 'props': VAL}, ret=VAL,
        requires=['not isnull(arbiter)', 'is_obj(props)', "obj_has(props, 'name')", "obj_has(props, 'options')",
                  "is_obj(obj_get(props, 'options'))",
                  "forall(STR, lambda n: implies(n in arbiter._watchers_names, not isnull(arbiter._watchers_names[n]) and "
                  "arbiter._watchers_names[n].arbiter == arbiter))",
                  "forall(STR, lambda k: implies(obj_has(obj_get(props, 'options'), k), "
                  "validopt(k, obj_get(obj_get(props, 'options'), k))))"],
        ensures=[],
        # C11: a set request that is refused must not have applied anything
        raises={'MessageError': [OPT_SAME], 'ConflictError': [OPT_SAME], '*': [OPT_SAME]},
        modifies=['*'],
        loops={0: Loop(invariant=["is_obj(props)"] + KEEP, fingerprint="for:props.get('options', {}).items()",
                       modifies=LOOPMODS),
               1: Loop(invariant=["is_obj(props)", "is_obj(val)"] + KEEP, fingerprint='for:val.items()', modifies=LOOPMODS)}))


def declare_add(spec):
    """C11: AddWatcher.execute -- the endpoint-owner check and the duplicate-name refusal come before any effect."""
    spec.classes['CtlHandle'].fields['endpoint_owner_mode'] = BOOL
    spec.classes['Arbiter'].fields['endpoint_owner'] = VAL
    spec.add(Contract('circus.arbiter:Arbiter.endpoint_owner_mode', kind='property', ret=BOOL,
                      requires=['not isnull(self.ctrl)'], ensures=['result == self.ctrl.endpoint_owner_mode'],
                      modifies=[], inline='self.ctrl.endpoint_owner_mode'))
    spec.add(Contract('circus.config:rlimit_value', params={'val': VAL}, ret=INT, trusted=True, modifies=[],
                      raises={'ValueError': [], 'TypeError': []}, note='rlimit_value: RLIM_INFINITY for None/empty, else int(val)'))
    st = Contract('circus.watcher:Watcher.start', kind='coroutine', trusted=True, modifies=['*'], raises={'*': []},
                  note='Watcher.start (synchronized coroutine): _start, verified under C14/C19')
    st.detached = Contract('circus.watcher:Watcher.start', requires=[], modifies=['*'],
                           ensures=["same_field('Arbiter.watchers', 'Arbiter._watchers_names')"])
    spec.add(st)
    SAMEDIR = "same_field('Arbiter.watchers', 'Arbiter._watchers_names')"
    NAME = "lower(as_str(old(obj_get(props, 'name'))))"
    spec.add(Contract(
        'circus.commands.addwatcher:AddWatcher.execute', params={'arbiter': Ref('Arbiter'), 'props': VAL}, ret=VAL,
        requires=['not isnull(arbiter)', 'not isnull(arbiter.ctrl)', 'is_obj(props)', "obj_has(props, 'name')",
                  "obj_has(props, 'cmd')", 'dir_wf(arbiter)',
                  "implies(obj_has(props, 'options'), is_obj(obj_get(props, 'options')) and "
                  "obj_get(props, 'options') != props)"],      # JSON documents are trees (A-JSONTREE)
        ensures=[('added', "is_str(old(obj_get(props, 'name'))) and (%s in arbiter._watchers_names)" % NAME),
                 ('was-new', "not (%s in old(arbiter._watchers_names))" % NAME),
                 ('owner-checked', "implies(old(arbiter.ctrl.endpoint_owner_mode), old(ite(obj_has(props, 'options') and "
                  "obj_has(obj_get(props, 'options'), 'uid'), obj_get(obj_get(props, 'options'), 'uid'), vnone())) == "
                  "old(arbiter.endpoint_owner))")],
        raises={'MessageError': [SAMEDIR, 'old(arbiter.ctrl.endpoint_owner_mode)'],
                'AlreadyExist': [SAMEDIR, "%s in old(arbiter._watchers_names)" % NAME],
                'ConflictError': [SAMEDIR],
                '*': ['dir1(arbiter)', 'dir2(arbiter)', 'dir3(arbiter)', 'dir4(arbiter)']},
        modifies=['*'], local_types={'rlimits': Dict(STR, INT)},
        loops={0: Loop(invariant=['is_obj(options)', SAMEDIR, "is_obj(props) and obj_has(props, 'name') and obj_has(props, 'cmd') and obj_get(props, 'name') == old(obj_get(props, 'name')) and "
                                  "obj_get(props, 'cmd') == old(obj_get(props, 'cmd')) and options != props and obj_has(props, 'args') == old(obj_has(props, 'args')) and "
                                  "obj_has(props, 'start') == old(obj_has(props, 'start'))",
                                  "same_field('Arbiter.ctrl', 'Arbiter.endpoint_owner', 'CtlHandle.endpoint_owner_mode', "
                                  "'Watcher.name')"],
                       fingerprint='for:options.items()', modifies=[]),
               1: Loop(invariant=['is_obj(options)', SAMEDIR, "is_obj(props) and obj_has(props, 'name') and obj_has(props, 'cmd') and obj_get(props, 'name') == old(obj_get(props, 'name')) and "
                                  "obj_get(props, 'cmd') == old(obj_get(props, 'cmd')) and options != props and obj_has(props, 'args') == old(obj_has(props, 'args')) and "
                                  "obj_has(props, 'start') == old(obj_has(props, 'start'))",
                                  "same_field('Arbiter.ctrl', 'Arbiter.endpoint_owner', 'CtlHandle.endpoint_owner_mode', "
                                  "'Watcher.name')"],
                       fingerprint='for:rlimits.keys()', modifies=['$val'])}))
