"""C11: option validation and the set / add commands."""
from pyvc.tys import *   # noqa
from pyvc.spec import *   # noqa

VALID_KEYS = ('numprocesses', 'warmup_delay', 'working_dir', 'uid', 'gid', 'send_hup', 'stop_signal',
              'stop_children', 'shell', 'env', 'cmd', 'args', 'copy_env', 'retry_in', 'max_retry',
              'graceful_timeout', 'stdout_stream', 'stderr_stream', 'max_age', 'max_age_variance', 'respawn',
              'singleton', 'hooks', 'close_child_stdin', 'close_child_stdout', 'close_child_stderr')
PREFIXES = ('stdout_stream.', 'stderr_stream.', 'hooks.', 'rlimit_')


def declare(spec):
    spec.add(Contract('resource:__getattr__', params={'name': STR}, ret=VAL, trusted=True, modifies=[],
                      raises={'AttributeError': []},
                      note='T-STDLIB getattr(resource, name[, default])'))
    VALID = ('(' + ' or '.join("key == %r" % k for k in VALID_KEYS) + ' or ' +
             ' or '.join("prefix_of(%r, key)" % p for p in PREFIXES) + ')')
    INTKEYS = "(key == 'numprocesses' or key == 'max_retry' or key == 'max_age' or key == 'max_age_variance' or key == 'stop_signal')"
    TYPED = [
        'implies(%s, is_int(val) or is_bool(val))' % INTKEYS,
        "implies(key == 'warmup_delay' or key == 'retry_in' or key == 'graceful_timeout', is_int(val) or is_bool(val) or is_real(val))",
        "implies(key == 'uid' or key == 'gid', is_int(val) or is_bool(val) or is_str(val))",
        "implies(key == 'send_hup' or key == 'shell' or key == 'copy_env' or key == 'respawn' or "
        "key == 'stop_children' or key == 'close_child_stdin' or key == 'close_child_stdout' or "
        "key == 'close_child_stderr', is_bool(val))",
        "implies(key == 'env' or key == 'hooks' or key == 'stderr_stream' or key == 'stdout_stream', is_obj(val))",
    ]
    # validopt(key, val): what validate_option(key, val) establishes when it returns
    spec.pred('validopt', [('key', STR), ('val', VAL)], ' and '.join('(%s)' % t for t in [VALID] + TYPED))
    spec.add(Contract(
        'circus.commands.util:validate_option', params={'key': STR, 'val': VAL},
        requires=[],
        ensures=[
            # accepted => known key, and the value has the documented JSON type
            VALID] + TYPED + [('validopt', 'validopt(key, val)'),
            'same_heap()',
        ],
        # refused => MessageError, and in every case nothing is modified (C11)
        raises={'MessageError': ['same_heap()']},
        modifies=[],
        loops={1: Loop(invariant=["is_obj(val)", "key == 'env'"], fingerprint='for:val.items()', modifies=[]),
               2: Loop(invariant=["is_obj(val)"], fingerprint='for:val', modifies=[])},
    ))
    spec.add(Contract(
        'circus.commands.base:Command.validate', params={'props': VAL},
        ensures=['same_heap()',
                 # accepted => every required property is present
                 "implies(is_obj(props), forall(INT, lambda i: implies(0 <= i and i < length(self.properties), "
                 "obj_has(props, self.properties[i]))))"],
        raises={'MessageError': ['same_heap()'], 'TypeError': ['same_heap()']},
        modifies=[], requires=[],
        loops={0: Loop(invariant=["implies(is_obj(props), forall(INT, lambda i: implies(0 <= i and i < loop_i, "
                                  "obj_has(props, loop_seq[i]))))", "loop_seq == self.properties"],
                       fingerprint='for:self.properties', modifies=[])}))
    # ---- Set
    spec.add(Contract(
        'circus.commands.set:Set.validate', params={'props': VAL},
        ensures=['same_heap()', "is_obj(props)", "obj_has(props, 'name') and obj_has(props, 'options')",
                 "is_obj(obj_get(props, 'options'))",
                 # every option of a multi-option request is validated before any of them is applied
                 ('every-option-validated', "forall(STR, lambda k: implies(obj_has(obj_get(props, 'options'), k), "
                  "validopt(k, obj_get(obj_get(props, 'options'), k))))")],
        raises={'MessageError': ['same_heap()'], 'TypeError': ['same_heap()']},
        modifies=[], requires=["length(self.properties) == 2 and self.properties[0] == 'name' and self.properties[1] == 'options'"],
        loops={0: Loop(invariant=["is_obj(options)", "options == obj_get(props, 'options')",
                                  "forall(INT, lambda j: implies(0 <= j and j < loop_i, "
                                  "validopt(loop_keys[j], obj_get(options, loop_keys[j]))))"],
                       fingerprint='for:options.items()', modifies=[])}))
    spec.add(Contract(
        'circus.commands.addwatcher:AddWatcher.validate', params={'props': VAL},
        ensures=['same_heap()',
                 ('every-option-validated',
                  "implies(is_obj(props) and obj_has(props, 'options'), is_obj(obj_get(props, 'options')) and "
                  "forall(STR, lambda k: implies(obj_has(obj_get(props, 'options'), k), "
                  "validopt(k, obj_get(obj_get(props, 'options'), k)))))")],
        raises={'MessageError': ['same_heap()'], 'TypeError': ['same_heap()'], 'AttributeError': ['same_heap()']},
        modifies=[], requires=["length(self.properties) == 2 and self.properties[0] == 'name' and self.properties[1] == 'cmd'"],
        loops={0: Loop(invariant=["is_obj(props)", "is_obj(obj_get(props, 'options'))",
                                  "forall(INT, lambda j: implies(0 <= j and j < loop_i, "
                                  "validopt(loop_keys[j], obj_get(obj_get(props, 'options'), loop_keys[j]))))"],
                       fingerprint="for:props['options'].items()", modifies=[])}))
