"""Trusted boundary: circus.process.Process methods that talk to psutil / the kernel (T-PSUTIL,
T-KERNEL).  Every such call first lets the kernel step (workers may die at any kernel-call
boundary): K_alive can only shrink here (spawn is the only thing that adds)."""
from pyvc.tys import *   # noqa
from pyvc.spec import *   # noqa

KSTEP = "forall(INT, lambda p: implies(p in K_alive, p in old(K_alive)))"
SIGKEEP = ("(length(siglog) >= length(old(siglog)) and forall(INT, lambda i: implies(0 <= i and "
           "i < length(old(siglog)), siglog[i] == old(siglog)[i])))")


def declare(spec):
    declare_main(spec)
    declare_kernel(spec)
    declare_spawn(spec)


def declare_main(spec):
    spec.pred('kstep', [], KSTEP)
    spec.assumptions['T-PSUTIL'] = 'contracts of Process.is_alive/send_signal/children/stop/status over the kernel ghost K_alive'
    spec.assumptions['A-PIDREUSE'] = 'a pid is not reused by the OS within the life of its Process object'
    spec.add(Contract('circus.process:Process.is_alive', ret=BOOL, trusted=True,
                      modifies=['K_alive'], ensures=['kstep()', 'result == (self.pid in K_alive)'],
                      note='T-PSUTIL poll(): non-blocking; True iff the child has not terminated'))
    spec.add(Contract('circus.process:Process.send_signal', params={'sig': INT}, trusted=True,
                      modifies=['K_alive', 'siglog'],
                      ensures=['kstep()', 'length(siglog) == length(old(siglog)) + 1',
                               'last(siglog) == sigev(self.pid, sig, clock, 0)', SIGKEEP],
                      raises={'NoSuchProcess': ['kstep()', 'siglog == old(siglog)', 'not (self.pid in K_alive)']},
                      exc_modifies=['K_alive'],
                      note='T-PSUTIL send_signal: delivers or raises NoSuchProcess'))
    spec.add(Contract('circus.process:Process.children', params={'recursive': BOOL}, ret=List(INT),
                      trusted=True, modifies=['K_alive'],
                      ensures=['kstep()', "forall(INT, lambda i: implies(0 <= i and i < length(result), "
                               "ufn('descendant', BOOL, self.pid, result[i])))"],
                      raises={'NoSuchProcess': ['kstep()', 'not (self.pid in K_alive)']},
                      note='T-PSUTIL children(recursive): pids of the current (recursive) children'))
    spec.add(Contract('circus.process:Process.stop', trusted=True,
                      modifies=['K_alive', 'siglog', 'self.closed'],
                      ensures=['kstep()', 'self.closed', SIGKEEP,
                               'forall(INT, lambda i: implies(length(old(siglog)) <= i and i < length(siglog), '
                               'sig_pid(siglog[i]) == self.pid and sig_num(siglog[i]) == 15))',
                               'length(siglog) <= length(old(siglog)) + 1'],
                      note='Process.stop: terminate() (SIGTERM) only if still alive, then closes both pipes; '
                           'swallows NoSuchProcess'))


def declare_kernel(spec):
    """T-KERNEL: waitpid / wait-status macros over the ghost child table.
    K_child = children not yet reaped (alive or zombie); K_alive subset of K_child;
    K_exit[pid] = how a terminated child ended: exit status 0..255, or -signal."""
    spec.ghost('K_child', Set(INT))
    spec.ghost('K_exit', Dict(INT, INT))
    spec.pred('wdecode', [('s', INT)], "ite(s % 128 == 0, (s // 256) % 256, 0 - (s % 128))", ret=INT)
    spec.pred('wstatus_ok', [('s', INT)], "0 <= s and s < 65536 and s % 128 != 127")
    CH_SAME = "forall(INT, lambda p: (p in K_child) == (p in old(K_child)))"
    CH_MINUS = "forall(INT, lambda p: (p in K_child) == ((p in old(K_child)) and p != %s))"
    spec.add(Contract(
        'os:waitpid', params={'pid': INT, 'options': INT}, ret=Tuple(INT, INT), trusted=True,
        requires=['options == 1', 'pid > 0 or pid == 0 - 1'],
        modifies=['K_alive', 'K_child'],
        ensures=[
            'kstep()',
            # a specific child
            "implies(pid > 0 and (pid in K_alive), result[0] == 0 and result[1] == 0 and %s)" % CH_SAME,
            "implies(pid > 0 and not (pid in K_alive), result[0] == pid and wstatus_ok(result[1]) and "
            "wdecode(result[1]) == K_exit[pid] and %s)" % (CH_MINUS % 'pid'),
            'implies(pid > 0, pid in old(K_child))',
            # any child (-1): 0 = no terminated child waiting; otherwise the pid that was reaped
            "implies(pid < 0 and result[0] == 0, %s and forall(INT, lambda p: implies(p in K_child, p in K_alive)))" % CH_SAME,
            "implies(pid < 0 and result[0] != 0, result[0] > 0 and (result[0] in old(K_child)) and "
            "not (result[0] in K_alive) and wstatus_ok(result[1]) and wdecode(result[1]) == K_exit[result[0]] and %s)"
            % (CH_MINUS % 'result[0]'),
            'implies(pid < 0, result[0] >= 0)',
        ],
        raises={'OSError': ['kstep()', CH_SAME, 'errno == 10',
                            'implies(pid > 0, not (pid in old(K_child)))',
                            'implies(pid < 0, forall(INT, lambda p: not (p in old(K_child))))']},
        exc_modifies=['K_alive', 'K_child'],
        note='T-KERNEL waitpid(pid, WNOHANG): never blocks; (0,0) while the child runs; reaps a terminated '
             'child exactly once; ECHILD when there is nothing to wait for'))
    spec.add(Contract('os:WIFSIGNALED', params={'s': INT}, ret=BOOL, trusted=True, modifies=[],
                      ensures=['result == (s % 128 != 0 and s % 128 != 127)'],
                      inline='s % 128 != 0 and s % 128 != 127', note='T-KERNEL Linux wait-status layout'))
    spec.add(Contract('os:WIFEXITED', params={'s': INT}, ret=BOOL, trusted=True, modifies=[],
                      ensures=['result == (s % 128 == 0)'], inline='s % 128 == 0'))
    spec.add(Contract('os:WTERMSIG', params={'s': INT}, ret=INT, trusted=True, modifies=[],
                      ensures=['result == s % 128'], inline='s % 128'))
    spec.add(Contract('os:WEXITSTATUS', params={'s': INT}, ret=INT, trusted=True, modifies=[],
                      ensures=['result == (s // 256) % 256'], inline='(s // 256) % 256'))
    spec.add(Contract('time:sleep', params={'d': REAL}, trusted=True, modifies=['clock', 'K_alive'],
                      ensures=['kstep()', 'clock >= old(clock) + d'],
                      note='T-KERNEL time.sleep: BLOCKS the event loop for d seconds (C05 frame-scan)'))
    spec.add(Contract('circus.process:Process.returncode', ret=VAL, trusted=True, modifies=[],
                      ensures=['is_none(result) or is_int(result)'],
                      note='T-PSUTIL Popen.returncode: None or the recorded return code'))
    spec.add(Contract('circus.process:Process.status', kind='property', ret=INT, trusted=True,
                      modifies=['K_alive'],
                      ensures=['kstep()', '0 <= result and result <= 3',
                               'implies(result == 1 or result == 2, not (self.pid in K_alive))',
                               # RUNNING only says the worker had not terminated when the call began: psutil's
                               # is_running() is True for a zombie, so a worker that dies between get_status() and
                               # is_running() is still reported RUNNING
                               'implies(result == 0, self.pid in old(K_alive))'],
                      note='T-PSUTIL Process.status: RUNNING(0) / DEAD_OR_ZOMBIE(1) / UNEXISTING(2) / OTHER(3); DEAD/UNEXISTING '
                           'imply terminated; RUNNING implies alive when the call began (is_running() is True for zombies)'))


def declare_spawn(spec):
    SPKEEP = ("(length(spawnlog) >= length(old(spawnlog)) and forall(INT, lambda i: implies(0 <= i and "
              "i < length(old(spawnlog)), spawnlog[i] == old(spawnlog)[i])))")
    spec.consts['$SPKEEP'] = SPKEEP
    spec.add(Contract(
        'circus.process:Process.__init__',
        params={'name': VAL, 'wid': INT, 'cmd': VAL, 'args': VAL, 'working_dir': VAL, 'shell': VAL, 'uid': VAL,
                'gid': VAL, 'env': VAL, 'rlimits': VAL, 'executable': VAL, 'use_fds': VAL,
                'watcher': Ref('Watcher'), 'spawn': VAL, 'pipe_stdout': VAL, 'pipe_stderr': VAL,
                'close_child_stdin': VAL, 'close_child_stdout': VAL, 'close_child_stderr': VAL},
        trusted=True,
        modifies=['self.*', 'spawnlog', 'K_alive', 'K_child', 'clock'],
        ensures=[
            'self.pid > 0', 'not (self.pid in old(K_child))', 'self.pid in K_child', 'self.wid == wid',
            'not self.stopping', 'self.started == clock', 'clock >= old(clock)', 'not self.closed',
            'length(spawnlog) == length(old(spawnlog)) + 1',
            'last(spawnlog) == sigev(self.pid, wid, clock, ref_id(watcher))', SPKEEP,
            # the new child is the only addition to the child table; others may die meanwhile
            'forall(INT, lambda p: implies(p != self.pid, (p in K_child) == (p in old(K_child))))',
            'forall(INT, lambda p: implies(p != self.pid and (p in K_alive), p in old(K_alive)))',
            'length(self.klog) == 0', 'self.naps == 0',
            # A-PIDREUSE: the kernel does not hand out a pid that some watcher still lists
            "forall(Ref('Watcher'), lambda w: not (self.pid in w.processes))",
        ],
        raises={'OSError': ['spawnlog == old(spawnlog)', 'K_child == old(K_child)', 'kstep()', 'clock >= old(clock)'],
                'ValueError': ['spawnlog == old(spawnlog)', 'K_child == old(K_child)', 'kstep()', 'clock >= old(clock)']},
        exc_modifies=['self.*', 'K_alive', 'clock'],
        note='T-PSUTIL Process(...) with spawn=True: format_args + Popen: creates exactly one child (logged in '
             'spawnlog) or raises OSError/ValueError (exec failure, bad rlimit) creating none'))
