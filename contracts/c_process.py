"""Trusted boundary: circus.process.Process methods that talk to psutil / the kernel (T-PSUTIL,
T-KERNEL).  Every such call first lets the kernel step (workers may die at any kernel-call
boundary): K_alive can only shrink here (spawn is the only thing that adds)."""
from pyvc.tys import *   # noqa
from pyvc.spec import *   # noqa

KSTEP = "forall(INT, lambda p: implies(p in K_alive, p in old(K_alive)))"
SIGKEEP = ("(length(siglog) >= length(old(siglog)) and forall(INT, lambda i: implies(0 <= i and "
           "i < length(old(siglog)), siglog[i] == old(siglog)[i])))")


def declare(spec):
    spec.pred('kstep', [], KSTEP)
    spec.assumptions['T-PSUTIL'] = 'contracts of Process.is_alive/send_signal/children/stop/status over the kernel ghost K_alive'
    spec.assumptions['A-PIDREUSE'] = 'a pid is not reused by the OS within the life of its Process object'
    spec.add(Contract('circus.process:Process.is_alive', ret=BOOL, trusted=True,
                      modifies=['K_alive'], ensures=['kstep()', 'result == (self.pid in K_alive)'],
                      note='T-PSUTIL poll(): non-blocking; True iff the child has not terminated'))
    spec.add(Contract('circus.process:Process.send_signal', params={'sig': INT}, trusted=True,
                      modifies=['K_alive', 'siglog'],
                      ensures=['kstep()', 'length(siglog) == length(old(siglog)) + 1',
                               'last(siglog) == sigev(self.pid, sig, clock, 0)', SIGKEEP],
                      raises={'NoSuchProcess': ['kstep()', 'siglog == old(siglog)', 'not (self.pid in K_alive)']},
                      exc_modifies=['K_alive'],
                      note='T-PSUTIL send_signal: delivers or raises NoSuchProcess'))
    spec.add(Contract('circus.process:Process.children', params={'recursive': BOOL}, ret=List(INT),
                      trusted=True, modifies=['K_alive'],
                      ensures=['kstep()', "forall(INT, lambda i: implies(0 <= i and i < length(result), "
                               "ufn('descendant', BOOL, self.pid, result[i])))"],
                      raises={'NoSuchProcess': ['kstep()', 'not (self.pid in K_alive)']},
                      note='T-PSUTIL children(recursive): pids of the current (recursive) children'))
    spec.add(Contract('circus.process:Process.send_signal_child', params={'pid': INT, 'signum': INT},
                      trusted=True, modifies=['K_alive', 'siglog'],
                      ensures=['kstep()', 'length(siglog) == length(old(siglog)) + 1',
                               'last(siglog) == sigev(pid, signum, clock, 0)', SIGKEEP],
                      raises={'NoSuchProcess': ['kstep()', 'siglog == old(siglog)']},
                      exc_modifies=['K_alive'],
                      note='body verified separately (C18); signals only a current child'))
    spec.add(Contract('circus.process:Process.stop', trusted=True,
                      modifies=['K_alive', 'siglog', 'self.closed'],
                      ensures=['kstep()', 'self.closed', SIGKEEP,
                               'forall(INT, lambda i: implies(length(old(siglog)) <= i and i < length(siglog), '
                               'sig_pid(siglog[i]) == self.pid and sig_num(siglog[i]) == 15))',
                               'length(siglog) <= length(old(siglog)) + 1'],
                      note='Process.stop: terminate() (SIGTERM) only if still alive, then closes both pipes; '
                           'swallows NoSuchProcess'))
