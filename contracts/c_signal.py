"""C18 confinement: signal / kill requests reach only workers (or descendants of workers) of the named watcher.

The kernel signal log `siglog` is appended only by the trusted psutil contracts ($PsProc.send_signal,
Process.send_signal); every function between the request and those calls states which pids the new entries
may carry.  `descendant(a, b)` is the (uninterpreted) kernel relation "b is currently a descendant of a", introduced
only by psutil's children() (T-PSUTIL).
"""
from pyvc.tys import *   # noqa
from pyvc.spec import *   # noqa
from contracts.c_process import SIGKEEP

NEW = "length(old(siglog)) <= i and i < length(siglog)"


def conf_proc(p, sig):
    """every new signal carries `sig` and goes to a descendant of worker p"""
    return ("forall(INT, lambda i: implies(%s, sig_num(siglog[i]) == %s and "
            "ufn('descendant', BOOL, %s, sig_pid(siglog[i]))))" % (NEW, sig, p))


def conf_watcher(w, sig, new=NEW):
    """every new signal carries `sig` and goes to a worker of w or a descendant of one"""
    return ("forall(INT, lambda i: implies(%s, sig_num(siglog[i]) == %s and exists(INT, lambda k: "
            "(k in %s.processes) and (sig_pid(siglog[i]) == k or ufn('descendant', BOOL, k, sig_pid(siglog[i]))))))"
            % (new, sig, w))


def declare(spec):
    # class invariant: a Process object always has its psutil handle (created by Process.spawn, called from
    # __init__, the only writer: frame-scan worker-writers; Process.pid is the property `self._worker.pid`)
    spec.nonnull.add(('Process', '_worker'))
    spec.assumptions['A-WORKERPID'] = ('Process.pid is modelled as a field; in the code it is the property '
                                       '`return self._worker.pid` (process.py), hence _worker.pid == pid by definition')
    KIDS = dict(params={'self': Ref('PsProc'), 'recursive': BOOL}, ret=List(Ref('PsProc')), trusted=True,
                modifies=['K_alive'], defaults={'recursive': False},
                ensures=['kstep()', "forall(INT, lambda i: implies(0 <= i and i < length(result), "
                         "not isnull(result[i]) and allocated(result[i]) and "
                         "ufn('descendant', BOOL, self.pid, result[i].pid)))"],
                raises={'NoSuchProcess': ['kstep()']},
                note='T-PSUTIL psutil.Process.children(recursive): handles of the current (recursive) children')
    spec.add(Contract('$PsProc.children', **KIDS))
    spec.add(Contract('$PsProc.get_children', **KIDS))
    spec.add(Contract('$PsProc.send_signal', params={'self': Ref('PsProc'), 'sig': INT}, trusted=True,
                      modifies=['K_alive', 'siglog'],
                      ensures=['kstep()', 'length(siglog) == length(old(siglog)) + 1',
                               'last(siglog) == sigev(self.pid, sig, clock, 0)', SIGKEEP],
                      raises={'NoSuchProcess': ['kstep()', 'siglog == old(siglog)']},
                      exc_modifies=['K_alive'],
                      note='T-PSUTIL psutil.Process.send_signal: one kill(2) to that pid, or NoSuchProcess and no signal '
                           '(EINVAL for an invalid signal number / EPERM are not modelled: no signal is sent then either)'))
    spec.add(Contract(
        'circus.process:get_children', params={'proc': Ref('PsProc'), 'recursive': BOOL}, ret=List(Ref('PsProc')),
        requires=['not isnull(proc)'], defaults={'recursive': False},
        ensures=['kstep()', "forall(INT, lambda i: implies(0 <= i and i < length(result), "
                 "not isnull(result[i]) and allocated(result[i]) and ufn('descendant', BOOL, proc.pid, result[i].pid)))"],
        raises={'NoSuchProcess': ['kstep()']}, modifies=['K_alive']))
    # replaces the trusted placeholder of c_process: the body is now verified
    spec.add(Contract(
        'circus.process:Process.send_signal_child', params={'pid': INT, 'signum': INT},
        requires=[],
        ensures=['kstep()', 'length(siglog) == length(old(siglog)) + 1',
                 'last(siglog) == sigev(pid, signum, clock, 0)', SIGKEEP,
                 ('only-a-child', "ufn('descendant', BOOL, self._worker.pid, pid)")],
        raises={'NoSuchProcess': ['kstep()', 'siglog == old(siglog)']},
        modifies=['K_alive', 'siglog'], exc_modifies=['K_alive']))
    spec.add(Contract(
        'circus.process:Process.send_signal_children', params={'signum': INT, 'recursive': BOOL},
        requires=[], defaults={'recursive': False},
        ensures=['kstep()', SIGKEEP, ('only-children', conf_proc('self._worker.pid', 'signum'))],
        raises={'NoSuchProcess': ['kstep()', SIGKEEP, conf_proc('self._worker.pid', 'signum')],
                'OSError': ['kstep()', SIGKEEP, conf_proc('self._worker.pid', 'signum')]},
        modifies=['K_alive', 'siglog'],
        loops={0: Loop(invariant=[SIGKEEP,
                                  conf_proc('self._worker.pid', 'signum'),
                                  'kstep()',
                                  "forall(INT, lambda j: implies(0 <= j and j < length(loop_seq), not isnull(loop_seq[j]) and "
                                  "ufn('descendant', BOOL, self._worker.pid, loop_seq[j].pid)))",
                                  "same_field('Process._worker', 'PsProc.pid')"],
                       fingerprint='for:get_children(self._worker, recursive)', modifies=['K_alive', 'siglog'])}))

    # ---- watcher level
    WFW = 'wf_procs_pid(self)'
    WPALL = ("forall(INT, lambda k: implies(k in self.processes, not isnull(self.processes[k]._worker) and "
             "self.processes[k]._worker.pid == k))")
    spec.pred('workers_wf', [('w', Ref('Watcher'))],
              "wf_procs_pid(w) and forall(INT, lambda k: implies(k in w.processes, "
              "not isnull(w.processes[k]._worker) and w.processes[k]._worker.pid == k))")
    spec.add(Contract(
        'circus.watcher:Watcher.send_signal_child', params={'pid': INT, 'child_id': VAL, 'signum': INT},
        requires=['workers_wf(self)'],
        ensures=['kstep()', SIGKEEP, 'length(siglog) <= length(old(siglog)) + 1', 'pid in self.processes',
                 ('child-of-addressed-worker',
                  "implies(length(siglog) == length(old(siglog)) + 1, sig_num(last(siglog)) == signum and "
                  "ufn('descendant', BOOL, pid, sig_pid(last(siglog))))"),
                 "same_field('Watcher.processes')"],
        raises={'KeyError': ['siglog == old(siglog)', 'not (pid in self.processes)'],
                '*': ['siglog == old(siglog)']},
        modifies=['K_alive', 'siglog'], exc_modifies=['K_alive']))
    spec.add(Contract(
        'circus.watcher:Watcher.send_signal_children', params={'pid': VAL, 'signum': INT, 'recursive': BOOL},
        requires=['workers_wf(self)', 'is_int(pid)'], defaults={'recursive': False},
        ensures=['kstep()', SIGKEEP, 'as_int(pid) in self.processes',
                 ('children-of-addressed-worker', conf_proc('as_int(pid)', 'signum')),
                 "same_field('Watcher.processes')"],
        raises={'KeyError': ['siglog == old(siglog)', 'not (as_int(pid) in self.processes)'],
                '*': [SIGKEEP, conf_proc('as_int(pid)', 'signum'), 'as_int(pid) in self.processes']},
        modifies=['K_alive', 'siglog']))
    spec.add(Contract(
        'circus.watcher:Watcher.get_active_pids', ret=List(INT), trusted=True, modifies=['K_alive'],
        requires=['wf_procs_pid(self)'],
        ensures=['kstep()', "forall(INT, lambda i: implies(0 <= i and i < length(result), result[i] in self.processes))"],
        note='A-ATOMIC-COMP: [p.pid for p in processes.values() if p.status not in (DEAD_OR_ZOMBIE, UNEXISTING)]: '
             'pids of listed workers only'))

    # ---- the signal command
    W = "arbiter._watchers_names[lower(as_str(obj_get(props, 'name')))]"
    S = "as_int(obj_get(props, 'signum'))"
    ALLW = ("forall(STR, lambda n: implies(n in arbiter._watchers_names, not isnull(arbiter._watchers_names[n]) and "
            "workers_wf(arbiter._watchers_names[n])))")
    PIDGIVEN = "obj_has(props, 'pid')"
    CW = conf_watcher(W, S)
    ONLYPID = ("implies(%s, forall(INT, lambda i: implies(%s, sig_pid(siglog[i]) == as_int(obj_get(props, 'pid')) or "
               "ufn('descendant', BOOL, as_int(obj_get(props, 'pid')), sig_pid(siglog[i])))))" % (PIDGIVEN, NEW))
    SAMEP = "same_field('Watcher.processes', 'Arbiter._watchers_names', 'Arbiter.watchers')"
    inv = lambda s: s
    spec.add(Contract(
        'circus.commands.sendsignal:Signal.execute', params={'arbiter': Ref('Arbiter'), 'props': VAL}, ret=NONE,
        requires=['not isnull(arbiter)', 'is_obj(props)', "obj_has(props, 'signum') and is_int(obj_get(props, 'signum'))",
                  "implies(obj_has(props, 'pid'), is_int(obj_get(props, 'pid')))", ALLW],
        ensures=[SIGKEEP, ('confined', CW), ('only-the-given-pid', ONLYPID), SAMEP],
        raises={'MessageError': ['siglog == old(siglog)'],
                'AttributeError': [SIGKEEP, "implies(is_str(obj_get(props, 'name')), %s)" % CW],
                'KeyError': [SIGKEEP, CW, ONLYPID, 'implies(%s, siglog == old(siglog))' % PIDGIVEN],
                '*': [SIGKEEP, CW, ONLYPID]},
        modifies=['K_alive', 'siglog', 'evlog', 'hooklog', 'clock'],
        loops={0: Loop(invariant=[inv(SIGKEEP), inv(CW), inv(ONLYPID),
                                  "same_field('Watcher.processes', 'Arbiter._watchers_names', 'Arbiter.watchers', "
                                  "'Process.pid', 'Process._worker', 'PsProc.pid')",
                                  "implies(%s, length(loop_seq) == 1 and val(loop_seq[0]) == obj_get(props, 'pid'))" % PIDGIVEN,
                                  'implies(%s and loop_i == 0, siglog == old(siglog))' % PIDGIVEN,
                                  'implies(not %s, forall(INT, lambda j: implies(0 <= j and j < length(loop_seq), '
                                  'loop_seq[j] in %s.processes)))' % (PIDGIVEN, W)],
                       fingerprint='for:pids', modifies=['K_alive', 'siglog', 'evlog', 'hooklog', 'clock'])}))
    spec.add(Contract(
        'circus.commands.sendsignal:Signal.validate', params={'props': VAL},
        requires=["length(self.properties) == 2 and self.properties[0] == 'name' and self.properties[1] == 'signum'"],
        ensures=['is_obj(props)', "obj_has(props, 'name')", "obj_has(props, 'signum')",
                 ('signum-normalised', "is_int(obj_get(props, 'signum')) and implies(old(is_int(obj_get(props, 'signum'))), "
                  "obj_get(props, 'signum') == old(obj_get(props, 'signum')))"),
                 "implies(obj_has(props, 'childpid'), obj_has(props, 'pid'))",
                 'siglog == old(siglog)',
                 "same_field('Watcher.processes', 'Arbiter._watchers_names', 'Arbiter.watchers')"],
        raises={'MessageError': ['same_heap()'], 'ArgumentError': ['same_heap()'], 'TypeError': ['same_heap()']},
        modifies=['$val'], exc_modifies=[]))

    # ---- the kill command: kill_process is called exactly for listed workers of the named watcher
    ALLWG = ("forall(STR, lambda n: implies(n in arbiter._watchers_names, not isnull(arbiter._watchers_names[n]) and "
             "workers_wf(arbiter._watchers_names[n]) and arbiter._watchers_names[n].graceful_timeout >= 0))")
    spec.add(Contract(
        'circus.commands.kill:Kill.execute', kind='coroutine', params={'arbiter': Ref('Arbiter'), 'props': VAL},
        requires=['not isnull(arbiter)', ALLWG,
                  "implies(is_obj(props) and obj_has(props, 'signum'), is_int(obj_get(props, 'signum')))",
                  "implies(is_obj(props) and obj_has(props, 'pid'), is_int(obj_get(props, 'pid')))",
                  "implies(is_obj(props) and obj_has(props, 'graceful_timeout'), is_num(obj_get(props, 'graceful_timeout')) and "
                  "as_real(obj_get(props, 'graceful_timeout')) >= 0)"],
        call_requires={'kill_process': [
            ('confined', "arg_self == %s and (arg_process.pid in %s.processes) and "
                         "%s.processes[arg_process.pid] == arg_process" % (W, W, W)),
            ('only-the-given-pid', "implies(obj_has(props, 'pid') and as_int(obj_get(props, 'pid')) != 0, "
                                   "arg_process.pid == as_int(obj_get(props, 'pid')))"),
            ('named-signal', "arg_stop_signal == ite(obj_has(props, 'signum'), obj_get(props, 'signum'), vnone())"),
        ]},
        ensures=[],
        raises={'MessageError': ['same_heap()'], 'AttributeError': ['same_heap()']},
        modifies=['*']))
    spec.add(Contract(
        'circus.commands.kill:Kill.validate', params={'props': VAL},
        requires=["length(self.properties) == 1 and self.properties[0] == 'name'"],
        ensures=["implies(is_obj(props), obj_has(props, 'name'))",
                 "implies(is_obj(props) and obj_has(props, 'pid'), is_int(obj_get(props, 'pid')))",
                 "implies(is_obj(props) and obj_has(props, 'signum'), is_int(obj_get(props, 'signum')))",
                 "implies(is_obj(props) and old(obj_has(props, 'signum')) and old(is_int(obj_get(props, 'signum'))), "
                 "obj_get(props, 'signum') == old(obj_get(props, 'signum')))",
                 'siglog == old(siglog)',
                 "same_field('Watcher.processes', 'Arbiter._watchers_names', 'Arbiter.watchers')"],
        raises={'MessageError': ['siglog == old(siglog)'], 'TypeError': ['siglog == old(siglog)'],
                'ValueError': ['siglog == old(siglog)']},
        modifies=['$val']))
