"""circus.process.Process wrappers over the psutil handle, now under contract (they were the trusted boundary of the
lifecycle contracts): poll, is_alive, send_signal, stop, children.  The trusted boundary moves down to the psutil
calls themselves ($PsProc.poll / send_signal / terminate / children) and Process.close_output_channels.

Each contract keeps the clauses the callers already rely on (so nothing changes at call sites); what is new is that the
body is verified against them.  `self.pid` is a model field of Process while the code has the property
`return self._worker.pid`: the bodies are verified under the entry assumption A-WORKERPID (_worker is set and its pid is
the model pid), which callers are not asked to prove -- it is the definition of the property (frame scan
pid-property-definition) together with the single writer of _worker (frame scan worker-writers).
"""
from pyvc.tys import *   # noqa
from pyvc.spec import *   # noqa
from contracts.c_process import SIGKEEP

WP = 'not isnull(self._worker) and allocated(self._worker) and self._worker.pid == self.pid'


def declare(spec):
    spec.assumptions['A-POLLREAP'] = (
        'Popen.poll() (behind Process.poll / is_alive / stop) also collects the zombie, i.e. the pid leaves the kernel child '
        'table; the model keeps it in K_child until a waitpid. Watcher.reap_process is verified for both answers of '
        'waitpid (a wait status, or ECHILD with the exit code taken from Popen.returncode), so every real behaviour is '
        'covered; clauses of the form "pid in K_child" after an is_alive() are statements about the model table')
    me = "ufn('descendant', BOOL, self.pid, result[i])"
    # ---- psutil handle (T-PSUTIL), over the kernel ghost K_alive
    spec.add(Contract('$PsProc.poll', params={'self': Ref('PsProc')}, ret=VAL, trusted=True, modifies=['K_alive'],
                      ensures=['kstep()', 'is_none(result) == (self.pid in K_alive)', 'is_none(result) or is_int(result)'],
                      note='T-PSUTIL Popen.poll(): non-blocking waitpid(WNOHANG) on the own child; None iff it has not terminated'))
    spec.add(Contract('$PsProc.terminate', params={'self': Ref('PsProc')}, trusted=True, modifies=['K_alive', 'siglog'],
                      ensures=['kstep()', 'length(siglog) == length(old(siglog)) + 1',
                               'last(siglog) == sigev(self.pid, 15, clock, 0)', SIGKEEP],
                      raises={'NoSuchProcess': ['kstep()', 'siglog == old(siglog)', 'not (self.pid in K_alive)'],
                              'AccessDenied': ['kstep()', 'siglog == old(siglog)']},
                      exc_modifies=['K_alive'],
                      note='T-PSUTIL psutil.Process.terminate(): one SIGTERM to that pid, or NoSuchProcess / AccessDenied and no signal'))
    spec.add(Contract('$PsProc.kill', params={'self': Ref('PsProc')}, trusted=True, modifies=['K_alive', 'siglog'],
                      ensures=['kstep()', 'length(siglog) == length(old(siglog)) + 1',
                               'last(siglog) == sigev(self.pid, 9, clock, 0)', SIGKEEP],
                      raises={'NoSuchProcess': ['kstep()', 'siglog == old(siglog)', 'not (self.pid in K_alive)'],
                              'AccessDenied': ['kstep()', 'siglog == old(siglog)']},
                      exc_modifies=['K_alive'], note='T-PSUTIL psutil.Process.kill(): one SIGKILL to that pid (not called by the unchanged code)'))
    ps = spec.contracts['$PsProc.send_signal']
    ps.raises = {'NoSuchProcess': ['kstep()', 'siglog == old(siglog)', 'not (self.pid in K_alive)']}
    for q in ('$PsProc.children', '$PsProc.get_children'):
        spec.contracts[q].raises = {'NoSuchProcess': ['kstep()', 'not (self.pid in K_alive)']}
    spec.contracts['circus.process:get_children'].raises = {'NoSuchProcess': ['kstep()', 'not (proc.pid in K_alive)']}
    spec.add(Contract('circus.process:Process.close_output_channels', trusted=True, modifies=['self.closed'],
                      ensures=['self.closed'],
                      note='T-PSUTIL closes the stdout / stderr pipe objects of the Popen handle when present'))

    # ---- the wrappers (verified)
    spec.add(Contract('circus.process:Process.poll', ret=VAL, entry_assumes=[WP], modifies=['K_alive'],
                      ensures=['kstep()', 'is_none(result) == (self.pid in K_alive)']))
    spec.add(Contract('circus.process:Process.is_alive', ret=BOOL, entry_assumes=[WP],
                      modifies=['K_alive'], ensures=['kstep()', ('alive-iff-not-terminated', 'result == (self.pid in K_alive)')]))
    spec.add(Contract('circus.process:Process.send_signal', params={'sig': INT}, entry_assumes=[WP],
                      modifies=['K_alive', 'siglog'],
                      ensures=['kstep()', 'length(siglog) == length(old(siglog)) + 1',
                               ('own-pid-named-signal', 'last(siglog) == sigev(self.pid, sig, clock, 0)'), SIGKEEP],
                      raises={'NoSuchProcess': ['kstep()', 'siglog == old(siglog)', 'not (self.pid in K_alive)']},
                      exc_modifies=['K_alive']))
    spec.add(Contract('circus.process:Process.stop', entry_assumes=[WP],
                      modifies=['K_alive', 'siglog', 'self.closed'],
                      ensures=['kstep()', ('pipes-closed', 'self.closed'), SIGKEEP,
                               ('only-sigterm-to-own-pid',
                                'forall(INT, lambda i: implies(length(old(siglog)) <= i and i < length(siglog), '
                                'sig_pid(siglog[i]) == self.pid and sig_num(siglog[i]) == 15))'),
                               ('at-most-one-signal', 'length(siglog) <= length(old(siglog)) + 1'),
                               ('no-signal-to-a-dead-worker',
                                'implies(length(siglog) > length(old(siglog)), self.pid in old(K_alive))')]))
    spec.add(Contract('circus.process:Process.children', params={'recursive': BOOL}, ret=List(INT), entry_assumes=[WP],
                      defaults={'recursive': False}, modifies=['K_alive'],
                      ensures=['kstep()', ('only-descendants', "forall(INT, lambda i: implies(0 <= i and i < length(result), %s))" % me)],
                      raises={'NoSuchProcess': ['kstep()', 'not (self.pid in K_alive)']}))
