"""C17: captured worker output is delivered complete, in order, once, correctly labelled (Redirector)."""
from pyvc.tys import *   # noqa
from pyvc.spec import *   # noqa

KEEPLOG = ("(length(%s) >= length(old(%s)) and forall(INT, lambda i: implies(0 <= i and i < length(old(%s)), "
           "%s[i] == old(%s)[i])))")


def declare(spec):
    _declare(spec)
    declare_pipes(spec)


def _maybe(spec, c):
    """contracts of methods the watcher lifecycle calls: only in the 'redirector' profile (see contracts/__init__)"""
    if getattr(spec, 'profile', None) == 'redirector':
        spec.add(c)


def _declare(spec):
    spec.classes['Redirector'].qual = 'circus.stream.redirector:Redirector'
    spec.classes['Redirector'].fields.update({
        'running': BOOL, 'pipes': Dict(INT, VAL), '_active': Dict(INT, Ref('Handler')),
        'redirect': Dict(STR, VAL), 'buffer': INT, 'loop': Ref('LoopHandle')})
    spec.classes['Redirector'].const_attrs['Handler'] = ('class', 'circus.stream.redirector:Redirector.Handler')
    spec.Class('Handler', qual='circus.stream.redirector:Redirector.Handler', fields={
        'redirector': Ref('Redirector'), 'name': STR, 'process': Ref('Process'), 'pipe': VAL})
    spec.consts['tornado:ioloop.IOLoop.READ'] = 1
    spec.consts['tornado:ioloop.IOLoop.WRITE'] = 4
    spec.consts['tornado:ioloop.IOLoop.ERROR'] = 24
    spec.ghost('L_handlers', Dict(INT, INT))     # fds registered with the IOLoop (value 1)
    spec.ghost('readlog', List(REPEV))           # (val(fd), None, data) per os.read
    spec.ghost('dtarget', List(VAL))             # the stream object each hand-over went to (parallel to dlog)
    spec.ghost('dlog', List(REPEV))              # (val(channel name), val(pid), data) per hand-over to a stream object
                                                 # (recorded even when the stream object raises)
    spec.assumptions['T-PIPE'] = ('os.read(fd, n) on a non-blocking pipe: the next chunk (possibly empty = EOF) or '
                                  'IOError(EAGAIN); order and completeness of what the kernel hands out is the kernel\'s')
    spec.add(Contract('os:read', params={'fd': INT, 'n': INT}, ret=BYTES, trusted=True, modifies=['readlog'],
                      ensures=['length(readlog) == length(old(readlog)) + 1',
                               'last(readlog) == repev(val(fd), vnone(), val(result))', KEEPLOG % (('readlog',) * 5)],
                      raises={'OSError': ['readlog == old(readlog)']}, note='T-PIPE'))
    spec.add(Contract('sys:exc_clear', trusted=True, modifies=[], raises={'AttributeError': []},
                      note='py2 leftover: AttributeError on py3, swallowed by the code'))
    spec.add(Contract('$LoopHandle.add_handler', params={'self': Ref('LoopHandle'), 'fd': INT, 'h': VAL, 'ev': INT},
                      trusted=True, modifies=['L_handlers'], ensures=['L_handlers == store(old(L_handlers), fd, 1)'],
                      note='T-TORNADO IOLoop.add_handler'))
    spec.add(Contract('$LoopHandle.remove_handler', params={'self': Ref('LoopHandle'), 'fd': INT},
                      trusted=True, modifies=['L_handlers'], ensures=['L_handlers == remove(old(L_handlers), fd)'],
                      note='T-TORNADO IOLoop.remove_handler'))
    # representation invariant: the loop watches exactly the active fds, each through a handler of this redirector
    spec.pred('rd_wf', [('r', Ref('Redirector'))],
              "not isnull(r.loop) and forall(INT, lambda hfd: ((hfd in r._active) == (hfd in L_handlers)) and "
              "implies(hfd in r._active, not isnull(r._active[hfd]) and r._active[hfd].redirector == r))")
    spec.add(Contract('circus.stream.redirector:Redirector.Handler.__init__',
                      params={'redirector': Ref('Redirector'), 'name': STR, 'process': Ref('Process'), 'pipe': VAL},
                      ensures=['self.redirector == redirector', 'self.name == name', 'self.process == process',
                               'self.pipe == pipe'],
                      modifies=['self.redirector', 'self.name', 'self.process', 'self.pipe']))
    spec.add(Contract(
        'circus.stream.redirector:Redirector._start_one',
        params={'fd': INT, 'stream_name': STR, 'process': Ref('Process'), 'pipe': VAL}, ret=INT,
        requires=['rd_wf(self)'],
        ensures=['rd_wf(self)', 'fd in self._active', 'result == ite(fd in old(self._active), 0, 1)',
                 "implies(fd in old(self._active), same_field('Redirector._active') and L_handlers == old(L_handlers))",
                 "implies(not (fd in old(self._active)), self._active[fd].name == stream_name and "
                 "self._active[fd].process == process)",
                 "forall(INT, lambda g: implies(g != fd, (g in self._active) == (g in old(self._active)) and "
                 "self._active[g] == old(self._active)[g]))"],
        modifies=['self._active', 'L_handlers', 'new:Handler']))
    spec.add(Contract(
        'circus.stream.redirector:Redirector._stop_one', params={'fd': INT}, ret=INT,
        requires=['rd_wf(self)'],
        ensures=['rd_wf(self)', 'not (fd in self._active)', 'not (fd in L_handlers)',
                 'result == ite(fd in old(self._active), 1, 0)',
                 'len(self._active) == len(old(self._active)) - ite(fd in old(self._active), 1, 0)',
                 "forall(INT, lambda g: implies(g != fd, (g in self._active) == (g in old(self._active)) and "
                 "self._active[g] == old(self._active)[g]))"],
        modifies=['self._active', 'L_handlers']))
    spec.add(Contract(
        'circus.stream.redirector:Redirector.remove_fd', params={'fd': INT},
        requires=['rd_wf(self)'],
        ensures=['rd_wf(self)', 'not (fd in self._active)', 'not (fd in L_handlers)', 'not (fd in self.pipes)',
                 "forall(INT, lambda g: implies(g != fd, (g in self._active) == (g in old(self._active)) and "
                 "self._active[g] == old(self._active)[g] and (g in self.pipes) == (g in old(self.pipes))))"],
        modifies=['self._active', 'self.pipes', 'L_handlers']))
    _maybe(spec, Contract(
        'circus.stream.redirector:Redirector.stop', ret=INT,
        requires=['rd_wf(self)'],
        ensures=['rd_wf(self)', 'not self.running', ('nothing-watched', 'len(self._active) == 0'),
                 'forall(INT, lambda g: not (g in self._active))', 'result == len(old(self._active))'],
        modifies=['self._active', 'self.running', 'L_handlers'],
        loops={0: Loop(invariant=[
            'rd_wf(self)', 'count == loop_i', 'len(self._active) == len(old(self._active)) - loop_i',
            'loop_n == len(old(self._active))',
            "forall(INT, lambda j: implies(loop_i <= j and j < loop_n, loop_seq[j] in self._active))",
            "forall(INT, lambda j: implies(0 <= j and j < loop_i, not (loop_seq[j] in self._active)))",
            "forall(INT, lambda g: implies(g in self._active, g in old(self._active)))",
        ], fingerprint='for:list(self._active.keys())', modifies=['self._active', 'L_handlers'])}))
    # ---- the data path
    READ = "(events % 2 == 1)"
    DATA = "rp_status(last(readlog))"
    spec.add(Contract(
        'circus.stream.redirector:Redirector.Handler.__call__', params={'fd': INT, 'events': INT},
        requires=['not isnull(self.redirector)', 'rd_wf(self.redirector)', 'events >= 0', 'not isnull(self.process)',
                  'self.name in self.redirector.redirect'],
        ensures=[
            # not readable: nothing is read or delivered; on a pure error event the fd is dropped
            "implies(not %s, readlog == old(readlog) and dlog == old(dlog))" % READ,
            "implies(not %s and events == 24, not (fd in self.redirector._active) and not (fd in L_handlers))" % READ,
            # readable: exactly one read of this fd
            "implies(%s, length(readlog) <= length(old(readlog)) + 1 and implies(length(readlog) == length(old(readlog)) + 1, "
            "rp_cid(last(readlog)) == val(fd)))" % READ,
            # nothing available right now (EAGAIN): nothing delivered, still watching
            ('eagain-is-harmless', "implies(%s and readlog == old(readlog), dlog == old(dlog) and "
             "same_field('Redirector._active', 'Redirector.pipes') and L_handlers == old(L_handlers))" % READ),
            # a non-empty chunk is handed, once, unchanged, to the stream of this channel, labelled with pid and name
            ('chunk-delivered-once-labelled',
             "implies(%s and length(readlog) == length(old(readlog)) + 1 and slen(as_bytes(%s)) > 0, length(dlog) == length(old(dlog)) + 1 and "
             "last(dlog) == repev(val(self.name), val(self.process.pid), %s) and "
             "length(dtarget) == length(old(dtarget)) + 1 and last(dtarget) == self.redirector.redirect[self.name])"
             % (READ, DATA, DATA)),
            # EOF: nothing delivered and the daemon stops watching the fd (no spinning on a closed pipe)
            ('eof-stops-watching',
             "implies(%s and length(readlog) == length(old(readlog)) + 1 and slen(as_bytes(%s)) == 0, dlog == old(dlog) and not (fd in self.redirector._active) and "
             "not (fd in L_handlers) and not (fd in self.redirector.pipes))" % (READ, DATA)),
            KEEPLOG % (('dlog',) * 5), KEEPLOG % (('readlog',) * 5), 'rd_wf(self.redirector)',
        ],
        # os.read failing with anything but EAGAIN propagates (nothing delivered); an exception of the stream object
        # itself propagates after the one delivery attempt
        raises={'OSError': ['length(dlog) <= length(old(dlog)) + 1'], '*': ['length(dlog) == length(old(dlog)) + 1']},
        modifies=['Redirector._active', 'Redirector.pipes', 'L_handlers', 'readlog', 'dlog', 'dtarget', 'clock', 'K_alive', '$val'],
        # the ghost entry is what was REALLY passed, and to which callable
        ghost_at={'$subscript_call!': ["dlog = dlog + [repev(args[0]['name'], args[0]['pid'], args[0]['data'])]",
                                       "dtarget = dtarget + [call_target]"]}))


def declare_pipes(spec):
    """the pipes table fd -> (channel name, process, pipe) and the functions that maintain it"""
    ENTRY = ("is_list(%s) and length(vlist_of(%s)) == 3 and is_str(vlist_of(%s)[0]) and is_ref(vlist_of(%s)[1]) and "
             "ref_id(vlist_of(%s)[1]) != 0")
    spec.pred('pipes_wf', [('r', Ref('Redirector'))],
              "forall(INT, lambda pfd: implies(pfd in r.pipes, %s))" % (ENTRY % (('r.pipes[pfd]',) * 5)))
    spec.add(Contract('circus.stream.redirector:Redirector.get_process_pipes', kind='generator',
                      params={'process': Ref('Process')},
                      note='plain generator: inlined at its call sites (real body executed, yielded pairs collected)'))
    spec.add(Contract('$method.fileno', params={'self': VAL}, ret=INT, trusted=True, modifies=[],
                      raises={'ValueError': []}, note='file.fileno(): the descriptor, or ValueError when already closed'))
    OTHERS_ACTIVE = ("forall(INT, lambda g: implies(g in old(self._active), g in self._active))")
    _maybe(spec, Contract(
        'circus.stream.redirector:Redirector.start', ret=INT,
        requires=['rd_wf(self)', 'pipes_wf(self)'],
        ensures=['rd_wf(self)', 'pipes_wf(self)', 'self.running',
                 ('every-pipe-watched', "forall(INT, lambda g: implies(g in self.pipes, g in self._active))"),
                 "same_field('Redirector.pipes')", OTHERS_ACTIVE],
        modifies=['self._active', 'self.running', 'L_handlers', 'new:Handler'],
        loops={0: Loop(invariant=[
            'rd_wf(self)', 'pipes_wf(self)', "same_field('Redirector.pipes')", OTHERS_ACTIVE,
            "forall(INT, lambda j: implies(0 <= j and j < loop_i, loop_keys[j] in self._active))",
            "forall(INT, lambda j: implies(0 <= j and j < loop_n, loop_keys[j] in self.pipes))",
        ], fingerprint='for:self.pipes.items()', modifies=['self._active', 'L_handlers', 'new:Handler'])}))

    # on spawn: the new worker's pipes are registered under their fd, replacing a stale handler for a reused number
    _maybe(spec, Contract(
        'circus.stream.redirector:Redirector.add_redirections', params={'process': Ref('Process')},
        # a piped channel of a started worker is a file object (Popen(stdout=PIPE) => worker.stdout is not None)
        requires=['rd_wf(self)', 'not isnull(process)', 'implies(process.pipe_stdout, is_ref(process.stdout)) and implies(process.pipe_stderr, is_ref(process.stderr))'],
        ensures=['rd_wf(self)', 'process.redirected',
                 ('new-generation-gets-its-own-handler',
                  "implies(self.running, forall(INT, lambda g: implies((g in self._active) and "
                  "(not (g in old(self._active)) or self._active[g] != old(self._active)[g]), "
                  "self._active[g].process == process)))"),
                 ('no-stale-handler-on-a-reused-fd',
                  "forall(INT, lambda g: implies((g in self.pipes) and (not (g in old(self.pipes)) or "
                  "not same(self.pipes[g], old(self.pipes)[g])), implies(g in self._active, self._active[g].process == process)))"),
                 ('watched-when-running',
                  "implies(self.running, forall(INT, lambda g: implies((g in self.pipes) and (not (g in old(self.pipes)) or "
                  "not same(self.pipes[g], old(self.pipes)[g])), g in self._active)))"),
                 "forall(INT, lambda g: implies(g in old(self.pipes), g in self.pipes))"],
        raises={'ValueError': ['rd_wf(self)']},
        modifies=['self._active', 'self.pipes', 'L_handlers', 'new:Handler', 'process.redirected', '$val']))
    _maybe(spec, Contract(
        'circus.stream.redirector:Redirector.remove_redirections', params={'process': Ref('Process')},
        requires=['rd_wf(self)', 'not isnull(process)', 'implies(process.pipe_stdout, is_ref(process.stdout)) and implies(process.pipe_stderr, is_ref(process.stderr))'],
        ensures=['rd_wf(self)', 'not process.redirected',
                 "forall(INT, lambda g: implies(g in self.pipes, g in old(self.pipes)))",
                 "forall(INT, lambda g: implies(g in self._active, (g in old(self._active)) and "
                 "self._active[g] == old(self._active)[g]))"],
        modifies=['self._active', 'self.pipes', 'L_handlers', 'process.redirected']))
