"""C08 (pid file half): Pidfile.validate / create / unlink over the ghost file system and the ghost process table.

FS       : path -> content (c_stream)          K_procs : set of pids of processes that exist on the machine
pidnum(s): what the daemon reads out of a pid file: 0 for an empty file, int(s) when s parses, else "garbled".
"""
from pyvc.tys import *   # noqa
from pyvc.spec import *   # noqa
from contracts.c_stream import FSKEEP

FSK = "forall(PATH, lambda fq: implies(fq != %s, fs_same(fq)))"


def declare(spec):
    spec.ghost('K_procs', Set(INT))
    spec.Class('Pidfile', qual='circus.pidfile:Pidfile', fields={'fname': PATH, 'pid': INT, 'perm_mode': INT})
    spec.assumptions['T-KERNEL-KILL0'] = ('os.kill(pid, 0) returns iff a process with that pid exists (ESRCH otherwise; '
                                          'EPERM for a foreign live process is raised as OSError and propagates)')
    # generalised open(): 'a+' (C20) or 'r'
    o = spec.contracts['builtins:open']
    o.requires = ["mode == 'a+' or mode == 'r'"]
    o.ensures = ['fresh_obj(result)', 'result.path == path', 'not result.closed', 'path in FS',
                 "implies(mode == 'a+', FS[path] == ite(path in old(FS), old(FS)[path], ''))",
                 "implies(mode == 'r', (path in old(FS)) and FS == old(FS))",
                 FSKEEP % 'path',
                 "forall(Ref('File'), lambda f: implies(f != result, f.path == old(f.path) and f.closed == old(f.closed)))"]
    o.raises = {'OSError': ["mode == 'r'", 'FS == old(FS)', 'errno == 2', 'not (path in FS)',
                            "forall(Ref('File'), lambda f: f.path == old(f.path) and f.closed == old(f.closed))"]}
    o.exc_modifies = []
    o.note = "open(path, 'a+'): creates when missing, never truncates; open(path, 'r'): ENOENT when missing, else a handle (permissions / disk errors out of scope, T-FS)"
    spec.add(Contract('$File.read', params={'self': Ref('File')}, ret=STR, trusted=True, modifies=[],
                      requires=['not self.closed', 'self.path in FS'], ensures=['result == FS[self.path]'],
                      note='read() of a freshly opened text file: the whole content'))
    spec.add(Contract('$File.__enter__', params={'self': Ref('File')}, ret=Ref('File'), trusted=True, modifies=[],
                      ensures=['result == self'], inline='self'))
    spec.add(Contract('$File.__exit__', params={'self': Ref('File')}, trusted=True, modifies=['self.closed'],
                      ensures=['self.closed']))
    spec.add(Contract('os:kill', params={'pid': INT, 'sig': INT}, trusted=True, modifies=[],
                      requires=['sig == 0'], ensures=['pid in K_procs'],
                      raises={'OSError': ['errno == 3 or errno == 1', 'iff(errno == 3, not (pid in K_procs))']},
                      note='T-KERNEL-KILL0 (signal 0 only: existence probe, nothing is delivered)'))
    spec.add(Contract('os:getpid', ret=INT, trusted=True, modifies=[], ensures=['result > 0']))
    spec.add(Contract('os.path:dirname', params={'p': PATH}, ret=PATH, trusted=True, modifies=[],
                      ensures=["result == ufn('dirname', PATH, p)"]))
    spec.add(Contract('os.path:isdir', params={'p': PATH}, ret=BOOL, trusted=True, modifies=[],
                      ensures=["result == ufn('isdir', BOOL, p)"]))
    spec.add(Contract('os:open', params={'p': PATH, 'flags': INT, 'mode': INT}, ret=INT, trusted=True,
                      modifies=['FS', 'fd_path'],
                      ensures=['p in FS', "FS[p] == ''", FSKEEP % 'p', 'result >= 0', 'not (result in old(fd_path))',
                               'fd_path == store(old(fd_path), result, p)'],
                      raises={'OSError': ['FS == old(FS)', 'fd_path == old(fd_path)']},
                      note='os.open(p, O_CREAT|O_WRONLY|O_TRUNC): creates or truncates, returns a fresh descriptor'))
    spec.ghost('fd_path', Dict(INT, PATH))      # open raw descriptors -> path
    spec.add(Contract('os:write', params={'fd': INT, 'data': BYTES}, ret=INT, trusted=True, modifies=['FS'],
                      requires=['fd in fd_path', 'fd_path[fd] in FS'],
                      ensures=["FS[fd_path[fd]] == old(FS)[fd_path[fd]] + ufn('bytes_decode', STR, data)",
                               'fd_path[fd] in FS', FSKEEP % 'fd_path[fd]'],
                      note='os.write of the whole buffer (short writes out of scope, T-FS)'))
    spec.add(Contract('os:fsync', params={'fd': INT}, trusted=True, modifies=[]))
    spec.add(Contract('os:chmod', params={'p': PATH, 'mode': INT}, trusted=True, modifies=[],
                      raises={'OSError': []}))
    spec.add(Contract('os:close', params={'fd': INT}, trusted=True, modifies=['fd_path'],
                      ensures=['fd_path == remove(old(fd_path), fd)']))
    spec.add(Contract('os:unlink', params={'p': PATH}, trusted=True, modifies=['FS'],
                      ensures=['p in old(FS)', 'not (p in FS)', FSKEEP % 'p'],
                      raises={'OSError': ['not (p in old(FS))', 'FS == old(FS)']}))
    spec.add(Contract('tempfile:mkstemp', ret=Tuple(INT, PATH), trusted=True, modifies=['FS', 'fd_path'],
                      ensures=['not (result[1] in old(FS))', 'result[1] in FS', "FS[result[1]] == ''", FSKEEP % 'result[1]',
                               'not (result[0] in old(fd_path))', 'fd_path == store(old(fd_path), result[0], result[1])']))
    # ---- what a pid file says
    spec.pred('pidfile_says', [('s', STR)], "ite(s == '' or not int_ok(s), 0, int_of(s))", ret=INT)
    spec.pred('pid_garbled', [('s', STR)], "s != '' and not int_ok(s)")
    FN = 'self.fname'
    LIVE = ("(truthy(self.fname) and (%s in FS) and pidfile_says(FS[%s]) > 0 and (pidfile_says(FS[%s]) in K_procs))"
            % (FN, FN, FN))
    spec.add(Contract(
        'circus.pidfile:Pidfile.validate', ret=VAL,
        requires=[],
        ensures=[
            # a pid is returned exactly when the file names a process that exists; stale, empty, garbled or missing
            # files give None
            ('live-pid-reported', 'implies(%s, result == val(pidfile_says(FS[%s])))' % (LIVE, FN)),
            ('stale-is-none', 'implies(not %s, is_none(result))' % LIVE),
            'FS == old(FS)', 'self.fname == old(self.fname) and self.pid == old(self.pid)'],
        raises={'OSError': ['FS == old(FS)',
                            # EPERM from the probe (the file names a live process of another user) or EACCES on the file
                            '%s or (truthy(self.fname) and (self.fname in FS))' % LIVE]},
        modifies=['new:File', 'File.closed', 'File.path']))

    # ---- create: refuse when the file names ANOTHER live process, otherwise (stale / empty / garbled / missing)
    # take the file over and write "<pid>\n"
    OTHER_LIVE = "(%s and pidfile_says(FS[%s]) != int_of_val(pid))" % (LIVE, FN)
    spec.pred('int_of_val', [('v', VAL)], "ite(is_int(v), as_int(v), ite(is_bool(v), ite(as_bool(v), 1, 0), int_of(as_str(v))))", ret=INT)
    spec.add(Contract(
        'circus.pidfile:Pidfile.create', params={'pid': VAL},
        requires=['truthy(self.fname)', 'is_int(pid)', 'as_int(pid) > 0'],
        ensures=[
            ('not-another-live-daemon', 'not old(%s)' % OTHER_LIVE),
            ('own-pid-kept', 'implies(old(%s), FS == old(FS))' % LIVE),
            ('written', "implies(not old(%s), (self.fname in FS) and FS[self.fname] == str_of_int(as_int(pid)) + '\\n' "
                        "and self.pid == as_int(pid))" % LIVE),
            FSK % 'self.fname', 'self.fname == old(self.fname)',
        ],
        raises={'RuntimeError': ['FS == old(FS)',
                                 "old(%s) or not ufn('isdir', BOOL, ufn('dirname', PATH, self.fname))" % OTHER_LIVE],
                'OSError': [FSK % 'self.fname']},
        modifies=['FS', 'fd_path', 'self.pid', 'new:File', 'File.closed', 'File.path']))
    spec.add(Contract(
        'circus.pidfile:Pidfile.unlink',
        requires=[],
        ensures=[
            # removed exactly when the file is ours (our pid, or unreadable as a number); never raises
            ('removed-iff-ours',
             "implies((self.fname in old(FS)) and (pid_garbled(old(FS)[self.fname]) or "
             "pidfile_says(old(FS)[self.fname]) == self.pid), not (self.fname in FS))"),
            ('foreign-kept',
             "implies((self.fname in old(FS)) and pidfile_says(old(FS)[self.fname]) != self.pid and "
             "not pid_garbled(old(FS)[self.fname]), FS == old(FS))"),
            FSK % 'self.fname'],
        modifies=['FS', 'new:File', 'File.closed', 'File.path']))
