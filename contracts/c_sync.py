"""C10: util.synchronized — the exclusive slot."""
from pyvc.tys import *   # noqa
from pyvc.spec import *   # noqa
import z3


def h_future_add_done_callback(eng, st, args, kw, node):
    """T-TORNADO: concurrent.future_add_done_callback(fut, cb) calls cb(fut) exactly once when
    fut is done (immediately if it already is).  Ghost: release_on_done[fut] := bound arbiter,
    accepted only for cb = functools.partial(_synchronized_cb, arbiter)."""
    fut, cb = args
    if not (cb.ty == PY and cb.py[0] == 'partial' and cb.py[1].ty == PY and
            cb.py[1].py == ('func', 'circus.util:_synchronized_cb') and len(cb.py[2]) == 1):
        eng.oos('future_add_done_callback with a callback other than partial(_synchronized_cb, arbiter)', node)
    arb = eng.coerce(cb.py[2][0], TRef('SyncHost'))
    g = eng.ghost_get(st, 'release_on_done')
    st2 = eng.ghost_set(st, 'release_on_done', eng.dict_set(g, Val.vx(fut.z), arb))
    eng.used_contracts.add('tornado.concurrent:future_add_done_callback')
    return eng.ok(st2, mk_none())


A = "old(ite(self.has_arbiter_attr, self.arbiter, ite(self.has_slot_attr, self, null('SyncHost'))))"
REFUSED = ("(%s != null('SyncHost')) and (old(%s._restarting) or not is_none(old(%s._exclusive_running_command)))"
           % (A, A, A))
IS_FUT = "(is_ref(result) and ufn('inst_Future', BOOL, ref_id(result)))"


AH = "ite(host.has_arbiter_attr, host.arbiter, ite(host.has_slot_attr, host, null('SyncHost')))"


def declare(spec):
    spec.handlers['tornado.concurrent:future_add_done_callback'] = h_future_add_done_callback
    spec.assumptions['T-TORNADO-CB'] = ('future_add_done_callback(fut, cb) runs cb exactly once when fut '
                                        'completes with a result or an exception')
    spec.add(Contract(
        '$SyncBody.__call__', params={'self': Ref('SyncBody'), 'host': Ref('SyncHost')},
        ret=VAL, trusted=True, modifies=['*'],
        requires=["implies(%s != null('SyncHost'), not is_none(%s._exclusive_running_command))"
                  % (AH, AH)],
        ensures=["same_field('SyncHost._exclusive_running_command')"],
        raises={'*': ["same_field('SyncHost._exclusive_running_command')"]},
        note='the decorated method body: arbitrary effect, arbitrary result or exception, but it '
             'does not write the slot (frame-scan slot-writers)'))
    spec.add(Contract(
        'circus.util:_synchronized_cb', params={'arbiter': Ref('SyncHost'), 'future': VAL},
        ensures=["implies(arbiter != null('SyncHost'), is_none(arbiter._exclusive_running_command))",
                 "implies(arbiter == null('SyncHost'), same_heap())"],
        modifies=['arbiter._exclusive_running_command'],
    ))
    spec.add(Contract(
        'circus.util:synchronized.real_decorator.wrapper',
        params={'self': Ref('SyncHost'), 'f': Ref('SyncBody'), 'name': STR}, ret=VAL,
        requires=["f != null('SyncBody')"],
        ensures=[
            'not (%s)' % REFUSED,
            "implies(not %s, implies(%s != null('SyncHost'), is_none(%s._exclusive_running_command)))"
            % (IS_FUT, A, A),
            "implies(%s and %s != null('SyncHost'), %s._exclusive_running_command == val(name))"
            % (IS_FUT, A, A),
            "implies(%s, (ref_id(result) in release_on_done) and release_on_done[ref_id(result)] == %s)"
            % (IS_FUT, A),
        ],
        raises={
            'ConflictError': [REFUSED, 'same_heap()'],
            '*': ['not (%s)' % REFUSED,
                  "implies(%s != null('SyncHost'), is_none(%s._exclusive_running_command))" % (A, A)],
        },
        modifies=['*'],
        must_fail=["implies(%s != null('SyncHost'), is_none(%s._exclusive_running_command))" % (A, A)],
    ))
