"""C13: Process.format_args -- the argument vector is built from cmd and args by substitute-then-split.

replace_gnu_args (regex substitution), shlex.split and shlex.quote are uninterpreted functions here: what is proved is
the STRUCTURE -- which of them is applied to what, in which order, with which variable table -- not what they compute."""
from pyvc.tys import *   # noqa
from pyvc.spec import *   # noqa


def declare(spec):
    spec.consts['circus.util:IS_WINDOWS'] = False
    spec.add(Contract('circus.util:ObjectDict', params={'d': VAL}, ret=VAL, trusted=True, modifies=['$val'],
                      ensures=['is_obj(result)'], note='dict subclass with attribute access'))
    # replaces the placeholder of c_watcher: the result is a function of the text (the variable table is pinned by the
    # call-site obligations of format_args)
    spec.add(Contract('circus.util:replace_gnu_args', params={'data': VAL, 'prefix': VAL, 'options': Dict(STR, VAL)},
                      ret=STR, trusted=True, modifies=[], requires=['is_str(data)'],
                      ensures=["result == ufn('rga', STR, as_str(data))"], inline="ufn('rga', STR, as_str(data))",
                      defaults={'prefix': 'circus'},
                      note='T-RGA: regex substitution of $(circus.X) / ((circus.X)): uninterpreted'))
    spec.add(Contract('shlex:split', params={'s': STR, 'posix': BOOL}, defaults={'posix': True}, ret=List(STR), trusted=True,
                      modifies=[],
                      ensures=["length(result) == ufn('shlex_n', INT, s)", "length(result) >= 0",
                               "forall(INT, lambda i: implies(0 <= i and i < length(result), "
                               "result[i] == ufn('shlex_at', STR, s, i)))"],
                      raises={'ValueError': []}, note='T-SHLEX shell-style splitting: uninterpreted'))
    spec.add(Contract('shlex:quote', params={'s': STR}, ret=STR, trusted=True, modifies=[],
                      ensures=["result == ufn('shquote', STR, s)"], inline="ufn('shquote', STR, s)"))
    FMT_REQ = ['is_obj(self.env)', 'is_none(self.args) or is_str(self.args) or is_list(self.args)',
               # the shell=True branch (quote / join / shell_args) is outside the proved domain
               'is_bool(self.shell) and not as_bool(self.shell)',
               "implies(is_list(self.args), forall(INT, lambda i: implies(0 <= i and i < length(vlist_of(self.args)), "
               "is_str(vlist_of(self.args)[i]))))"]
    spec.consts['$FMT_REQ'] = FMT_REQ
    SAMEK = "arg_options == format_kwargs"
    CMDV = "shlex_n"
    spec.add(Contract(
        'circus.process:Process.format_args', params={'sockets_fds': VAL}, defaults={'sockets_fds': None},
        ret=List(STR),
        requires=FMT_REQ,
        call_requires={'replace_gnu_args': [
            ('one-variable-table', SAMEK),
            ('wid-of-this-worker', "('wid' in arg_options) and arg_options['wid'] == val(self.wid)"),
            ('env-of-this-worker', "'env' in arg_options")]},
        ensures=[
            # the command is substituted FIRST and split AFTERWARDS ...
            ('cmd-substituted-then-split',
             "length(result) >= ufn('shlex_n', INT, ufn('rga', STR, old(self.cmd))) and "
             "forall(INT, lambda i: implies(0 <= i and i < ufn('shlex_n', INT, ufn('rga', STR, old(self.cmd))), "
             "result[i] == ufn('shlex_at', STR, ufn('rga', STR, old(self.cmd)), i)))"),
            # ... a string `args` likewise, appended after the command words ...
            ('string-args-substituted-then-split',
             "implies(is_str(self.args), length(result) == ufn('shlex_n', INT, ufn('rga', STR, old(self.cmd))) + "
             "ufn('shlex_n', INT, ufn('rga', STR, as_str(self.args))) and "
             "forall(INT, lambda i: implies(0 <= i and i < ufn('shlex_n', INT, ufn('rga', STR, as_str(self.args))), "
             "result[ufn('shlex_n', INT, ufn('rga', STR, old(self.cmd))) + i] == "
             "ufn('shlex_at', STR, ufn('rga', STR, as_str(self.args)), i))))"),
            # ... and list arguments are kept as given: one word each, substituted, never split
            ('list-args-kept-as-given',
             "implies(is_list(self.args), length(result) == ufn('shlex_n', INT, ufn('rga', STR, old(self.cmd))) + "
             "length(vlist_of(self.args)) and forall(INT, lambda i: implies(0 <= i and i < length(vlist_of(self.args)), "
             "result[ufn('shlex_n', INT, ufn('rga', STR, old(self.cmd))) + i] == "
             "ufn('rga', STR, as_str(vlist_of(self.args)[i])))))"),
            ('no-args', "implies(is_none(self.args), length(result) == ufn('shlex_n', INT, ufn('rga', STR, old(self.cmd))))"),
        ],
        raises={'*': []},
        modifies=['self.cmd', '$val'],
        local_types={},
        loops={0: Loop(invariant=["('wid' in format_kwargs) and format_kwargs['wid'] == val(self.wid)", "'env' in format_kwargs",
                                  "same_field('Process.cmd', 'Process.args', 'Process.wid', 'Process.shell', 'Process.env')",
                                  ],
                       fingerprint='for:self.watcher.optnames', modifies=[])}))
