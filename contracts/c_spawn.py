"""C13 / C07 (code-level part): what a worker is started with.

Process.spawn hands to Popen exactly: the argument vector computed by format_args, cwd = the configured working
directory, env = the configured environment, close_fds = not use_fds (no daemon descriptor leaks into workers of
watchers without use_sockets), stdout/stderr pipes only when configured.  Watcher.spawn_process constructs the Process
from the watcher's configured cmd / args / working_dir / env / uid / gid / shell / use_sockets and a fresh worker id."""
from pyvc.tys import *   # noqa
from pyvc.spec import *   # noqa


def declare(spec):
    spec.consts['subprocess:PIPE'] = -1
    for g, ty in (('po_argv', List(STR)), ('po_cwd', VAL), ('po_env', VAL), ('po_close_fds', BOOL), ('po_shell', VAL),
                  ('po_exe', VAL), ('po_stdout', VAL), ('po_stderr', VAL), ('po_n', INT), ('fmt_out', List(STR)),
                  ('fmt_fds', VAL), ('gsf_out', VAL)):
        spec.ghost(g, ty)
        spec.local_ghosts.add(g)
    spec.add(Contract('circus.process:Process._get_sockets_fds', ret=VAL, trusted=True, modifies=['self._sockets'],
                      raises={'*': []}, note='not under contract: fd table of the watcher sockets (+ SO_REUSEPORT clones)'))
    spec.add(Contract('psutil:Popen', params={'args': List(STR), 'cwd': VAL, 'shell': VAL, 'preexec_fn': VAL, 'env': VAL,
                                              'close_fds': BOOL, 'executable': VAL, 'stdout': VAL, 'stderr': VAL},
                      defaults={'stdout': None, 'stderr': None}, ret=Ref('PsProc'), trusted=True, modifies=['new:PsProc'],
                      ensures=['not isnull(result)', 'fresh_obj(result)'],
                      raises={'OSError': [], 'ValueError': []},
                      note='T-PSUTIL psutil.Popen = subprocess.Popen: fork/exec with exactly these arguments'))
    spec.add(Contract(
        'circus.process:Process.spawn',
        requires=list(spec.consts['$FMT_REQ']),
        ensures=[
            ('one-exec', 'po_n == old(po_n) + 1'),
            ('argv-is-format-args', 'po_argv == fmt_out and fmt_fds == gsf_out'),
            ('configured-cwd', 'po_cwd == self.working_dir'),
            ('configured-env', 'po_env == self.env'),
            ('no-fd-leak-without-use-fds', 'po_close_fds == (not self.use_fds)'),
            ('shell-and-executable', 'po_shell == self.shell and po_exe == self.executable'),
            ('pipes-as-configured', "po_stdout == ite(self.pipe_stdout, val(0 - 1), vnone()) and "
                                    "po_stderr == ite(self.pipe_stderr, val(0 - 1), vnone())"),
            'not isnull(self._worker)',
            "same_field('Process.working_dir', 'Process.env', 'Process.use_fds', 'Process.shell', 'Process.executable', "
            "'Process.pipe_stdout', 'Process.pipe_stderr')",
        ],
        raises={'*': []},
        modifies=['self.started', 'self._worker', 'self._sockets', 'self.cmd', 'new:PsProc', '$val', 'clock'],
        ghost_at={'_get_sockets_fds': ['gsf_out = call_result'],
                  'format_args': ['fmt_out = call_result', 'fmt_fds = kw_sockets_fds'],
                  },
        # what Popen is REALLY called with (parameters as bound, **extra expanded)
        ghost_on_call={'Popen': ['po_n = po_n + 1', 'po_argv = arg_args', 'po_cwd = arg_cwd', 'po_env = arg_env',
                                 'po_close_fds = arg_close_fds', 'po_shell = arg_shell', 'po_exe = arg_executable',
                                 'po_stdout = arg_stdout', 'po_stderr = arg_stderr']}))
