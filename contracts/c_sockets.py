"""C07 (reload half, snapshot only): CircusSocket.load_from_config records the RAW configuration section as the snapshot
`_cfg` that Arbiter.reload_from_config later compares a re-read section with (equal => the socket is left alone, i.e. not
closed and rebound).  Only the snapshot is under contract; reload_from_config itself is not (C12)."""
from pyvc.tys import *   # noqa
from pyvc.spec import *   # noqa


def declare(spec):
    spec.Class('CircusSocket', qual='circus.sockets:CircusSocket', fields={'_cfg': VAL})
    P = ['name', 'host', 'port', 'family', 'type', 'proto', 'backlog', 'path', 'umask', 'replace', 'interface',
         'so_reuseport', 'blocking']
    spec.add(Contract('circus.sockets:CircusSocket.__init__', params=dict((p, VAL) for p in P), trusted=True,
                      defaults=dict((p, None) for p in P), modifies=['self.*'], raises={'*': []},
                      note='T-STDLIB socket.socket constructor + option plumbing (setsockopt, inheritable): not under contract'))
    spec.add(Contract('socket:getprotobyname', params={'name': VAL}, ret=INT, trusted=True, modifies=[], raises={'OSError': []}))
    for tab in ('_FAMILY', '_TYPE'):
        spec.add(Contract('circus.sockets:%s.__getitem__' % tab, params={'key': VAL}, ret=INT, trusted=True, modifies=[],
                          raises={'KeyError': []}, note='module-level table of socket constants: some int, or KeyError'))
    SAME = ("forall(STR, lambda k: obj_has(result._cfg, k) == old(obj_has(config, k)) and "
            "implies(old(obj_has(config, k)), same(obj_get(result._cfg, k), old(obj_get(config, k)))))")
    spec.add(Contract(
        'circus.sockets:CircusSocket.load_from_config', params={'config': VAL}, ret=Ref('CircusSocket'),
        requires=['is_obj(config)'],
        ensures=['not isnull(result)',
                 ('snapshot-is-the-raw-section', "is_obj(result._cfg) and %s" % SAME),
                 ('snapshot-is-a-copy', 'result._cfg != config'),
                 ('section-untouched', "forall(STR, lambda k: obj_has(config, k) == old(obj_has(config, k)) and "
                                       "same(obj_get(config, k), old(obj_get(config, k))))")],
        raises={'*': []}, modifies=['new:CircusSocket', 'CircusSocket._cfg', '$val'],
        local_types={'params': Dict(STR, VAL)}))
