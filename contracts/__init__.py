"""Sidecar contracts for circus (no edit of /repo). build_spec() assembles the registry."""
from pyvc.spec import new_spec


def build_spec():
    spec = new_spec()
    from . import (classes, lib_std, relies, c_process, c_watcher, c_util, c_sync, c_arbiter,
                   c_commands, c_stream, c_controller, c_options, c_signal, c_manage, c_pidfile, c_shutdown)
    for m in (classes, lib_std, relies, c_process, c_watcher, c_util, c_sync, c_arbiter, c_commands,
              c_stream, c_controller, c_options, c_signal, c_manage, c_pidfile, c_shutdown):
        m.declare(spec)
    return spec
