"""Sidecar contracts for circus (no edit of /repo). build_spec() assembles the registry."""
from pyvc.spec import new_spec


def build_spec(profile=None):
    """profile 'redirector': the Redirector's table-maintaining methods get their verified contracts; in the default
    profile the watcher lifecycle keeps seeing them through the frame-only placeholders of c_watcher (A-REDIRFRAME)"""
    spec = new_spec()
    spec.profile = profile
    from . import (classes, lib_std, relies, c_process, c_watcher, c_util, c_sync, c_arbiter,
                   c_commands, c_stream, c_controller, c_options, c_signal, c_manage, c_pidfile, c_shutdown, c_redirector, c_format, c_spawn, c_client, c_procwrap, c_sockets)
    for m in (classes, lib_std, relies, c_process, c_watcher, c_util, c_sync, c_arbiter, c_commands,
              c_stream, c_controller, c_options, c_signal, c_manage, c_pidfile, c_shutdown, c_redirector, c_format, c_spawn, c_client, c_procwrap, c_sockets):
        m.declare(spec)
    return spec
