"""Contracts for circus.util (pure helpers)."""
import signal as _signal

from pyvc.tys import *   # noqa
from pyvc.spec import *   # noqa


def sig_tables():
    members = dict((n, int(v)) for n, v in _signal.Signals.__members__.items())
    ints, others = {}, []
    for n in dir(_signal):
        v = getattr(_signal, n)
        if isinstance(v, int) and not isinstance(v, bool):
            ints[n] = int(v)
        else:
            others.append(n)
    return members, ints, others


def declare(spec):
    members, ints, others = sig_tables()
    ax = []
    for n, v in sorted(members.items()):
        ax.append("ufn('is_signame', BOOL, %r) and ufn('signum_of', INT, %r) == %d" % (n, n, v))
    ax.append("forall(STR, lambda n: implies(ufn('is_signame', BOOL, n), %s))"
              % ' or '.join('n == %r' % n for n in sorted(members)))
    for n, v in sorted(ints.items()):
        ax.append("ufn('is_modattr_int', BOOL, %r) and ufn('modattr_of', INT, %r) == %d" % (n, n, v))
    ax.append("forall(STR, lambda n: implies(ufn('is_modattr_int', BOOL, n), %s))"
              % ' or '.join('n == %r' % n for n in sorted(ints)))
    ax.append("forall(STR, lambda n: ufn('is_modattr_other', BOOL, n) == (%s))"
              % ' or '.join('n == %r' % n for n in sorted(others)))
    spec.axioms['sigtable'] = ax
    spec.assumptions['T-SIGTABLE'] = ('signal.Signals members and integer attributes of the signal module '
                                      'are read from the interpreter running the verifier (Linux, %d members)'
                                      % len(members))

    spec.add(Contract('signal:__getattr__', params={'name': STR}, ret=VAL, trusted=True,
                      ensures=["ufn('is_modattr_int', BOOL, name) or ufn('is_modattr_other', BOOL, name)",
                               "implies(ufn('is_modattr_int', BOOL, name), result == val(ufn('modattr_of', INT, name)))",
                               "implies(not ufn('is_modattr_int', BOOL, name), is_ref(result))"],
                      raises={'AttributeError': ["not ufn('is_modattr_int', BOOL, name) and not ufn('is_modattr_other', BOOL, name)"]},
                      axioms=['sigtable'], note='T-STDLIB getattr(signal, name): finite attribute table'))
    spec.add(Contract('signal:Signals.__getitem__', params={'name': STR}, ret=INT, trusted=True,
                      ensures=["ufn('is_signame', BOOL, name)", "result == ufn('signum_of', INT, name)"],
                      raises={'KeyError': ["not ufn('is_signame', BOOL, name)"]},
                      axioms=['sigtable'], note='T-STDLIB signal.Signals[name]: enum member lookup'))

    # ---- to_signum (C18 designation half)
    spec.pred('sig_norm', [('g', STR)],
              "ite(prefix_of('SIG', upper(g)), upper(g), 'SIG' + upper(g))", ret=STR)
    spec.pred('sig_off', [('s', STR)],
              "ite(ufn('re_has3', BOOL, s), str_to_int(ufn('re_g3', STR, s)), 0)", ret=INT)
    spec.pred('sig_designated', [('s', STR)],
              "ufn('re_sig_full', BOOL, s) and ufn('is_signame', BOOL, sig_norm(ufn('re_g1', STR, s)))")
    spec.add(Contract(
        'circus.util:to_signum', params={'signum': VAL}, ret=INT,
        requires=[],
        ensures=[
            'implies(is_int(signum), result == as_int(signum))',
            'implies(is_str(signum) and int_ok(as_str(signum)), result == int_of(as_str(signum)))',
            'implies(is_str(signum) and not int_ok(as_str(signum)), sig_designated(as_str(signum)))',
            "implies(is_str(signum) and not int_ok(as_str(signum)), result == "
            "ufn('signum_of', INT, sig_norm(ufn('re_g1', STR, as_str(signum)))) + sig_off(as_str(signum)))",
        ],
        raises={
            'ValueError': ['is_str(signum)', 'not int_ok(as_str(signum))',
                           'not sig_designated(as_str(signum))'],
            'TypeError': ['not (is_int(signum) or is_str(signum) or is_real(signum) or is_bool(signum))'],
        },
        modifies=[], axioms=['sigtable'],
    ))
