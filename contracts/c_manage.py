"""C01: the process count converges to numprocesses and then stays put (manage_processes, set_numprocesses,
incr/decr).  Built on the lifecycle contracts of c_watcher (spawn_processes, kill_process, _stop)."""
from pyvc.tys import *   # noqa
from pyvc.spec import *   # noqa


def declare(spec):
    prot = spec.consts['$prot']
    LOGS = spec.consts['$LOGS']
    SUB = ("forall(INT, lambda k: implies(k in self.processes, (k in old(self.processes)) and "
           "self.processes[k] == old(self.processes)[k]))")
    DROPDEAD = ("forall(INT, lambda k: implies((k in old(self.processes)) and not (k in self.processes), "
                "not (k in K_alive)))")
    KEEPALL = ("forall(INT, lambda k: implies(k in old(self.processes), (k in self.processes) and "
               "self.processes[k] == old(self.processes)[k]))")
    ALLALIVE = "forall(INT, lambda k: implies(k in old(self.processes), k in K_alive))"
    spec.add(Contract('circus.process:Process.age', ret=REAL, trusted=True, modifies=[],
                      note='T-CLOCK time.time() - self.started'))
    spec.add(Contract('random:randint', params={'a': INT, 'b': INT}, ret=INT, trusted=True, modifies=[],
                      ensures=['a <= result and result <= b'], note='T-STDLIB random.randint'))
    spec.ghost('mp_pops', INT)     # C01: number of workers manage_processes unlisted (ghost counter at every pop)
    spec.local_ghosts.add('mp_pops')
    spec.ghost('mp_deadseen', INT)   # C01: number of status reads by manage_processes that said DEAD_OR_ZOMBIE / UNEXISTING
    spec.local_ghosts.add('mp_deadseen')
    LIFE = ['excl', 'wf_w(self)', 'not self.on_demand', 'not isnull(self.arbiter)',
            'found_empty(self)', 'is_str(self.cmd)',
            'self.warmup_delay >= 0', 'self.graceful_timeout >= 0', 'self.numprocesses >= 0', 'self.max_age >= 0', 'self.max_age_variance >= 0']
    KP_REQ = ['excl', 'wf_w(self)', 'self.graceful_timeout >= 0']
    ONLYSHRINK = ['implies(old(found_empty(self)), found_empty(self))', SUB, 'self.numprocesses == old(self.numprocesses)', 'self._status == old(self._status)', 'excl',
                  'wf_w(self)', LOGS, 'clock >= old(clock)',
                  prot(exc=('Watcher.processes',)),
                  "forall(Ref('Watcher'), lambda w: implies(w != self, w.processes == old(w.processes) and len(w.processes) == len(old(w.processes))))"]
    spec.add(Contract(
        'circus.watcher:Watcher.remove_expired_processes', kind='coroutine', rely='held',
        requires=KP_REQ + ['self.max_age_variance >= 0'],
        ensures=ONLYSHRINK,
        modifies=['*'],
        loops={0: Loop(invariant=[SUB, 'excl', 'wf_w(self)', LOGS, 'clock >= old(clock)',
                                  'loop_n == length(expired_processes)',
                                  "forall(INT, lambda j: implies(loop_i <= j and j < length(expired_processes), "
                                  "(expired_processes[j].pid in self.processes) and "
                                  "self.processes[expired_processes[j].pid] == expired_processes[j]))",
                                  "forall(INT, INT, lambda a, b: implies(0 <= a and a < b and b < length(expired_processes), "
                                  "expired_processes[a] != expired_processes[b]))",
                                  'self.numprocesses == old(self.numprocesses)', 'self._status == old(self._status)',
                                  prot(exc=('Watcher.processes',)),
                                  "forall(Ref('Watcher'), lambda w: implies(w != self, w.processes == old(w.processes) and len(w.processes) == len(old(w.processes))))"],
                       fingerprint='for:enumerate(expired_processes)', modifies=['self.processes'])}))
    spec.add(Contract(
        'circus.watcher:Watcher.manage_processes', kind='coroutine', rely='held',
        requires=LIFE,
        ensures=[
            "implies(old(self._status) == 'stopped', same_heap())",
            # fixpoint: right count, nobody dead, no max_age => nothing is started, signalled, unlisted or published
            # (a worker is unlisted by the first loop only when the kernel says it is dead: loop invariant DROPDEAD)
            ('fixpoint',
             "implies(old(self._status) != 'stopped' and mp_pops == old(mp_pops) and "
             "len(old(self.processes)) == old(self.numprocesses) "
             "and old(self.max_age) == 0, same_heap(except_=['K_alive', 'mp_pops', 'mp_deadseen']))"),
            # convergence step: with respawn on and no stop in progress the count is at least the target afterwards
            # (exactly the target when something was spawned), unless a spawn failed and the watcher was stopped
            # a listed worker whose status read says dead / gone is unlisted (so the count below is a count of workers
            # not known to be dead): as many removals as such reads, at least
            ('found-dead-are-unlisted', 'mp_pops - old(mp_pops) >= mp_deadseen - old(mp_deadseen)'),
            ('deficit-filled',
             "implies(old(self._status) == 'active' and old(self.respawn) and old(self.max_age) == 0 and "
             "self._status != 'stopped', len(self.processes) >= self.numprocesses)"),
            ('no-overshoot',
             "implies(old(self.max_age) == 0 and length(spawnlog) > length(old(spawnlog)) and self._status != 'stopped', "
             "len(self.processes) == self.numprocesses)"),
            'self.numprocesses == old(self.numprocesses)', 'excl', 'wf_w(self)', LOGS, 'clock >= old(clock)',
            'found_empty(self)',
            # C09: a worker that leaves the table without having been terminated by us (found dead) is announced by a
            # reap event -- otherwise a subscriber keeps counting it as live for ever
            ('dead-removed-are-reaped',
             "implies(self._status != 'stopped', forall(INT, lambda k: implies((k in old(self.processes)) and "
             "not (k in self.processes) and old(self.processes)[k].klog == old(old(self.processes)[k].klog), "
             "exists(INT, lambda i: length(old(reaplog)) <= i and i < length(reaplog) and ev_pid(reaplog[i]) == k))))"),
        ] + [('protected-%d' % i, c) for i, c in enumerate(prot(exc=(
            'Watcher.processes', 'Watcher._status', 'Watcher.stream_redirector', 'Watcher._found_wids',
            'spawnlog', 'spevlog', 'reaplog', 'K_child')).split(' and '))] + [
            # no other watcher's table is touched
            "forall(Ref('Watcher'), lambda w: implies(w != self, w.processes == old(w.processes) and len(w.processes) == len(old(w.processes)) and "
            "w._status == old(w._status)))",
        ],
        raises={'RuntimeError': ["old(self._status) != 'stopped'"]},   # a stopped watcher returns at once
        modifies=['*'], local_types={'processes_to_kill': List(Ref('Process'))},
        ghost_at={'pop': ['mp_pops = mp_pops + 1'],
                  'status': ['mp_deadseen = mp_deadseen + ite(call_result == 1 or call_result == 2, 1, 0)']},
        loops={
            0: Loop(invariant=[
                SUB, DROPDEAD, 'wf_w(self)', 'excl',
                "forall(INT, lambda j: implies(loop_i <= j and j < loop_n, (loop_seq[j].pid in self.processes) and "
                "self.processes[loop_seq[j].pid] == loop_seq[j]))",
                "forall(INT, lambda j: implies(0 <= j and j < loop_n, not isnull(loop_seq[j]) and "
                "(loop_seq[j].pid in old(self.processes)) and old(self.processes)[loop_seq[j].pid] == loop_seq[j]))",
                "forall(INT, INT, lambda a, b: implies(0 <= a and a < b and b < loop_n, loop_seq[a] != loop_seq[b]))",
                "len(self.processes) <= len(old(self.processes)) and len(self.processes) >= len(old(self.processes)) - loop_i",
                "implies(mp_pops == old(mp_pops), same_field('Watcher.processes'))", 'mp_pops >= old(mp_pops)',
                "same_heap(except_=['Watcher.processes', 'K_alive', 'mp_pops', 'mp_deadseen'])",
                "forall(Ref('Watcher'), lambda w: implies(w != self, w.processes == old(w.processes) and len(w.processes) == len(old(w.processes))))",
                'kstep()',
                # every worker whose status read said dead / gone was unlisted (and only those: DROPDEAD)
                'mp_pops - old(mp_pops) == mp_deadseen - old(mp_deadseen)',
            ], fingerprint='for:list(self.processes.values())', modifies=['self.processes', 'K_alive', 'mp_pops', 'mp_deadseen']),
            1: Loop(invariant=[
                'wf_w(self)', 'excl',
                "forall(INT, lambda k: implies(k in self.processes, (k in at('loop1_pre', self.processes)) and "
                "self.processes[k] == at('loop1_pre', self.processes)[k]))",
                # what is still to be looked at, and what was set aside to be killed, is still listed
                "forall(INT, lambda j: implies(loop_i <= j and j < loop_n, not isnull(loop_seq[j]) and "
                "(loop_seq[j].pid in self.processes) and self.processes[loop_seq[j].pid] == loop_seq[j]))",
                "forall(INT, INT, lambda a, b: implies(0 <= a and a < b and b < loop_n, loop_seq[a] != loop_seq[b]))",
                "forall(INT, lambda j: implies(0 <= j and j < length(processes_to_kill), not isnull(processes_to_kill[j]) and "
                "(processes_to_kill[j].pid in self.processes) and self.processes[processes_to_kill[j].pid] == processes_to_kill[j]))",
                "forall(INT, INT, lambda a, b: implies(0 <= a and a < b and b < length(processes_to_kill), "
                "processes_to_kill[a] != processes_to_kill[b]))",
                "forall(INT, INT, lambda a, j: implies(0 <= a and a < length(processes_to_kill) and loop_i <= j and j < loop_n, "
                "processes_to_kill[a] != loop_seq[j]))",
                # counting: every surplus worker is either dropped as dead or set aside
                "loop_n == at('loop1_pre', len(self.processes)) - self.numprocesses",
                "len(self.processes) - length(processes_to_kill) == at('loop1_pre', len(self.processes)) - loop_i",
                "forall(Ref('Watcher'), lambda w: implies(w != self, w.processes == at('loop1_pre', w.processes)))",
                "mp_pops - at('loop1_pre', mp_pops) == mp_deadseen - at('loop1_pre', mp_deadseen)",
            ], fingerprint='for:sorted(self.processes.values(), key=lambda process: process.started, reverse=True)[self.numprocesses:]',
                modifies=['self.processes', 'K_alive', 'mp_pops', 'mp_deadseen']),
            2: Loop(invariant=[
                'wf_w(self)', 'excl', 'loop_n == length(processes_to_kill)',
                "forall(INT, lambda j: implies(loop_i <= j and j < length(processes_to_kill), "
                "(processes_to_kill[j].pid in self.processes) and self.processes[processes_to_kill[j].pid] == processes_to_kill[j]))",
                "forall(INT, INT, lambda a, b: implies(0 <= a and a < b and b < length(processes_to_kill), "
                "processes_to_kill[a] != processes_to_kill[b]))",
                "len(self.processes) >= self.numprocesses + length(processes_to_kill) - loop_i",
                'self.numprocesses == old(self.numprocesses)', LOGS, 'clock >= old(clock)',
                "self._status == at('loop2_pre', self._status)", "spawnlog == at('loop2_pre', spawnlog)",
            ], fingerprint='for:enumerate(processes_to_kill)', modifies=['self.processes', 'mp_pops']),
        },
    ))
    CONV = [
        ('deficit-filled',
         "implies(old(self._status) == 'active' and old(self.respawn) and old(self.max_age) == 0 and "
         "self._status != 'stopped', len(self.processes) >= self.numprocesses)"),
        'self.numprocesses >= 0', ('singleton-at-most-one', 'implies(self.singleton, self.numprocesses <= 1)'),
        'excl', 'wf_w(self)', 'found_empty(self)']
    # ---- do_action (what a `set` request triggers): a stopped watcher is left alone whatever the action code.
    # Only in the 'lifecycle' profile (C02): its precondition is the lifecycle invariant LIFE, which the option-level
    # contracts of C11 (Set.execute calls it through a trusted placeholder) do not carry.
    if getattr(spec, 'profile', None) == 'lifecycle':
        spec.add(Contract('circus.watcher:Watcher._reload', kind='coroutine', params={'graceful': BOOL, 'sequential': BOOL},
                          defaults={'graceful': True, 'sequential': False}, trusted=True, modifies=['*'], raises={'*': []},
                          note='not under contract: restarts / HUPs / respawns the workers -- and STARTS a stopped watcher; '
                               'do_action must therefore not reach it for a stopped watcher'))
        spec.add(Contract(
            'circus.watcher:Watcher.do_action', kind='coroutine', rely='held', params={'num': INT},
            requires=LIFE,
            ensures=[('stopped-stays-stopped', "implies(old(self._status) == 'stopped', same_heap())")],
            raises={'*': ["implies(old(self._status) == 'stopped', same_heap())"]},
            modifies=['*']))
    LIFE_NP = [r for r in LIFE if r != 'self.numprocesses >= 0']
    spec.add(Contract(
        'circus.watcher:Watcher.set_numprocesses', kind='coroutine', rely='held', params={'np': INT}, ret=INT,
        requires=LIFE_NP,
        ensures=[('target-clamped', 'self.numprocesses == ite(np < 0, 0, np)'), 'result == self.numprocesses',
                 'self.singleton == old(self.singleton)'] + CONV,
        raises={'ValueError': ['same_heap()', 'self.singleton and np > 1'], 'RuntimeError': []},
        modifies=['*']))
    for nm, sign in (('incr', '+'), ('decr', '-')):
        spec.add(Contract(
            'circus.watcher:Watcher.%s' % nm, kind='coroutine', rely='held', params={'nb': INT}, ret=INT,
            defaults={'nb': 1},
            requires=LIFE_NP,
            ensures=[('target', 'self.numprocesses == ite(old(self.numprocesses) %s nb < 0, 0, old(self.numprocesses) %s nb)'
                      % (sign, sign)), 'result == self.numprocesses', 'self.singleton == old(self.singleton)'] + CONV,
            raises={'ValueError': ['same_heap()', 'self.singleton'], 'RuntimeError': []},
            modifies=['*']))
