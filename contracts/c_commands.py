"""Contracts for circus.commands.* (server side: validate / execute)."""
from pyvc.tys import *   # noqa
from pyvc.spec import *   # noqa

CMDS = {
    'NumWatchers': 'circus.commands.numwatchers', 'List': 'circus.commands.list',
    'Status': 'circus.commands.status', 'RmWatcher': 'circus.commands.rmwatcher',
    'AddWatcher': 'circus.commands.addwatcher', 'NumProcesses': 'circus.commands.numprocesses',
    'Kill': 'circus.commands.kill', 'Signal': 'circus.commands.sendsignal', 'Set': 'circus.commands.set',
    'IncrProc': 'circus.commands.incrproc', 'DecrProc': 'circus.commands.decrproc',
    'Stats': 'circus.commands.stats', 'Quit': 'circus.commands.quit', 'Get': 'circus.commands.get',
    'Options': 'circus.commands.options', 'Start': 'circus.commands.start', 'Stop': 'circus.commands.stop',
    'Restart': 'circus.commands.restart', 'Reload': 'circus.commands.reload',
    'ReloadConfig': 'circus.commands.reloadconfig', 'GlobalOptions': 'circus.commands.globaloptions',
    'DStats': 'circus.commands.dstats', 'ListSockets': 'circus.commands.listsockets',
}


def declare(spec):
    for cname, mod in CMDS.items():
        spec.Class(cname, qual='%s:%s' % (mod, cname), fields={}, bases=('Command',))

    spec.add(Contract(
        'circus.commands.base:Command._get_watcher',
        params={'arbiter': Ref('Arbiter'), 'watcher_name': VAL}, ret=Ref('Watcher'),
        requires=["not isnull(arbiter)"],
        ensures=['is_str(watcher_name)', 'lower(as_str(watcher_name)) in arbiter._watchers_names',
                 'result == arbiter._watchers_names[lower(as_str(watcher_name))]'],
        raises={'MessageError': ['is_str(watcher_name)',
                                 'not (lower(as_str(watcher_name)) in arbiter._watchers_names)'],
                'AttributeError': ['not is_str(watcher_name)']},
        modifies=[]))
    spec.add(Contract(
        'circus.commands.numwatchers:NumWatchers.execute', params={'arbiter': Ref('Arbiter'), 'props': VAL},
        ret=VAL, requires=['not isnull(arbiter)'],
        ensures=["is_obj(result)", "obj_has(result, 'numwatchers')",
                 "obj_get(result, 'numwatchers') == val(length(arbiter.watchers))"],
        modifies=['$val']))
    spec.add(Contract(
        'circus.commands.list:List.execute', params={'arbiter': Ref('Arbiter'), 'props': VAL},
        ret=VAL, requires=['not isnull(arbiter)', 'is_obj(props)', "not obj_has(props, 'name')"],
        ensures=["is_obj(result)", "obj_has(result, 'watchers')", "is_list(obj_get(result, 'watchers'))",
                 # the reported names are exactly the keys of the directory
                 "forall(STR, lambda k: (k in arbiter._watchers_names) == "
                 "contains(vlist_of(obj_get(result, 'watchers')), val(k)))",
                 "length(vlist_of(obj_get(result, 'watchers'))) == len(arbiter._watchers_names)"],
        modifies=['$val']))
    spec.add(Contract(
        'circus.commands.status:Status.execute', params={'arbiter': Ref('Arbiter'), 'props': VAL},
        ret=VAL, requires=['not isnull(arbiter)', 'is_obj(props)', "not obj_has(props, 'name')",
                           'dir_wf(arbiter)'],
        ensures=["is_obj(result)", "obj_has(result, 'statuses')", "is_obj(obj_get(result, 'statuses'))",
                 "forall(STR, lambda n: obj_has(obj_get(result, 'statuses'), n) == "
                 "exists(INT, lambda i: 0 <= i and i < length(arbiter.watchers) and arbiter.watchers[i].name == n))"],
        modifies=['$val']))
    # SAMESET: under DIR, list / status / numwatchers describe the same set of watchers
    spec.lemmas['SAMESET'] = Lemma(
        'SAMESET', {'a': Ref('Arbiter'), 'lst': VAL, 'sts': VAL, 'nw': VAL},
        hyps=['dir_wf(a)',
              # post(List.execute)
              "is_list(lst)",
              "forall(STR, lambda k: (k in a._watchers_names) == contains(vlist_of(lst), val(k)))",
              "length(vlist_of(lst)) == len(a._watchers_names)",
              # post(Status.execute)
              "is_obj(sts)",
              "forall(STR, lambda n: obj_has(sts, n) == exists(INT, lambda i: 0 <= i and "
              "i < length(a.watchers) and a.watchers[i].name == n))",
              # post(NumWatchers.execute)
              "nw == val(length(a.watchers))"],
        goal="forall(STR, lambda k: contains(vlist_of(lst), val(k)) == "
             "exists(STR, lambda n: obj_has(sts, n) and lower(n) == k)) and "
             "nw == val(length(vlist_of(lst)))")
