from pyvc.tys import *   # noqa
from pyvc.spec import *   # noqa


def declare(spec):
    spec.pred('wf_procs', [('w', Ref('Watcher'))],
              "w.numprocesses >= 0 and forall(INT, lambda k: implies(k in w.processes, not isnull(w.processes[k])))")
    spec.add(Contract(
        'circus.watcher:Watcher._nextwid', kind='property', ret=INT,
        requires=['wf_procs(self)'],
        ensures=[
            'result >= 1',
            'result <= 2 * self.numprocesses',
            'forall(INT, lambda k: implies(k in self.processes, self.processes[k].wid != result))',
            'forall(INT, lambda y: implies(1 <= y and y < result, exists(INT, lambda k: k in self.processes and self.processes[k].wid == y)))',
        ],
        raises={'RuntimeError': [
            'forall(INT, lambda y: implies(1 <= y and y <= 2 * self.numprocesses, exists(INT, lambda k: k in self.processes and self.processes[k].wid == y)))',
        ]},
        modifies=[],
        must_fail=['result >= 2', 'forall(INT, lambda y: implies(1 <= y and y <= result, exists(INT, lambda k: k in self.processes and self.processes[k].wid == y)))'],
    ))

    # ---- events (ghost evlog: one entry per message actually handed to the PUB socket)
    spec.add(Contract('$PubSocket.send_multipart', params={'self': Ref('PubSocket'), 'parts': VAL},
                      trusted=True, modifies=[],
                      note='T-ZMQ / A-ZMQSEND: send_multipart on an open PUB socket hands the message to '
                           'zmq and does not raise; the ghost evlog entry is attached at this call by '
                           'Watcher.notify_event (ghost_at)'))
    spec.pred('serialisable', [('msg', Dict(STR, VAL))],
              "forall(STR, lambda k: implies(k in msg, not is_ref(msg[k])))")
    spec.pred('msg_int', [('msg', Dict(STR, VAL)), ('k', STR)],
              "ite(k in msg and is_int(msg[k]), as_int(msg[k]), -1)", ret=INT)
    # what really goes on the wire (taken from the actual arguments of send_multipart / json.dumps, not from the
    # parameters): first frame = topic bytes, second frame = the JSON text of the dict that was serialised
    spec.ghost('evwire', List(BYTES))
    spec.ghost('evbody', List(BYTES))
    spec.ghost('ev_dumped', Dict(STR, VAL))     # the argument of the last json.dumps in notify_event
    spec.ghost('ev_dump_out', BYTES)            # ... and its result
    spec.local_ghosts.update(['evwire', 'evbody', 'ev_dumped', 'ev_dump_out'])
    spec.add(Contract(
        'circus.watcher:Watcher.notify_event', params={'topic': STR, 'msg': Dict(STR, VAL)},
        requires=['serialisable(msg)'],
        ensures=["implies(not isnull(self.evpub_socket) and not self.evpub_socket.closed, "
                 "length(evlog) == length(old(evlog)) + 1 and last(evlog) == "
                 "pubev(ref_id(self), topic, msg_int(msg, 'process_pid'), msg_int(msg, 'exit_code')))",
                 ('wire-topic', "implies(not isnull(self.evpub_socket) and not self.evpub_socket.closed, "
                  "length(evwire) == length(old(evwire)) + 1 and "
                  "ufn('bytes_decode', STR, last(evwire)) == 'watcher.' + self.res_name + '.' + topic)"),
                 ('wire-body-is-the-message', "implies(not isnull(self.evpub_socket) and not self.evpub_socket.closed, "
                  "length(evbody) == length(old(evbody)) + 1 and last(evbody) == ev_dump_out and ev_dumped == msg)"),
                 "forall(INT, lambda i: implies(0 <= i and i < length(old(evlog)), evlog[i] == old(evlog)[i]))",
                 "implies(isnull(self.evpub_socket) or self.evpub_socket.closed, evlog == old(evlog))"],
        modifies=['evlog', 'evwire', 'evbody', 'ev_dumped', 'ev_dump_out'],
        ghost_at={'send_multipart': ["evlog = evlog + [pubev(ref_id(self), topic, "
                                     "msg_int(msg, 'process_pid'), msg_int(msg, 'exit_code'))]",
                                     "evwire = evwire + [args[0][0]]", "evbody = evbody + [args[0][1]]"],
                  'dumps': ["ev_dumped = args[0]", "ev_dump_out = call_result"]},
    ))
    spec.add(Contract('circus.watcher:Watcher.initialize',
                      params={'evpub_socket': Ref('PubSocket'), 'sockets': VAL, 'arbiter': Ref('Arbiter')},
                      ensures=['self.evpub_socket == evpub_socket', 'self.sockets == sockets',
                               'self.arbiter == arbiter'],
                      modifies=['self.evpub_socket', 'self.sockets', 'self.arbiter']))
    spec.add(Contract('circus.watcher:Watcher.status', ret=STR, ensures=['result == self._status'],
                      modifies=[], inline='self._status'))
    spec.add(Contract('circus.watcher:Watcher.__len__', ret=INT,
                      ensures=['result == len(self.processes)'], modifies=[], inline='len(self.processes)'))
    spec.add(Contract(
        'circus.watcher:Watcher.__init__', params={'name': VAL, 'cmd': VAL, 'options': Dict(STR, VAL)},
        trusted=True,
        ensures=['is_str(name)', 'self.name == as_str(name)', "self._status == 'stopped'",
                 'len(self.processes) == 0', 'isnull(self.arbiter)', 'isnull(self.evpub_socket)'],
        raises={'*': []}, modifies=['self.*'], exc_modifies=['self.*'],
        note='constructor: initialises only the new object (70 lines of option plumbing, not verified); '
             'any exception for ill-typed arguments'))

    # ---- hooks (C14) -------------------------------------------------------------------
    spec.ghost('hooklog', List(PUBEV))     # one entry per hook CALL: (watcher, hook name, truthy(result))
    spec.add(Contract('$callable', params={'f': VAL}, ret=VAL, trusted=True,
                      modifies=['clock', 'K_alive'], ensures=['kstep()', 'clock >= old(clock)'],
                      raises={'*': ['kstep()', 'clock >= old(clock)']},
                      note='A-HOOKPURE / A-HOOKRET: a user hook returns any value or raises any Exception, '
                           'takes time, and does not modify supervisor state'))
    EVKEEP = ("(length(evlog) >= length(old(evlog)) and forall(INT, lambda i: implies(0 <= i and "
              "i < length(old(evlog)), evlog[i] == old(evlog)[i])))")
    HKEEP = ("(length(hooklog) >= length(old(hooklog)) and forall(INT, lambda i: implies(0 <= i and "
             "i < length(old(hooklog)), hooklog[i] == old(hooklog)[i])))")
    OPEN = "(not isnull(self.evpub_socket) and not self.evpub_socket.closed)"
    spec.add(Contract(
        'circus.watcher:Watcher.call_hook', params={'hook_name': STR, 'kwargs': Dict(STR, VAL)}, ret=VAL,
        requires=['serialisable(kwargs)'],
        ensures=[
            # no hook registered: True, no event, no log entry
            "implies(not (hook_name in self.hooks), result == val(True) and evlog == old(evlog) and hooklog == old(hooklog))",
            # hook registered: exactly one hook_success / hook_failure event (when the socket is open)
            "implies(hook_name in self.hooks, length(hooklog) == length(old(hooklog)) + 1 and "
            "last(hooklog) == pubev(ref_id(self), hook_name, ite(truthy(result), 1, 0), 0))",
            "implies(hook_name in self.hooks and %s, length(evlog) == length(old(evlog)) + 1 and "
            "(ev_topic(last(evlog)) == 'hook_success' or ev_topic(last(evlog)) == 'hook_failure') and "
            "ev_w(last(evlog)) == ref_id(self))" % OPEN,
            "implies(hook_name in self.hooks and not %s, evlog == old(evlog))" % OPEN,
            # an exception counts as false unless the name is in ignore_hook_failure
            "implies(hook_name in self.hooks and %s and ev_topic(last(evlog)) == 'hook_failure', "
            "result == val(contains(self.ignore_hook_failure, hook_name)))" % OPEN,
            EVKEEP, HKEEP, 'kstep()', 'clock >= old(clock)',
        ],
        modifies=['evlog', 'hooklog', 'clock', 'K_alive'],
        ghost_at={'notify_event': ["hooklog = hooklog + [pubev(ref_id(self), hook_name, ite(truthy(result), 1, 0), 0)]"]},
    ))
    SIGKEEP = ("(length(siglog) >= length(old(siglog)) and forall(INT, lambda i: implies(0 <= i and "
               "i < length(old(siglog)), siglog[i] == old(siglog)[i])))")
    GATE = ("ite('before_signal' in self.hooks, ev_pid(hooklog[length(old(hooklog))]) == 1, True)")
    # Watcher._found_wids only ever holds an empty container: [] from __init__, {} after the first spawn_processes
    # (never populated anywhere: frame-scans found-wids-writers / found-wids-mutators)
    # (the field is modelled as a sequence; the empty dict literal is stored as the empty sequence, see coerce_store)
    spec.pred('found_empty', [('w', Ref('Watcher'))], "length(w._found_wids) == 0")
    spec.pred('wf_procs_pid', [('w', Ref('Watcher'))],
              "forall(INT, lambda k: implies(k in w.processes, not isnull(w.processes[k]) and w.processes[k].pid == k))")
    spec.add(Contract(
        'circus.watcher:Watcher.send_signal', params={'pid': INT, 'signum': INT},
        requires=['wf_procs_pid(self)'],
        ensures=[
            "implies(not (pid in self.processes), siglog == old(siglog) and evlog == old(evlog) and hooklog == old(hooklog))",
            # at most one signal, to the addressed worker, with the signal that was named
            "length(siglog) <= length(old(siglog)) + 1",
            "implies(length(siglog) == length(old(siglog)) + 1, (pid in self.processes) and "
            "last(siglog) == sigev(pid, signum, sig_t(last(siglog)), 0))",
            # the before_signal gate, SIGKILL exempt (C14)
            "implies(pid in self.processes, (length(siglog) == length(old(siglog)) + 1) == (signum == 9 or %s))" % GATE,
            SIGKEEP, EVKEEP, HKEEP, 'kstep()', 'clock >= old(clock)',
            "same_field('Watcher.processes', 'Process.stopping', 'Process.klog', 'Process.naps', 'Process.alive_seen')",
        ],
        raises={'NoSuchProcess': ['siglog == old(siglog)', 'pid in self.processes', 'kstep()',
                                  'clock >= old(clock)', EVKEEP, HKEEP,
                                  'signum == 9 or %s' % GATE]},
        modifies=['siglog', 'evlog', 'hooklog', 'clock', 'K_alive'],
    ))

    # ---- termination of one worker (C03) -------------------------------------------------
    spec.add(Contract('circus.util:tornado_sleep', params={'duration': REAL}, trusted=True,
                      note='T-TORNADO gen.sleep: handled by the coroutine layer (pending sleep)'))
    spec.add(Contract('circus.stream.redirector:Redirector.remove_redirections',
                      params={'process': Ref('Process')}, trusted=True, modifies=[],
                      note='placeholder until C17 puts Redirector under contract: no effect on the state '
                           'the lifecycle contracts talk about'))
    DESC = "ufn('descendant', BOOL, process.pid, sig_pid(siglog[i]))"
    CONF = ("forall(INT, lambda i: implies(length(old(siglog)) <= i and i < length(siglog), "
            "sig_num(siglog[i]) == signum and (sig_pid(siglog[i]) == process.pid or %s)))" % DESC)
    spec.add(Contract(
        'circus.watcher:Watcher.send_signal_process',
        params={'process': Ref('Process'), 'signum': INT, 'recursive': BOOL},
        requires=['not isnull(process)', 'wf_procs_pid(self)'],
        ensures=[CONF, SIGKEEP, EVKEEP, HKEEP, 'kstep()', 'clock >= old(clock)',
                 "same_field('Watcher.processes', 'Process.stopping', 'Process.klog', 'Process.naps', 'Process.alive_seen')",
                 # C09: a signal delivered to the worker itself is announced by a kill event carrying its pid
                 ('kill-event-published',
                  "implies(%s and exists(INT, lambda i: length(old(siglog)) <= i and i < length(siglog) and "
                  "sig_pid(siglog[i]) == process.pid), exists(INT, lambda j: length(old(evlog)) <= j and j < length(evlog) "
                  "and ev_topic(evlog[j]) == 'kill' and ev_pid(evlog[j]) == process.pid and ev_w(evlog[j]) == ref_id(self)))"
                  % OPEN)],
        modifies=['siglog', 'evlog', 'hooklog', 'clock', 'K_alive'],
        loops={0: Loop(invariant=[
            "forall(INT, lambda i: implies(length(old(siglog)) <= i and i < length(siglog), "
            "sig_num(siglog[i]) == signum and (sig_pid(siglog[i]) == process.pid or %s)))" % DESC,
            SIGKEEP, EVKEEP, HKEEP, 'kstep()', 'clock >= old(clock)',
            "forall(INT, lambda i: implies(0 <= i and i < loop_n, ufn('descendant', BOOL, process.pid, loop_seq[i])))",
            "implies(%s and exists(INT, lambda i: length(old(siglog)) <= i and i < length(siglog) and "
            "sig_pid(siglog[i]) == process.pid), exists(INT, lambda j: length(old(evlog)) <= j and j < length(evlog) "
            "and ev_topic(evlog[j]) == 'kill' and ev_pid(evlog[j]) == process.pid and ev_w(evlog[j]) == ref_id(self)))" % OPEN,
            "same_field('Watcher.processes', 'Process.stopping', 'Process.klog', 'Process.naps', "
            "'Process.alive_seen', 'Process.pid', 'Watcher.evpub_socket', 'PubSocket.closed', 'Watcher.hooks')",
        ], fingerprint='for:children')},
    ))
    S = "ite(is_none(stop_signal), old(self.stop_signal), as_int(stop_signal))"
    G = "ite(is_none(graceful_timeout), old(self.graceful_timeout), as_real(graceful_timeout))"
    N0 = "length(old(process.klog))"
    spec.add(Contract(
        'circus.watcher:Watcher.kill_process', kind='coroutine', rely='kill',
        params={'process': Ref('Process'), 'stop_signal': VAL, 'graceful_timeout': VAL}, ret=BOOL,
        requires=['not isnull(process)', 'wf_procs_pid(self)',
                  'is_none(stop_signal) or is_int(stop_signal)',
                  'is_none(graceful_timeout) or is_num(graceful_timeout)',
                  'self.graceful_timeout >= 0',
                  'implies(is_num(graceful_timeout), as_real(graceful_timeout) >= 0)'],
        yield_guarantee=['wf_procs_pid(self)'],
        ensures=[
            # a second termination of the same worker returns at once, without any signal
            'implies(old(process.stopping), not result)',
            'implies(not result, process.klog == old(process.klog))',
            # stop signal first: the configured one or the per-request override
            'implies(result, length(process.klog) >= %s + 1)' % N0,
            'implies(result, sig_num(process.klog[%s]) == %s)' % (N0, S),
            'implies(result, sig_pid(process.klog[%s]) == process.pid)' % N0,
            'implies(result, sig_mode(process.klog[%s]) == ite(old(self.stop_children), 1, 0))' % N0,
            # at most one escalation, it is SIGKILL to the worker and all its descendants
            'implies(result, length(process.klog) <= %s + 2)' % N0,
            'implies(result and length(process.klog) == %s + 2, sig_num(process.klog[%s + 1]) == 9 and '
            'sig_pid(process.klog[%s + 1]) == process.pid and sig_mode(process.klog[%s + 1]) == 2)'
            % (N0, N0, N0, N0),
            # never earlier than graceful_timeout after the stop signal (ghost clock, A-REAL)
            'implies(result and length(process.klog) == %s + 2, sig_t(process.klog[%s + 1]) >= '
            'sig_t(process.klog[%s]) + %s)' % (N0, N0, N0, G),
            # always within one polling step once the timeout has elapsed
            'implies(result and length(process.klog) == %s + 2, process.naps - old(process.naps) >= %s and '
            'process.naps - old(process.naps) < %s + real(1) / 10)' % (N0, G, G),
            # no SIGKILL <=> the worker was seen dead before the timeout (and a dead pid stays dead)
            'implies(result and length(process.klog) == %s + 1, not (process.pid in K_alive))' % N0,
            # never to a worker that exited in time: SIGKILL only after the worker was seen alive once
            # the whole graceful_timeout had been waited
            'implies(result and length(process.klog) == %s + 2, process.alive_seen - old(process.naps) >= %s)'
            % (N0, G),
            'implies(result, not process.stopping and process.closed)',
            'forall(INT, lambda i: implies(0 <= i and i < %s, process.klog[i] == old(process.klog)[i]))' % N0,
            'implies(excl, %s)' % spec.consts['$PROT'], 'wf_procs_pid(self)', 'excl == old(excl)',
            'clock >= old(clock)', spec.consts['$LOGS'],
            "same_field('Process.pid', 'Process.wid', 'Process.started')",
            'implies(old(found_empty(self)), found_empty(self))',
        ],
        modifies=['process.klog', 'process.naps', 'process.alive_seen', 'process.stopping', 'process.closed', '*'],
        ghost_at={
            'send_signal_process': ["process.klog = process.klog + [sigev(process.pid, args[1], clock, "
                                    "ite(kw_recursive, 2, 1))]"],
            'send_signal': ["process.klog = process.klog + [sigev(args[0], args[1], clock, 0)]"],
            'is_alive': ["process.alive_seen = ite(call_result, process.naps, process.alive_seen)"],
            'tornado_sleep': ["process.naps = process.naps + args[0]"],
        },
        loops={0: Loop(invariant=[
            "waited == process.naps - old(process.naps)", "waited >= 0", "process.stopping",
            "length(process.klog) == %s + 1" % N0,
            "process.klog[%s] == at('loop0_pre', process.klog[%s])" % (N0, N0),
            'forall(INT, lambda i: implies(0 <= i and i < %s, process.klog[i] == old(process.klog)[i]))' % N0,
            "clock >= sig_t(process.klog[%s]) + waited" % N0,
            "wf_procs_pid(self)", "not old(process.stopping)", "process.pid == old(process.pid)",
            "waited <= 0 or waited - real(1) / 10 < as_real(graceful_timeout)",
            "implies(excl, %s)" % spec.consts['$PROT'], "excl == old(excl)", "clock >= old(clock)",
            spec.consts['$LOGS'],
            "same_field('Process.pid', 'Process.wid', 'Process.started')",
            'implies(old(found_empty(self)), found_empty(self))',
        ], variant="as_real(graceful_timeout) - waited", fingerprint='while:waited < graceful_timeout')},
    ))

    # ---- reaping (C09 exit codes, C04 accounting, C02 no zombie) ----------------------------
    spec.ghost('reaplog', List(PUBEV))     # one entry per 'reap' event actually published
    RKEEP = ("(length(reaplog) >= length(old(reaplog)) and forall(INT, lambda i: implies(0 <= i and "
             "i < length(old(reaplog)), reaplog[i] == old(reaplog)[i])))")
    spec.add(Contract(
        'circus.watcher:Watcher.reap_process', params={'pid': INT, 'status': VAL},
        requires=['wf_procs_pid(self)', 'is_none(status) or (is_int(status) and wstatus_ok(as_int(status)))',
                  'pid > 0'],
        ensures=[
            # not ours: nothing happens
            "implies(not (pid in old(self.processes)), reaplog == old(reaplog) and evlog == old(evlog) and "
            "same_field('Watcher.processes') and K_child == old(K_child))",
            # ours: unlisted, exactly one reap event for it
            "implies(pid in old(self.processes), not (pid in self.processes) and "
            "length(reaplog) == length(old(reaplog)) + 1 and ev_pid(last(reaplog)) == pid and "
            "ev_w(last(reaplog)) == ref_id(self))",
            "forall(INT, lambda k: implies(k != pid, (k in self.processes) == (k in old(self.processes)) and "
            "self.processes[k] == old(self.processes)[k]))",
            "len(self.processes) == len(old(self.processes)) - ite(pid in old(self.processes), 1, 0)",
            # exit code of the event: decoded wait status (= how the kernel says the child ended)
            "implies((pid in old(self.processes)) and is_int(status), ev_code(last(reaplog)) == wdecode(as_int(status)))",
            "implies((pid in old(self.processes)) and is_none(status) and (pid in old(K_child)), "
            "ev_code(last(reaplog)) == K_exit[pid])",
            # no zombie: after reaping it is no longer an unreaped child of ours
            "implies((pid in old(self.processes)) and is_none(status), not (pid in K_child))",
            RKEEP, EVKEEP, HKEEP, SIGKEEP, 'kstep()', 'wf_procs_pid(self)', 'clock >= old(clock)',
            "forall(INT, lambda p: implies(p in K_child, p in old(K_child)))",
        ],
        modifies=['self.processes', 'evlog', 'reaplog', 'hooklog', 'clock', 'K_alive', 'K_child', 'siglog',
                  'Process.closed'],
        ghost_at={'notify_event': ["reaplog = ite(args[0] == 'reap', reaplog + [pubev(ref_id(self), 'reap', "
                                   "msg_int(args[1], 'process_pid'), msg_int(args[1], 'exit_code'))], reaplog)"]},
        loops={0: Loop(invariant=[
            "not (pid in self.processes)", "process == old(self.processes)[pid]", "not isnull(process)",
            "pid in old(self.processes)",
            "forall(INT, lambda k: implies(k != pid, (k in self.processes) == (k in old(self.processes)) and "
            "self.processes[k] == old(self.processes)[k]))",
            "reaplog == old(reaplog)", EVKEEP, HKEEP, SIGKEEP, 'kstep()', 'clock >= old(clock)',
            "is_none(status) or (is_int(status) and wstatus_ok(as_int(status)))",
            "implies(is_int(status) and is_none(init(status)), not (pid in K_child) and "
            "wdecode(as_int(status)) == K_exit[pid] and (pid in old(K_child)))",
            "implies(is_int(init(status)), status == init(status))",
            "implies(is_none(status), (pid in K_child) == (pid in old(K_child)))",
            "forall(INT, lambda p: implies(p in K_child, p in old(K_child)))",
            "wf_procs_pid(self)",
        ], fingerprint='while:status is None',
            modifies=['K_alive', 'K_child', 'clock', 'siglog', 'evlog', 'hooklog', 'reaplog', 'Process.closed'])},
    ))

    for nm, val in (('is_stopped', 'stopped'), ('is_stopping', 'stopping'), ('is_active', 'active')):
        spec.add(Contract('circus.watcher:Watcher.%s' % nm, ret=BOOL, modifies=[],
                          ensures=["result == (self._status == '%s')" % val],
                          inline="self._status == '%s'" % val))
    KCH_SHRINK = "forall(INT, lambda p: implies(p in K_child, p in old(K_child)))"
    spec.add(Contract(
        'circus.watcher:Watcher.reap_processes',
        requires=['wf_procs_pid(self)', 'forall(INT, lambda k: implies(k in self.processes, k > 0))'],
        ensures=[
            "implies(old(self._status) == 'stopped', same_field('Watcher.processes') and reaplog == old(reaplog) "
            "and evlog == old(evlog) and K_child == old(K_child))",
            # every listed worker is unlisted, reported by one reap event, and is no longer an unreaped child
            "implies(old(self._status) != 'stopped', len(self.processes) == 0 and "
            "length(reaplog) == length(old(reaplog)) + len(old(self.processes)))",
            "implies(old(self._status) != 'stopped', forall(INT, lambda k: implies(k in old(self.processes), "
            "not (k in K_child))))",
            RKEEP, EVKEEP, HKEEP, SIGKEEP, 'kstep()', KCH_SHRINK, 'wf_procs_pid(self)', "self._status == old(self._status)",
            'clock >= old(clock)',
        ],
        modifies=['self.processes', 'evlog', 'reaplog', 'hooklog', 'clock', 'K_alive', 'K_child', 'siglog',
                  'Process.closed'],
        loops={0: Loop(invariant=[
            "forall(INT, lambda j: implies(loop_i <= j and j < loop_n, (loop_seq[j] in self.processes) and "
            "self.processes[loop_seq[j]] == old(self.processes)[loop_seq[j]]))",
            "forall(INT, lambda j: implies(0 <= j and j < loop_i, not (loop_seq[j] in self.processes) and "
            "not (loop_seq[j] in K_child)))",
            "forall(INT, lambda k: implies(k in self.processes, k in old(self.processes)))",
            "forall(INT, lambda j: implies(0 <= j and j < loop_n, (loop_seq[j] in old(self.processes)) and loop_seq[j] > 0))",
            "len(self.processes) == len(old(self.processes)) - loop_i",
            "length(reaplog) == length(old(reaplog)) + loop_i",
            "loop_n == len(old(self.processes))",
            RKEEP, EVKEEP, HKEEP, SIGKEEP, 'kstep()', KCH_SHRINK, 'wf_procs_pid(self)', "self._status == old(self._status)",
            "self._status != 'stopped'", 'clock >= old(clock)',
        ], fingerprint='for:list(self.processes.keys())',
            modifies=['self.processes', 'evlog', 'reaplog', 'hooklog', 'clock', 'K_alive', 'K_child', 'siglog',
                      'Process.closed'])},
    ))

    # ---- stop (C02) -----------------------------------------------------------------------
    PROT = spec.consts['$PROT']
    prot = spec.consts['$prot']
    spec.add(Contract(
        'circus.watcher:Watcher.get_active_processes', ret=List(Ref('Process')), trusted=True,
        modifies=['K_alive'],
        ensures=['kstep()',
                 "forall(INT, lambda i: implies(0 <= i and i < length(result), not isnull(result[i]) and "
                 "(result[i].pid in self.processes) and self.processes[result[i].pid] == result[i]))",
                 "forall(INT, lambda k: implies((k in self.processes) and (k in K_alive), "
                 "contains(result, self.processes[k])))",
                 'distinct(result)'],
        requires=['wf_procs_pid(self)'],
        note='A-ATOMIC-COMP: [p for p in processes.values() if p.status not in (DEAD_OR_ZOMBIE, UNEXISTING)] '
             'evaluated against one kernel snapshot: listed workers, every live one included'))
    spec.add(Contract(
        'circus.watcher:Watcher.kill_processes', kind='coroutine', rely='held',
        params={'stop_signal': VAL, 'graceful_timeout': VAL},
        requires=['wf_procs_pid(self)', 'is_none(stop_signal) or is_int(stop_signal)',
                  'is_none(graceful_timeout) or is_num(graceful_timeout)', 'self.graceful_timeout >= 0',
                  'implies(is_num(graceful_timeout), as_real(graceful_timeout) >= 0)'],
        ensures=['implies(excl, %s)' % PROT, 'wf_procs_pid(self)', 'excl == old(excl)', 'clock >= old(clock)',
                 spec.consts['$LOGS'], 'implies(old(found_empty(self)), found_empty(self))',
                 "same_field('Process.pid', 'Process.wid', 'Process.started')"],
        modifies=['*']))
    spec.add(Contract('$method.close', params={'self': VAL}, trusted=True, modifies=[],
                      note='A-STREAMS: closing a user stream object returns and does not touch supervisor state'))
    spec.add(Contract('circus.stream.redirector:Redirector.stop', trusted=True, modifies=[],
                      note='placeholder until C17: no effect on the state the lifecycle contracts talk about'))
    spec.add(Contract(
        'circus.watcher:Watcher._stop', kind='coroutine', rely='held', params={'close_output_streams': BOOL},
        requires=['excl', 'wf_w(self)', 'self.graceful_timeout >= 0'],
        ensures=[
            "self._status == 'stopped'",
            ('stopped-noop', "implies(old(self._status) == 'stopped', same_heap())"),
            "implies(old(self._status) == 'stopped', self.processes == old(self.processes) and "
            "len(self.processes) == len(old(self.processes)))",
            # every worker the watcher listed is unlisted and has been reaped (no survivor, no zombie)
            "implies(old(self._status) != 'stopped', len(self.processes) == 0)",
            "implies(old(self._status) != 'stopped', forall(INT, lambda k: implies(k in old(self.processes), "
            "not (k in K_child))))",
            'wf_procs_pid(self)', 'excl', 'wf_w(self)',
            ('others-untouched', "forall(Ref('Watcher'), lambda w: implies(w != self, w._status == old(w._status) and "
             "w.numprocesses == old(w.numprocesses) and w.processes == old(w.processes) and len(w.processes) == len(old(w.processes))))"),
            # nothing but this watcher's table and status changes among the protected state; nothing is spawned
            prot(exc=('Watcher.processes', 'Watcher._status', 'Watcher.stream_redirector', 'reaplog')),
            spec.consts['$LOGS'],
            'clock >= old(clock)',
            'implies(old(found_empty(self)), found_empty(self))',
            "same_field('Process.pid', 'Process.wid')",
        ],
        seq_only=('stopped-noop', 'others-untouched'),
        modifies=['*']))

    # ---- spawning (C01, C04, C09, C13 wid invariant, C14 gates) ----------------------------------
    SPKEEP = spec.consts['$SPKEEP']
    spec.ghost('spevlog', List(PUBEV))     # one entry per 'spawn' event handed to notify_event
    spec.pred('is_false', [('v', VAL)], "is_bool(v) and not as_bool(v)")
    spec.pred('is_true', [('v', VAL)], "is_bool(v) and as_bool(v)")
    spec.pred('wf_w', [('w', Ref('Watcher'))],
              "wf_procs_pid(w) and w.numprocesses >= 0 and "
              "forall(INT, lambda k: implies(k in w.processes, k > 0 and w.processes[k].wid >= 1 and allocated(w.processes[k])))")
    spec.pred('wids_distinct', [('w', Ref('Watcher'))],
              "forall(INT, INT, lambda a, b: implies((a in w.processes) and (b in w.processes) and a != b, "
              "w.processes[a].wid != w.processes[b].wid))")
    spec.add(Contract('circus.util:replace_gnu_args', params={'data': VAL, 'prefix': VAL, 'options': Dict(STR, VAL)},
                      ret=STR, trusted=True, modifies=[], requires=['is_str(data)'],
                      note='placeholder until C13 puts replace_gnu_args under contract: pure, returns a str'))
    spec.add(Contract('circus.stream.redirector:Redirector.start', trusted=True, modifies=[], ret=INT))
    spec.add(Contract('circus.stream.redirector:Redirector.add_redirections', params={'process': Ref('Process')},
                      trusted=True, modifies=[]))
    # synchronous prefix of kill_process when its future is dropped (spawn_process, after_spawn failure)
    kp = spec.contracts['circus.watcher:Watcher.kill_process']
    kp.detached = Contract(
        'circus.watcher:Watcher.kill_process', params=kp.params, requires=[],
        ensures=[PROT, 'wf_procs_pid(self)', SIGKEEP, EVKEEP, HKEEP, 'kstep()', 'clock >= old(clock)',
                 'K_child == old(K_child)', 'spawnlog == old(spawnlog)', 'spevlog == old(spevlog)',
                 'reaplog == old(reaplog)', 'excl == old(excl)',
                 "forall(Ref('Process'), lambda q: implies(q != process, q.stopping == old(q.stopping) and "
                 "q.closed == old(q.closed) and q.klog == old(q.klog)))",
                 "same_field('Process.pid', 'Process.wid', 'Process.started')"],
        modifies=['process.klog', 'process.naps', 'process.alive_seen', 'process.stopping', 'process.closed',
                  'siglog', 'evlog', 'hooklog', 'clock', 'K_alive'])
    GATE_BS = "ite('before_spawn' in old(self.hooks), ev_pid(hooklog[length(old(hooklog))]) == 1, True)"
    NEWPID = "sig_pid(last(spawnlog))"
    spec.add(Contract(
        'circus.watcher:Watcher.spawn_process', params={'recovery_wid': VAL}, ret=VAL,
        requires=['wf_w(self)', 'is_none(recovery_wid)', 'is_str(self.cmd)'],
        ensures=[
            # a stopped watcher never spawns (C02)
            "implies(old(self._status) == 'stopped', is_true(result) and same_heap())",
            'length(spawnlog) <= length(old(spawnlog)) + 1', SPKEEP,
            "implies(length(spawnlog) == length(old(spawnlog)) + 1, sig_mode(last(spawnlog)) == ref_id(self) and "
            "sig_t(last(spawnlog)) >= old(clock) and sig_t(last(spawnlog)) <= clock)",
            # success: exactly one new child, registered under its pid, with a fresh positive wid
            "implies(is_real(result), length(spawnlog) == length(old(spawnlog)) + 1 and (%s in self.processes) and "
            "not (%s in old(self.processes)) and self.processes[%s].pid == %s and "
            "self.processes[%s].wid == sig_num(last(spawnlog)) and self.processes[%s].started == as_real(result) "
            "and sig_mode(last(spawnlog)) == ref_id(self))" % ((NEWPID,) * 6),
            "implies(is_real(result), forall(INT, lambda k: implies(k != %s, (k in self.processes) == "
            "(k in old(self.processes)) and self.processes[k] == old(self.processes)[k])))" % NEWPID,
            "implies(is_real(result), len(self.processes) == len(old(self.processes)) + 1)",
            # the new worker id is not used by any other listed worker (C13: ids unique among live workers)
            "implies(is_real(result), forall(INT, lambda k: implies(k in old(self.processes), "
            "old(self.processes)[k].wid != self.processes[%s].wid)) and self.processes[%s].wid >= 1)" % (NEWPID, NEWPID),
            "implies(is_real(result), sig_t(last(spawnlog)) == as_real(result) and as_real(result) <= clock and "
            "as_real(result) >= old(clock))",
            "clock >= old(clock)",
            "implies(is_real(result), wf_w(self))",
            # anything else: the table is as before
            "implies(not is_real(result), forall(INT, lambda k: (k in self.processes) == (k in old(self.processes)) "
            "and implies(k in self.processes, self.processes[k] == old(self.processes)[k])) and "
            "len(self.processes) == len(old(self.processes)))",
            "is_real(result) or is_false(result) or (is_true(result) and old(self._status) == 'stopped')",
            # before_spawn gate (C14): a falsy hook means no process is created
            "implies(old(self._status) != 'stopped' and not %s, is_false(result) and spawnlog == old(spawnlog))" % GATE_BS,
            # exactly one spawn event, for the new pid, iff a start time is returned (C09)
            "implies(is_real(result), length(spevlog) == length(old(spevlog)) + 1 and ev_pid(last(spevlog)) == %s)" % NEWPID,
            "implies(not is_real(result), spevlog == old(spevlog))",
            # accounting (C04): a child created by this call is listed when the call returns
            ('accounted', "forall(INT, lambda p: implies((p in K_child) and not (p in old(K_child)), p in self.processes))"),
            "forall(INT, lambda p: implies(p in old(K_child), p in K_child))",
            prot(exc=('Watcher.processes', 'spawnlog', 'spevlog', 'K_child')), 'excl == old(excl)',
            "forall(Ref('Watcher'), lambda w: implies(w != self, w.processes == old(w.processes) and len(w.processes) == len(old(w.processes))))",
            spec.consts['$LOGS'],
            # the same accounting clause outside the known finding F-21 (after_spawn hook falsy / raising)
            "implies(forall(INT, lambda i: implies(length(old(hooklog)) <= i and i < length(hooklog), "
            "not (ev_topic(hooklog[i]) == 'after_spawn' and ev_pid(hooklog[i]) == 0))), "
            "forall(INT, lambda p: implies((p in K_child) and not (p in old(K_child)), p in self.processes)))",
        ],
        raises={'RuntimeError': ["forall(INT, lambda y: implies(1 <= y and y <= 2 * self.numprocesses, "
                                 "exists(INT, lambda k: (k in self.processes) and self.processes[k].wid == y)))",
                                 'spawnlog == old(spawnlog)', "same_field('Watcher.processes')"]},
        modifies=['self.processes', 'spawnlog', 'spevlog', 'evlog', 'hooklog', 'clock', 'K_alive', 'K_child',
                  'siglog', 'new:Process', 'Process.klog', 'Process.naps', 'Process.alive_seen',
                  'Process.stopping', 'Process.closed'],
        ghost_at={'notify_event': ["spevlog = ite(args[0] == 'spawn', spevlog + [pubev(ref_id(self), 'spawn', "
                                   "msg_int(args[1], 'process_pid'), 0)], spevlog)"]},
        # C13: the worker is constructed from the watcher's configured values (cmd after variable substitution)
        call_requires={'__init__': [
            ('configured-command', "arg_cmd == val(cmd) and arg_args == self.args"),
            ('configured-dir-env', "arg_working_dir == self.working_dir and arg_env == self.env"),
            ('configured-identity', "arg_uid == self.uid and arg_gid == self.gid and arg_shell == self.shell and "
                                    "arg_rlimits == self.rlimits"),
            ('sockets-only-with-use-sockets', "arg_use_fds == val(self.use_sockets) and arg_watcher == self"),
        ]},
        loops={0: Loop(invariant=[
            'spawnlog == old(spawnlog)', "same_field('Watcher.processes')", 'nb_tries >= 0',
            'spevlog == old(spevlog)', 'K_child == old(K_child)', 'wf_w(self)', 'kstep()',
            "self._status != 'stopped'", 'is_none(recovery_wid)', 'clock >= old(clock)',
            "implies('before_spawn' in old(self.hooks), length(hooklog) > length(old(hooklog)) and "
            "ev_pid(hooklog[length(old(hooklog))]) == 1 and forall(INT, lambda i: implies(0 <= i and "
            "i < length(old(hooklog)), hooklog[i] == old(hooklog)[i])))",
            prot(exc=('Watcher.processes', 'spawnlog', 'spevlog', 'K_child')), 'excl == old(excl)', spec.consts['$LOGS'],
        ] + ["forall(Ref('Process'), lambda q: implies(at('loop0_pre', allocated(q)), same(q.%s, at('loop0_pre', q.%s))))"
             % (f, f) for f in sorted(spec.classes['Process'].fields)] + [
        ], variant_opt='self.max_retry - nb_tries',
            fingerprint='while:nb_tries < self.max_retry or self.max_retry == -1',
            # only failed creation attempts come back to the loop head
            modifies=['K_alive', 'clock', 'new:Process', 'Process.*'])},
    ))

    # ---- spawn_processes / _start (C01 count, C14 start gates, C19 pacing) -----------------------
    spec.add(Contract('circus.watcher:Watcher.pending_socket_event', kind='property', ret=BOOL, modifies=[],
                      requires=['not isnull(self.arbiter)'],
                      ensures=['result == (self.on_demand and not self.arbiter.socket_event)'],
                      inline='self.on_demand and not self.arbiter.socket_event'))
    MINE = ("forall(INT, lambda i: implies(length(old(spawnlog)) <= i and i < length(spawnlog), "
            "sig_mode(spawnlog[i]) == ref_id(self)))")
    PACED = ("forall(INT, lambda i: implies(length(old(spawnlog)) <= i and i + 1 < length(spawnlog), "
             "sig_t(spawnlog[i + 1]) >= sig_t(spawnlog[i]) + old(self.warmup_delay)))")
    TIMED = ("forall(INT, lambda i: implies(length(old(spawnlog)) <= i and i < length(spawnlog), "
             "sig_t(spawnlog[i]) >= old(clock) and sig_t(spawnlog[i]) <= clock))")
    spec.consts['$TIMED'] = TIMED
    LIFE_REQ = ['excl', 'wf_w(self)', 'not self.on_demand', 'not isnull(self.arbiter)',
                'found_empty(self)', 'is_str(self.cmd)',
                'self.warmup_delay >= 0', 'self.graceful_timeout >= 0']
    spec.add(Contract(
        'circus.watcher:Watcher.spawn_processes', kind='coroutine', rely='held',
        requires=LIFE_REQ + ["self._status != 'stopped'"],
        ensures=[
            SPKEEP, MINE, PACED, ('spawns-timed', TIMED), 'excl',
            # a stopped watcher spawns nothing
            "implies(old(self._status) == 'stopped', spawnlog == old(spawnlog) and same_field('Watcher.processes') "
            "and self._status == 'stopped')",
            # otherwise either the deficit is filled exactly, or a spawn failed and the watcher was stopped
            "implies(old(self._status) != 'stopped' and self._status != 'stopped', "
            "len(self.processes) == ite(len(old(self.processes)) < old(self.numprocesses), old(self.numprocesses), "
            "len(old(self.processes))))",
            "implies(old(self._status) != 'stopped' and self._status != 'stopped', "
            "length(spawnlog) - length(old(spawnlog)) == len(self.processes) - len(old(self.processes)))",
            "implies(self._status == 'stopped' and old(self._status) != 'stopped', len(self.processes) == 0)",
            "self._status == old(self._status) or self._status == 'stopped'",
            "implies(self._status != 'stopped', forall(INT, lambda k: implies(k in old(self.processes), "
            "(k in self.processes) and self.processes[k] == old(self.processes)[k])))",
            'wf_w(self)', 'self.numprocesses == old(self.numprocesses)',
            prot(exc=('Watcher.processes', 'Watcher._status', 'Watcher.stream_redirector', 'Watcher._found_wids',
                      'spawnlog', 'spevlog', 'reaplog', 'K_child')),
            "implies(self._status != 'stopped', reaplog == old(reaplog))", spec.consts['$LOGS'],
            'found_empty(self)', 'clock >= old(clock)', "forall(Ref('Process'), lambda q: implies(old(allocated(q)), q.pid == old(q.pid) and q.wid == old(q.wid)))",
            "forall(Ref('Watcher'), lambda w: implies(w != self, w.processes == old(w.processes) and len(w.processes) == len(old(w.processes)) and w._status == old(w._status) and w._found_wids == old(w._found_wids)))",
        ],
        raises={'RuntimeError': []},
        modifies=['*'],
        loops={
            0: Loop(invariant=['loop_n == 0'], fingerprint='for:self._found_wids', modifies=[]),
            1: Loop(invariant=[
                SPKEEP, MINE, PACED, TIMED, 'excl', 'wf_w(self)',
                "self._status == old(self._status)", "self._status != 'stopped' or loop_i == 0 or True",
                "implies(old(self._status) != 'stopped', len(self.processes) == len(old(self.processes)) + loop_i and "
                "length(spawnlog) == length(old(spawnlog)) + loop_i)",
                "implies(old(self._status) == 'stopped', spawnlog == old(spawnlog) and same_field('Watcher.processes'))",
                "loop_n == ite(len(old(self.processes)) < old(self.numprocesses), "
                "old(self.numprocesses) - len(old(self.processes)), 0)",
                "forall(INT, lambda k: implies(k in old(self.processes), (k in self.processes) and "
                "self.processes[k] == old(self.processes)[k]))",
                # pacing: the next spawn cannot happen before the last one plus warmup_delay
                "implies(length(spawnlog) > length(old(spawnlog)), clock >= sig_t(last(spawnlog)) + old(self.warmup_delay))",
                "self.numprocesses == old(self.numprocesses)", "self.warmup_delay == old(self.warmup_delay)",
                "not self.on_demand", "not isnull(self.arbiter)", "is_str(self.cmd)", "self.graceful_timeout >= 0",
                'clock >= old(clock)', 'reaplog == old(reaplog)', spec.consts['$LOGS'], 'found_empty(self)', "forall(Ref('Process'), lambda q: implies(old(allocated(q)), q.pid == old(q.pid) and q.wid == old(q.wid)))",
                "forall(Ref('Watcher'), lambda w: implies(w != self, w.processes == old(w.processes) and len(w.processes) == len(old(w.processes)) and w._status == old(w._status) and w._found_wids == old(w._found_wids)))",
                prot(exc=('Watcher.processes', 'Watcher._found_wids', 'spawnlog', 'spevlog', 'reaplog', 'K_child')),
            ], fingerprint='for:range(self.numprocesses - len(self.processes))'),
        },
    ))

    # ---- _start (C14 start gates, C09 start event, C19) ---------------------------------------
    spec.add(Contract('$method.open', params={'self': VAL}, trusted=True, modifies=[],
                      note='A-STREAMS: (re)opening a user stream object returns and does not touch supervisor state'))
    spec.add(Contract('circus.watcher:Watcher._create_redirectors', trusted=True,
                      modifies=['self.stream_redirector', 'new:Redirector'],
                      note='placeholder until C17: replaces the redirector object only'))
    HK0 = "length(old(hooklog))"
    BEFORE_START_FALSY = ("('before_start' in old(self.hooks)) and ev_pid(hooklog[%s]) == 0 and "
                          "ev_topic(hooklog[%s]) == 'before_start'" % (HK0, HK0))
    spec.add(Contract(
        'circus.watcher:Watcher._start', kind='coroutine', rely='held',
        requires=LIFE_REQ + ["implies(self._status == 'stopped', len(self.processes) == 0)",
                             "self._status == 'stopped' or self._status == 'active'"],
        ensures=[
            SPKEEP, MINE, PACED, ('spawns-timed', TIMED), 'clock >= old(clock)', 'excl', 'wf_w(self)',
            # a start from stopped ends active or stopped (never in a transient status)
            "implies(old(self._status) == 'stopped', self._status == 'active' or self._status == 'stopped')",
            # before_start gate: falsy (or failing) hook => nothing is spawned, still stopped
            "implies(old(self._status) == 'stopped' and %s, self._status == 'stopped' and "
            "spawnlog == old(spawnlog) and len(self.processes) == 0)" % BEFORE_START_FALSY,
            # an aborted start leaves no listed worker
            "implies(self._status == 'stopped', len(self.processes) == 0)",
            # success: exactly numprocesses workers, all spawned by this start
            "implies(old(self._status) == 'stopped' and self._status == 'active', "
            "len(self.processes) == self.numprocesses and "
            "length(spawnlog) - length(old(spawnlog)) == self.numprocesses and self.numprocesses > 0)",
            # the start event is published iff the start succeeded
            "implies(old(self._status) == 'stopped' and self._status == 'active', "
            "length(startlog) == length(old(startlog)) + 1)",
            "implies(self._status != 'active' or old(self._status) != 'stopped', startlog == old(startlog))",
            'self.numprocesses == old(self.numprocesses)',
            # nothing protected changes but this watcher's own table / status / redirector (C19 arbiter level)
            prot(exc=('Watcher.processes', 'Watcher._status', 'Watcher.stream_redirector', 'Watcher._found_wids',
                      'spawnlog', 'spevlog', 'reaplog', 'startlog', 'K_child')),
            ('others-untouched', "forall(Ref('Watcher'), lambda w: implies(w != self, w.processes == old(w.processes) and len(w.processes) == len(old(w.processes)) and "
             "w._status == old(w._status) and w._found_wids == old(w._found_wids)))"),
            spec.consts['$LOGS'], 'found_empty(self)', "forall(Ref('Process'), lambda q: implies(old(allocated(q)), q.pid == old(q.pid) and q.wid == old(q.wid)))",
        ],
        seq_only=('others-untouched',),
        raises={'RuntimeError': []},
        modifies=['*'],
        ghost_at={'notify_event': ["startlog = ite(args[0] == 'start', startlog + [pubev(ref_id(self), 'start', 0, 0)], startlog)"]},
    ))
