from pyvc.tys import *   # noqa
from pyvc.spec import *   # noqa


def declare(spec):
    spec.pred('wf_procs', [('w', Ref('Watcher'))],
              "w.numprocesses >= 0 and forall(INT, lambda k: implies(k in w.processes, not isnull(w.processes[k])))")
    spec.add(Contract(
        'circus.watcher:Watcher._nextwid', kind='property', ret=INT,
        requires=['wf_procs(self)'],
        ensures=[
            'result >= 1',
            'result <= 2 * self.numprocesses',
            'forall(INT, lambda k: implies(k in self.processes, self.processes[k].wid != result))',
            'forall(INT, lambda y: implies(1 <= y and y < result, exists(INT, lambda k: k in self.processes and self.processes[k].wid == y)))',
        ],
        raises={'RuntimeError': [
            'forall(INT, lambda y: implies(1 <= y and y <= 2 * self.numprocesses, exists(INT, lambda k: k in self.processes and self.processes[k].wid == y)))',
        ]},
        modifies=[],
        must_fail=['result >= 2', 'forall(INT, lambda y: implies(1 <= y and y <= result, exists(INT, lambda k: k in self.processes and self.processes[k].wid == y)))'],
    ))
