from pyvc.tys import *   # noqa
from pyvc.spec import *   # noqa


def declare(spec):
    spec.pred('wf_procs', [('w', Ref('Watcher'))],
              "w.numprocesses >= 0 and forall(INT, lambda k: implies(k in w.processes, not isnull(w.processes[k])))")
    spec.add(Contract(
        'circus.watcher:Watcher._nextwid', kind='property', ret=INT,
        requires=['wf_procs(self)'],
        ensures=[
            'result >= 1',
            'result <= 2 * self.numprocesses',
            'forall(INT, lambda k: implies(k in self.processes, self.processes[k].wid != result))',
            'forall(INT, lambda y: implies(1 <= y and y < result, exists(INT, lambda k: k in self.processes and self.processes[k].wid == y)))',
        ],
        raises={'RuntimeError': [
            'forall(INT, lambda y: implies(1 <= y and y <= 2 * self.numprocesses, exists(INT, lambda k: k in self.processes and self.processes[k].wid == y)))',
        ]},
        modifies=[],
        must_fail=['result >= 2', 'forall(INT, lambda y: implies(1 <= y and y <= result, exists(INT, lambda k: k in self.processes and self.processes[k].wid == y)))'],
    ))

    # ---- events (ghost evlog: one entry per message actually handed to the PUB socket)
    spec.add(Contract('$PubSocket.send_multipart', params={'self': Ref('PubSocket'), 'parts': VAL},
                      trusted=True, modifies=[], raises={'ZMQError': []},
                      note='T-ZMQ: delivers the message or raises ZMQError; the ghost evlog entry is '
                           'attached at this call by Watcher.notify_event (ghost_at)'))
    spec.add(Contract('zmq.utils.jsonapi:dumps', params={'o': VAL}, ret=BYTES, trusted=True, modifies=[],
                      raises={'TypeError': []}, note='T-STDLIB json.dumps: bytes or TypeError'))
    spec.pred('msg_int', [('msg', Dict(STR, VAL)), ('k', STR)],
              "ite(k in msg and is_int(msg[k]), as_int(msg[k]), -1)", ret=INT)
    spec.add(Contract(
        'circus.watcher:Watcher.notify_event', params={'topic': STR, 'msg': Dict(STR, VAL)},
        requires=[],
        ensures=["implies(not isnull(self.evpub_socket) and not self.evpub_socket.closed, "
                 "length(evlog) == length(old(evlog)) + 1 and last(evlog) == "
                 "pubev(ref_id(self), topic, msg_int(msg, 'process_pid'), msg_int(msg, 'exit_code')))",
                 "forall(INT, lambda i: implies(0 <= i and i < length(old(evlog)), evlog[i] == old(evlog)[i]))",
                 "implies(isnull(self.evpub_socket) or self.evpub_socket.closed, evlog == old(evlog))"],
        raises={'ZMQError': ['evlog == old(evlog)'], 'TypeError': ['evlog == old(evlog)']},
        modifies=['evlog'], exc_modifies=[],
        ghost_at={'send_multipart': ["evlog = evlog + [pubev(ref_id(self), topic, "
                                     "msg_int(msg, 'process_pid'), msg_int(msg, 'exit_code'))]"]},
    ))
    spec.add(Contract('circus.watcher:Watcher.initialize',
                      params={'evpub_socket': Ref('PubSocket'), 'sockets': VAL, 'arbiter': Ref('Arbiter')},
                      ensures=['self.evpub_socket == evpub_socket', 'self.sockets == sockets',
                               'self.arbiter == arbiter'],
                      modifies=['self.evpub_socket', 'self.sockets', 'self.arbiter']))
    spec.add(Contract('circus.watcher:Watcher.status', ret=STR, ensures=['result == self._status'],
                      modifies=[], inline='self._status'))
    spec.add(Contract('circus.watcher:Watcher.__len__', ret=INT,
                      ensures=['result == len(self.processes)'], modifies=[], inline='len(self.processes)'))
    spec.add(Contract(
        'circus.watcher:Watcher.__init__', params={'name': VAL, 'cmd': VAL, 'options': Dict(STR, VAL)},
        trusted=True,
        ensures=['is_str(name)', 'self.name == as_str(name)', "self._status == 'stopped'",
                 'len(self.processes) == 0', 'isnull(self.arbiter)', 'isnull(self.evpub_socket)'],
        raises={'*': []}, modifies=['self.*'], exc_modifies=['self.*'],
        note='constructor: initialises only the new object (70 lines of option plumbing, not verified); '
             'any exception for ill-typed arguments'))
