"""T-STDLIB model of the `re` calls that functions under contract make.

Only the literal patterns listed in MODELS are modelled (anything else is OutOfSubset -> the
check reports undecided and the bounded falsifier is consulted).  \\w and \\d are the ASCII
classes (A-ASCII: non-ASCII alphanumerics are outside the model).

Model of  (\\w+)(\\+(\\d+))?   applied at position 0 of s (greedy, no backtracking is possible because
'+' is not a word character and the optional group is all-or-nothing):
   g1(s)  maximal non-empty \\w prefix          rest(s)  = s[len(g1):]
   has3(s) = rest starts with '+' followed by a digit
   g3(s)  maximal digit run after the '+'      rest2(s) = what follows it
   full(s) = the whole string is consumed
The groups are uninterpreted FUNCTIONS of s, so contracts can name them (ufn('re_g1', STR, s)).
"""
import z3

S = z3.StringSort()
B = z3.BoolSort()


def _cls_w():
    return z3.Union(z3.Range('a', 'z'), z3.Range('A', 'Z'), z3.Range('0', '9'), z3.Re('_'))


def _cls_d():
    return z3.Range('0', '9')


G1 = z3.Function('u_re_g1', S, S)
REST = z3.Function('u_re_rest', S, S)
HAS3 = z3.Function('u_re_has3', S, B)
G3 = z3.Function('u_re_g3', S, S)
REST2 = z3.Function('u_re_rest2', S, S)
FULL = z3.Function('u_re_sig_full', S, B)

SIG_PATTERN = r'(\w+)(\+(\d+))?'
MODELS = {
    ('match', SIG_PATTERN): 'prefix',
    ('fullmatch', SIG_PATTERN): 'full',
    ('match', SIG_PATTERN + '$'): 'full_nl',      # '$' also matches before a trailing newline
    ('match', '^' + SIG_PATTERN + '$'): 'full_nl',
}


def sig_facts(s):
    """-> (first_is_word, facts) for the string term s"""
    W, D = _cls_w(), _cls_d()
    first = z3.And(z3.Length(s) > 0, z3.InRe(z3.SubString(s, 0, 1), W))
    g1, rest, has3, g3, rest2, full = G1(s), REST(s), HAS3(s), G3(s), REST2(s), FULL(s)
    facts = [
        z3.Implies(first, z3.And(
            s == z3.Concat(g1, rest), z3.InRe(g1, z3.Plus(W)),
            z3.Or(rest == z3.StringVal(''), z3.Not(z3.InRe(z3.SubString(rest, 0, 1), W))),
            has3 == z3.And(z3.PrefixOf(z3.StringVal('+'), rest), z3.InRe(z3.SubString(rest, 1, 1), D)),
            z3.Implies(has3, z3.And(
                rest == z3.Concat(z3.StringVal('+'), g3, rest2), z3.InRe(g3, z3.Plus(D)),
                z3.StrToInt(g3) >= 0,
                z3.Or(rest2 == z3.StringVal(''), z3.Not(z3.InRe(z3.SubString(rest2, 0, 1), D))))),
            full == z3.Or(rest == z3.StringVal(''), z3.And(has3, rest2 == z3.StringVal(''))))),
        z3.Implies(z3.Not(first), z3.Not(full)),
    ]
    return first, facts


def to_z3re(pat):
    """tiny regex -> z3 regex translator for spec in_re(): literals, \\w \\d, + * ?, (), |"""
    pos = [0]

    def atom():
        c = pat[pos[0]]
        if c == '(':
            pos[0] += 1
            r = alt()
            assert pat[pos[0]] == ')'
            pos[0] += 1
            return r
        if c == '\\':
            d = pat[pos[0] + 1]
            pos[0] += 2
            if d == 'w':
                return _cls_w()
            if d == 'd':
                return _cls_d()
            return z3.Re(d)
        pos[0] += 1
        return z3.Re(c)

    def rep():
        a = atom()
        while pos[0] < len(pat) and pat[pos[0]] in '+*?':
            a = {'+': z3.Plus, '*': z3.Star, '?': z3.Option}[pat[pos[0]]](a)
            pos[0] += 1
        return a

    def seq():
        items = []
        while pos[0] < len(pat) and pat[pos[0]] not in '|)':
            items.append(rep())
        if not items:
            return z3.Re('')
        return z3.Concat(*items) if len(items) > 1 else items[0]

    def alt():
        a = seq()
        while pos[0] < len(pat) and pat[pos[0]] == '|':
            pos[0] += 1
            a = z3.Union(a, seq())
        return a
    return alt()
