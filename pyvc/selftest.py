"""Self-test: deliberate property-breaking edits of a scratch copy of /repo must each be reported as a VIOLATION (exit 1)
by the check of the property they target, and the unchanged copy must pass (exit 0).  Never touches /repo.

usage: ./vf selftest [Cnn ...]        (default: every mutant; takes long -- one full check per mutant)
"""
import os
import shutil
import subprocess
import sys
import tempfile

HERE = os.path.dirname(os.path.dirname(os.path.abspath(__file__)))
REPO = os.environ.get('PYVC_REPO', '/repo')

# (property, file under circus/, old text, new text, what it breaks)
MUTANTS = [
    ('C13', 'watcher.py', 'all_wids = set(range(1, self.numprocesses * 2 + 1))',
     'all_wids = set(range(0, self.numprocesses * 2 + 1))', 'worker ids start at 0'),
    ('C20', 'stream/file_stream.py', 'if self._file.tell() + len(raw_data) >= self._max_bytes:',
     'if self._file.tell() + len(raw_data) > self._max_bytes:', 'rollover one byte late'),
    ('C15', 'arbiter.py', 'if name.lower() in self._watchers_names:', 'if name in self._watchers_names:',
     'duplicate names differing in case accepted'),
    ('C11', 'controller.py', '            cmd.validate(properties)\n            resp = cmd.execute(self.arbiter, properties)',
     '            resp = cmd.execute(self.arbiter, properties)\n            cmd.validate(properties)',
     'execute before validate'),
    ('C11', 'commands/set.py', '        for key, val in options.items():\n            validate_option(key, val)',
     '        for key, val in options.items():\n            validate_option(key, val)\n            break',
     'only the first option validated'),
    ('C01', 'watcher.py', 'if len(self.processes) < self.numprocesses and not self.is_stopping():',
     'if len(self.processes) <= self.numprocesses and not self.is_stopping():', 'converged state is not a fixpoint'),
    ('C05', 'watcher.py', 'os.waitpid(pid, os.WNOHANG)', 'os.waitpid(pid, 0)', 'blocking waitpid'),
    ('C17', 'stream/redirector.py', "datamap = {'data': data, 'pid': self.process.pid,",
     "datamap = {'data': data, 'pid': os.getpid(),", 'output labelled with the daemon pid'),
    ('C07', 'process.py', 'env=self.env, close_fds=not self.use_fds,', 'env=self.env, close_fds=False,',
     'descriptors leak into every worker'),
    ('C08', 'pidfile.py', '                if wpid <= 0:', '                if not wpid:', 'negative pid probes a process group'),
    ('C18', 'commands/kill.py', 'processes = [p for p in processes if p.pid == pid]',
     'processes = [p for p in processes if p.pid >= pid]', 'kill reaches other workers than the given pid'),
    ('C18', 'process.py', 'return self.poll() is None', 'return self.poll() is not None', 'is_alive inverted'),
    ('C02', 'process.py', 'return self._worker.terminate()', 'return self._worker.kill()',
     'Process.stop sends SIGKILL instead of SIGTERM'),
    ('C02', 'watcher.py', '        elif not self.is_stopped():\n            # graceful restart',
     '        elif num == 1:\n            # graceful restart', 'a set request restarts a stopped watcher'),
    ('C14', 'watcher.py', "signum == signal.SIGKILL", "signum is signal.SIGKILL",
     'an integer 9 is no longer exempt from a false before_signal hook'),
    ('C09', 'watcher.py', '("watcher.%s.%s" % (name, topic)).encode', '("watcher.%s.%s" % (topic, name)).encode',
     'event topic fields swapped'),
]


def scratch_copy():
    d = tempfile.mkdtemp(prefix='pyvc_selftest_')
    shutil.copytree(os.path.join(REPO, 'circus'), os.path.join(d, 'circus'))
    return d


def run_check(pid, tree):
    pr = subprocess.run([os.path.join(HERE, 'vf'), 'check', pid], capture_output=True, text=True,
                        env=dict(os.environ, PYVC_REPO=tree), cwd=HERE)
    lines = [l for l in pr.stdout.splitlines() if l.startswith(('VIOLATION', 'UNDECIDED', 'CHECKER'))]
    return pr.returncode, lines


def main(argv):
    want = set(argv)
    bad = 0
    for pid, rel, old, new, what in MUTANTS:
        if want and pid not in want:
            continue
        d = scratch_copy()
        try:
            p = os.path.join(d, 'circus', rel)
            src = open(p).read()
            if old not in src:
                print('SELFTEST-SKIP %s: pattern not found in %s (source changed)' % (pid, rel))
                continue
            open(p, 'w').write(src.replace(old, new, 1))
            code, lines = run_check(pid, d)
            ok = (code == 1)
            print('SELFTEST %s %s: %s -> exit %d %s' % ('ok' if ok else 'MISSED', pid, what, code,
                                                        (lines[0][:140] if lines else '')))
            if not ok:
                bad += 1
        finally:
            shutil.rmtree(d, ignore_errors=True)
    return 1 if bad else 0


if __name__ == '__main__':
    sys.exit(main(sys.argv[1:]))
