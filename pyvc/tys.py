"""Types and symbolic values of the pyvc VC generator.

Every Python value that the executor manipulates is an SV: a static type tag
plus a tuple of z3 terms ("components").  Scalars have one component,
containers several (a dict is keys-array, value-array(s), size).  Objects are
references (z3 Int ids, 0 = None) into per-field heap arrays.  Dynamically
typed data (JSON, optional scalars) is the z3 datatype Val.
"""
import z3


class Ty(object):
    def __eq__(self, o):
        return type(self) is type(o) and self.key() == o.key()

    def __ne__(self, o):
        return not self.__eq__(o)

    def __hash__(self):
        return hash((type(self).__name__, self.key()))

    def key(self):
        return ()

    def __repr__(self):
        k = self.key()
        return type(self).__name__ + (repr(k) if k else '')


class TPrim(Ty):
    def __init__(self, name):
        self.name = name

    def key(self):
        return (self.name,)

    def __repr__(self):
        return self.name.upper()


INT = TPrim('int')
BOOL = TPrim('bool')
REAL = TPrim('real')
STR = TPrim('str')
BYTES = TPrim('bytes')     # modelled as a z3 String of byte-chars
PATH = TPrim('path')     # file-system path: only equality and numbering matter (uninterpreted sort)
PStr = z3.DeclareSort('PStr')
NONE = TPrim('none')
VAL = TPrim('val')         # dynamic
EXC = TPrim('exc')         # python-side exception object (never stored in z3)
PY = TPrim('py')           # python-side meta object (module, function, class, closure)


class TRef(Ty):
    def __init__(self, cls):
        self.cls = cls

    def key(self):
        return (self.cls,)

    def __repr__(self):
        return 'Ref(%s)' % self.cls


class TList(Ty):
    def __init__(self, elem):
        self.elem = elem

    def key(self):
        return (self.elem,)


class TSet(Ty):
    def __init__(self, elem):
        self.elem = elem

    def key(self):
        return (self.elem,)


class TDict(Ty):
    def __init__(self, k, v):
        self.k = k
        self.v = v

    def key(self):
        return (self.k, self.v)


class TTuple(Ty):
    def __init__(self, elems):
        self.elems = tuple(elems)

    def key(self):
        return self.elems


def Ref(cls):
    return TRef(cls)


def List(e):
    return TList(e)


def Set(e):
    return TSet(e)


def Dict(k, v):
    return TDict(k, v)


def Tuple(*e):
    return TTuple(e)


# ---------------------------------------------------------------- Val datatype
def _mk_val():
    d = z3.Datatype('Val')
    d.declare('VNone')
    d.declare('VBool', ('vb', z3.BoolSort()))
    d.declare('VInt', ('vi', z3.IntSort()))
    d.declare('VReal', ('vr', z3.RealSort()))
    d.declare('VStr', ('vs', z3.StringSort()))
    d.declare('VBytes', ('vy', z3.StringSort()))
    d.declare('VList', ('vl', z3.IntSort()))     # id into the vlist heap
    d.declare('VObj', ('vo', z3.IntSort()))      # id into the vobj heap (JSON object / dict)
    d.declare('VRef', ('vx', z3.IntSort()))      # any other python object (callable, instance...)
    return d.create()


Val = _mk_val()


def _mk_sig():
    d = z3.Datatype('SigEv')
    d.declare('mk_sig', ('sg_pid', z3.IntSort()), ('sg_num', z3.IntSort()),
              ('sg_t', z3.RealSort()), ('sg_mode', z3.IntSort()))
    return d.create()


SigEv = _mk_sig()
SIGEV = TPrim('sigev')


def _mk_ev():
    d = z3.Datatype('PubEv')
    d.declare('mk_ev', ('ev_w', z3.IntSort()), ('ev_topic', z3.StringSort()),
              ('ev_pid', z3.IntSort()), ('ev_code', z3.IntSort()))
    return d.create()


PubEv = _mk_ev()
PUBEV = TPrim('pubev')


def _mk_rep():
    d = z3.Datatype('RepEv')
    d.declare('mk_rep', ('rp_cid', Val), ('rp_mid', Val), ('rp_status', Val))
    return d.create()


RepEv = _mk_rep()
REPEV = TPrim('repev')


def zsorts(ty):
    """z3 sorts of the components of a type."""
    if ty == INT:
        return [z3.IntSort()]
    if ty == BOOL:
        return [z3.BoolSort()]
    if ty == REAL:
        return [z3.RealSort()]
    if ty in (STR, BYTES):
        return [z3.StringSort()]
    if ty == PATH:
        return [PStr]
    if ty == NONE:
        return []
    if ty == VAL:
        return [Val]
    if ty == SIGEV:
        return [SigEv]
    if ty == PUBEV:
        return [PubEv]
    if ty == REPEV:
        return [RepEv]
    if isinstance(ty, TRef):
        return [z3.IntSort()]
    if isinstance(ty, TList):
        if ty.elem == NONE:
            return []
        (s,) = zsorts(ty.elem)
        return [z3.ArraySort(z3.IntSort(), s), z3.IntSort()]
    if isinstance(ty, TSet):
        (s,) = zsorts(ty.elem)
        return [z3.ArraySort(s, z3.BoolSort()), z3.IntSort()]
    if isinstance(ty, TDict):
        (k,) = zsorts(ty.k)
        return ([z3.ArraySort(k, z3.BoolSort())] +
                [z3.ArraySort(k, v) for v in zsorts(ty.v)] + [z3.IntSort()])
    if isinstance(ty, TTuple):
        out = []
        for e in ty.elems:
            out += zsorts(e)
        return out
    raise TypeError('no z3 sorts for %r' % (ty,))


class SV(object):
    """symbolic value: type + tuple of z3 terms (or a python payload for PY/EXC)."""
    __slots__ = ('ty', 't', 'py')

    def __init__(self, ty, t=(), py=None):
        self.ty = ty
        if isinstance(t, z3.ExprRef):
            t = (t,)
        self.t = tuple(t)
        self.py = py

    @property
    def z(self):
        assert len(self.t) == 1, (self.ty, self.t)
        return self.t[0]

    def __repr__(self):
        if self.ty in (PY, EXC):
            return 'SV(%r,%r)' % (self.ty, self.py)
        return 'SV(%r,%s)' % (self.ty, ','.join(str(x)[:60] for x in self.t))


def mk_int(n):
    return SV(INT, z3.IntVal(n))


def mk_bool(b):
    return SV(BOOL, z3.BoolVal(bool(b)))


def mk_real(x):
    return SV(REAL, z3.RealVal(repr(x) if isinstance(x, float) else x))


def mk_str(s):
    return SV(STR, z3.StringVal(s))


def mk_none():
    return SV(NONE, ())


def mk_py(obj):
    return SV(PY, (), obj)


_fresh_ctr = [0]


def fresh_name(base):
    _fresh_ctr[0] += 1
    return '%s!%d' % (base, _fresh_ctr[0])


def reset_fresh():
    _fresh_ctr[0] = 0


def _tuple_of(ty, mk):
    items = [mk(t, i) for i, t in enumerate(ty.elems)]
    return SV(ty, [c for it in items for c in it.t], py=items)


def fresh(ty, base):
    """fresh symbolic value of a type"""
    if isinstance(ty, TTuple):
        return _tuple_of(ty, lambda t, i: fresh(t, '%s_%d' % (base, i)))
    n = fresh_name(base)
    ss = zsorts(ty)
    if len(ss) == 1:
        return SV(ty, z3.Const(n, ss[0]))
    return SV(ty, [z3.Const('%s.%d' % (n, i), s) for i, s in enumerate(ss)])


def fresh_dep(ty, base, idx):
    """fresh symbolic value that is a function of the bound variables idx (a call evaluated under a binder:
    comprehension element, quantified spec) -- a different value for every binding"""
    if not idx:
        return fresh(ty, base)
    if isinstance(ty, TTuple):
        return _tuple_of(ty, lambda t, i: fresh_dep(t, '%s_%d' % (base, i), idx))
    n = fresh_name(base)
    ss = zsorts(ty)
    dom = [x.sort() for x in idx]
    zs = [z3.Function('%s.%d' % (n, i), *(dom + [s]))(*idx) for i, s in enumerate(ss)]
    return SV(ty, zs[0] if len(zs) == 1 else zs)


def named(ty, name):
    if isinstance(ty, TTuple):
        return _tuple_of(ty, lambda t, i: named(t, '%s[%d]' % (name, i)))
    ss = zsorts(ty)
    if len(ss) == 1:
        return SV(ty, z3.Const(name, ss[0]))
    return SV(ty, [z3.Const('%s.%d' % (name, i), s) for i, s in enumerate(ss)])


# ---------------------------------------------------------------- Val wrapping
def to_val(sv):
    """inject a typed SV into Val (only scalar / ref kinds)."""
    ty = sv.ty
    if ty == VAL:
        return sv
    if ty == INT:
        return SV(VAL, Val.VInt(sv.z))
    if ty == BOOL:
        return SV(VAL, Val.VBool(sv.z))
    if ty == REAL:
        return SV(VAL, Val.VReal(sv.z))
    if ty == STR:
        return SV(VAL, Val.VStr(sv.z))
    if ty == BYTES:
        return SV(VAL, Val.VBytes(sv.z))
    if ty == NONE:
        return SV(VAL, Val.VNone)
    if isinstance(ty, TRef):
        # None for the null reference, VRef otherwise
        return SV(VAL, z3.If(sv.z == 0, Val.VNone, Val.VRef(sv.z)))
    raise TypeError('cannot inject %r into Val' % (ty,))


class OutOfSubset(Exception):
    def __init__(self, msg, node=None, fn=None):
        self.msg = msg
        self.node = node
        self.fn = fn
        Exception.__init__(self, msg)

    def __str__(self):
        ln = getattr(self.node, 'lineno', '?')
        return 'OutOfSubset(%s @ %s line %s)' % (self.msg, self.fn, ln)
