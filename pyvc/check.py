"""Property check driver: VC generation for every function under contract of a property,
discharge, ledger comparison, replay / falsifier, known findings, evidence, exit code.

exit 0  every obligation discharged (known findings printed as KNOWN-FINDING)
exit 1  VIOLATION (a ledger obligation that now fails; replayed when an input is available)
exit 2  undecided (unknown / timeout / OutOfSubset / new obligation not in the ledger)
exit 3  checker failure (vacuous precondition, must-fail proved, zero obligations, crash)
"""
import hashlib
import importlib
import json
import os
import re
import subprocess
import sys
import time
import traceback

import z3

HERE = os.path.dirname(os.path.dirname(os.path.abspath(__file__)))
REPO = os.environ.get('PYVC_REPO', '/repo')
VENV_PY = os.environ.get('PYVC_PYTHON', '/venv/bin/python')


def clause_name(vc):
    """stable, path-independent name of the contract clause a VC belongs to"""
    n = vc.name
    fn = n.split(':')[-1]
    head = n[:n.rfind(':')]
    if vc.kind == 'escape':
        return 'noescape:' + fn
    if vc.kind == 'frame':
        return 'frame:' + fn
    if vc.kind == 'type':
        return 'types:' + fn
    if vc.kind == 'pre':
        callee = re.sub(r'@.*$', '', head)
        return '%s@%s' % (callee, fn)
    if vc.kind == 'raises':
        return re.sub(r'@[^:]*$', '', head) + ':' + fn
    return head + ':' + fn


def load_property(pid):
    sys.path.insert(0, HERE)
    return importlib.import_module('props.%s' % pid)


def load_known():
    p = os.path.join(HERE, 'known_findings.jsonl')
    known, fixed = [], []
    if os.path.exists(p):
        for line in open(p):
            line = line.strip()
            if not line or line.startswith('#'):
                continue
            if line.startswith('fixed:'):
                fixed.append(line)
                continue
            known.append(json.loads(line))
    return known, fixed


def load_ledger():
    p = os.path.join(HERE, 'baseline_obligations.json')
    if os.path.exists(p):
        return json.load(open(p))
    return {}


def tree_id():
    try:
        rev = subprocess.run(['git', '-C', REPO, 'rev-parse', 'HEAD'], capture_output=True,
                             text=True).stdout.strip()
        diff = subprocess.run(['git', '-C', REPO, 'diff', 'HEAD', '--', 'circus'],
                              capture_output=True, text=True).stdout
        return rev[:12] + ('+' + hashlib.sha256(diff.encode()).hexdigest()[:8] if diff else '')
    except Exception:
        return 'unknown'


def run_replay(path, timeout=120):
    """run the replay harness (real code, /venv/bin/python) on a replay file"""
    try:
        pr = subprocess.run([VENV_PY, os.path.join(HERE, 'replay', 'run.py'), path],
                            capture_output=True, text=True, timeout=timeout,
                            env=dict(os.environ, PYTHONPATH=REPO, PYVC_REPO=REPO))
        out = pr.stdout.strip().splitlines()
        for line in reversed(out):
            if line.startswith('{'):
                return json.loads(line)
        return {'verdict': 'error', 'detail': (pr.stdout + pr.stderr)[-2000:]}
    except subprocess.TimeoutExpired:
        return {'verdict': 'error', 'detail': 'replay timeout'}


def run_sweep(qual, budget=120):
    try:
        pr = subprocess.run([VENV_PY, os.path.join(HERE, 'replay', 'run.py'), '--sweep', qual, str(budget)],
                            capture_output=True, text=True, timeout=budget + 90,
                            env=dict(os.environ, PYTHONPATH=REPO, PYVC_REPO=REPO))
        for line in reversed(pr.stdout.strip().splitlines()):
            if line.startswith('{'):
                return json.loads(line)
        return {'verdict': 'error', 'detail': (pr.stdout + pr.stderr)[-1000:]}
    except subprocess.TimeoutExpired:
        return {'verdict': 'error', 'detail': 'sweep timeout'}


def main(argv=None):
    import argparse
    ap = argparse.ArgumentParser()
    ap.add_argument('pid')
    ap.add_argument('--tier', default=os.environ.get('VERIF_TIER', 'quick'))
    ap.add_argument('--update-ledger', action='store_true')
    ap.add_argument('--verbose', '-v', action='store_true')
    ap.add_argument('--only', default=None, help='restrict to functions matching this substring')
    args = ap.parse_args(argv)
    try:
        return run(args)
    except SystemExit:
        raise
    except Exception:
        traceback.print_exc()
        print('CHECKER-FAILURE property=%s (crash)' % args.pid)
        return 3


def run(args):
    from contracts import build_spec
    from pyvc.vcgen import VCGen
    from pyvc.tys import OutOfSubset, reset_fresh
    from pyvc import solve, framescan

    t0 = time.time()
    pid = args.pid
    tier = args.tier
    seed = int(os.environ.get('VERIF_SEED', '0') or 0)
    prop = load_property(pid)
    spec = build_spec(getattr(prop, 'SPEC_PROFILE', None))
    known, fixed = load_known()
    ledger = load_ledger().get(pid, [])
    outdir = os.path.join(HERE, 'out', 'replay', pid)
    os.makedirs(outdir, exist_ok=True)
    os.makedirs(os.path.join(HERE, 'evidence'), exist_ok=True)

    gen = VCGen(spec, REPO)
    all_vcs = []
    fuc = []
    undecided = []
    gen_time = 0.0
    spec.require_variants = bool(getattr(prop, 'REQUIRE_VARIANTS', False))
    functions = list(prop.FUNCTIONS)
    if args.only:
        functions = [f for f in functions if args.only in f]
    for qual in functions:
        tg = time.time()
        try:
            reset_fresh()
            vcs = gen.verify(qual)
        except OutOfSubset as e:
            undecided.append({'obligation': 'subset:' + qual.split(':')[1], 'reason': str(e)})
            vcs = []
        except z3.Z3Exception as e:
            undecided.append({'obligation': 'subset:' + qual.split(':')[1], 'reason': 'z3: %s' % e})
            vcs = []
        gen_time += time.time() - tg
        fi = gen.fi
        fuc.append({'name': qual, 'file': os.path.relpath(fi.path, REPO) if fi and hasattr(fi, 'path') else None,
                    'lines': list(fi.lines) if fi and hasattr(fi, 'lines') else None,
                    'src_sha256': getattr(fi, 'src_sha', None),
                    'paths': gen.paths, 'vcs': len(vcs),
                    'dropped': sorted(set(gen.dropped))})
        all_vcs += vcs
    for lem in getattr(prop, 'LEMMAS', []):
        lemma = spec.lemmas[lem]
        reset_fresh()
        all_vcs += gen.verify_lemma(lemma)
    # syntactic whole-package frame obligations
    frame_results = []
    for fr in getattr(prop, 'FRAMES', []):
        frame_results.append(framescan.run(fr, gen.src, spec))

    if not all_vcs and not frame_results:
        print('CHECKER-FAILURE property=%s zero obligations generated' % pid)
        return finish(pid, tier, seed, 3, t0, locals())

    both = (tier == 'thorough')
    ts = time.time()
    results = solve.solve_all(all_vcs, use_cvc5=True, both=both)
    # second chance, alone and with three times the budget, for obligations that were discharged on the unchanged tree
    # (ledger) and came back `unknown`: rules out a timeout caused by machine load before anything is reported
    retry = [i for i, (vc, r) in enumerate(zip(all_vcs, results))
             if vc.expect == 'unsat' and r['result'] not in ('sat', 'unsat') and clause_name(vc) in ledger]
    retried = 0
    if retry and len(retry) <= 64:
        saved = (solve.Z3_TIMEOUT_MS, solve.CVC5_TIMEOUT_S)
        solve.Z3_TIMEOUT_MS, solve.CVC5_TIMEOUT_S = saved[0] * 3, saved[1] * 2
        try:
            again = solve.solve_all([all_vcs[i] for i in retry], procs=4, use_cvc5=True, both=False)
        finally:
            solve.Z3_TIMEOUT_MS, solve.CVC5_TIMEOUT_S = saved
        for i, r in zip(retry, again):
            r['reason'] = (r.get('reason') or '') + ' [retried alone with 3x budget]'
            results[i] = r
        retried = len(retry)
    solve_time = time.time() - ts

    by_clause = {}
    unreachable_exits = []
    mustfail = {}
    counts = {'obligations': 0, 'discharged': 0, 'covers': 0, 'covers_sat': 0,
              'mustfail': 0, 'mustfail_refuted': 0}
    by_backend = {}
    checker_failures = []
    tmax = 0.0
    tsum = 0.0
    for vc, r in zip(all_vcs, results):
        tsum += r['time']
        tmax = max(tmax, r['time'])
        if vc.expect == 'sat-info':
            counts['exit_paths'] = counts.get('exit_paths', 0) + 1
            if r['result'] == 'unsat':
                unreachable_exits.append(vc.name)
            continue
        if vc.expect == 'sat':
            counts['covers'] += 1
            if r['result'] == 'sat':
                counts['covers_sat'] += 1
            elif r['result'] == 'unsat':
                checker_failures.append('vacuous: %s is unreachable / precondition contradictory' % vc.name)
            continue
        if vc.expect == 'refutable':
            mf = mustfail.setdefault(clause_name(vc), {'sat': 0, 'unsat': 0, 'unknown': 0})
            mf[r['result'] if r['result'] in ('sat', 'unsat') else 'unknown'] += 1
            continue
        cn = clause_name(vc)
        if cn in getattr(prop, 'EXCLUDE_CLAUSES', ()):
            continue        # clause of a shared contract that belongs to another property
        counts['obligations'] += 1
        ent = by_clause.setdefault(cn, {'vcs': 0, 'unsat': 0, 'sat': [], 'unknown': [], 'fn': vc.fn,
                                        'kind': vc.kind, 'note': vc.note})
        ent['vcs'] += 1
        if r['result'] == 'unsat':
            ent['unsat'] += 1
            counts['discharged'] += 1
            by_backend[r['backend']] = by_backend.get(r['backend'], 0) + 1
            if both and r.get('cvc5') and r['cvc5'][0] == 'unsat' and not r['backend'].startswith('cvc5'):
                by_backend['cvc5-1.0.3 cross-check agrees'] = by_backend.get('cvc5-1.0.3 cross-check agrees', 0) + 1
            if both and r.get('cvc5') and r['cvc5'][0] == 'sat':
                checker_failures.append('solver disagreement on %s (z3 unsat, cvc5 sat)' % vc.name)
        elif r['result'] == 'sat':
            ent['sat'].append((vc, r))
        else:
            ent['unknown'].append((vc, r))
    # a must-fail clause has to be refuted on at least one path; proved on every path = the
    # engine (or the contract) is unsound
    for cn, mf in sorted(mustfail.items()):
        counts['mustfail'] += 1
        if mf['sat']:
            counts['mustfail_refuted'] += 1
        elif mf['unknown'] == 0:
            checker_failures.append('must-fail obligation %s was PROVED on every path: engine or contract unsound' % cn)
    for fr in frame_results:
        counts['obligations'] += fr['checked']
        ent = by_clause.setdefault(fr['name'], {'vcs': fr['checked'], 'unsat': 0, 'sat': [], 'unknown': [],
                                                'fn': fr['name'], 'kind': 'frame-scan', 'note': fr['what']})
        if fr['ok']:
            ent['unsat'] = fr['checked']
            counts['discharged'] += fr['checked']
            by_backend['ast-frame-scan'] = by_backend.get('ast-frame-scan', 0) + fr['checked']
        else:
            ent['scan_violations'] = fr['violations']
            ent['unsat'] = fr['checked'] - len(fr['violations'])
            counts['discharged'] += ent['unsat']

    discharged_clauses = sorted(c for c, e in by_clause.items()
                                if e['unsat'] == e['vcs'] and not e.get('scan_violations'))
    if args.update_ledger:
        led = load_ledger()
        led[pid] = discharged_clauses
        json.dump(led, open(os.path.join(HERE, 'baseline_obligations.json'), 'w'), indent=1, sort_keys=True)
        print('ledger for %s: %d clauses' % (pid, len(discharged_clauses)))

    # ---- classify failures
    violations = []
    known_hits = []
    for cn, e in sorted(by_clause.items()):
        failing = e['sat'] or e['unknown'] or e.get('scan_violations')
        if not failing:
            continue
        info = {'obligation': cn, 'function': e['fn'], 'clause': e['note'], 'kind': e['kind']}
        if e.get('scan_violations'):
            info['scan'] = e['scan_violations']
        solver_says_sat = bool(e['sat']) or bool(e.get('scan_violations'))
        # replay: solver model first, then bounded falsifier on the real code
        rp = None
        rfile = os.path.join(outdir, re.sub(r'[^A-Za-z0-9_.\[\]-]', '_', cn) + '.json')
        payload = {'property': pid, 'obligation': cn, 'function': e['fn'], 'clause': e['note'],
                   'tree': tree_id(), 'kind': e['kind'],
                   'solver': [{'vc': vc.name, 'result': r['result'], 'backend': r['backend'],
                               'reason': r['reason'], 'line': vc.line, 'trace': list(vc.trace)[-12:]}
                              for vc, r in (e['sat'] + e['unknown'])[:6]],
                   'models': [r['model'] for vc, r in e['sat'][:3]],
                   'scan': e.get('scan_violations'),
                   'ledger_clauses': sorted(c for c in ledger if c.endswith(':' + str(e['fn']).split(':')[-1]))}
        json.dump(payload, open(rfile, 'w'), indent=1, default=str)
        if e['kind'] != 'frame-scan':
            rp = run_replay(rfile)
            payload['replay'] = rp
            json.dump(payload, open(rfile, 'w'), indent=1, default=str)
        info['replay_file'] = os.path.relpath(rfile, HERE)
        info['replay'] = rp
        reproduced = bool(rp and rp.get('verdict') == 'reproduced')
        # known finding?
        kf = match_known(known, pid, cn, rp)
        if kf is not None and (reproduced or solver_says_sat or kf.get('match') == 'obligation'):
            known_hits.append((kf, info))
            continue
        in_ledger = cn in ledger
        if reproduced:
            violations.append((info, ''))
        elif in_ledger and (solver_says_sat or (e['unknown'] and all('[retried' in (r.get('reason') or '')
                                                                     for vc, r in e['unknown']))):
            # an obligation discharged on the unchanged tree that the solvers now refute, or can no longer discharge
            # even alone with three times the budget; the replay file carries the solver output
            violations.append((info, ' no-failing-input-found'))
        else:
            undecided.append({'obligation': cn,
                              'reason': ('solver: ' + ', '.join(sorted(set(
                                  r['result'] + ('/' + r['reason'] if r['reason'] else '')
                                  for vc, r in e['sat'] + e['unknown'])))) +
                              ('' if in_ledger else ' (not in the baseline ledger)')})
    # functions the VC generator could not handle (construct outside the subset) or whose VCs the
    # solvers left open: consult the bounded falsifier for every ledger clause of that function
    for u in list(undecided):
        if not u['obligation'].startswith('subset:'):
            continue
        fn = u['obligation'][len('subset:'):]
        quals = [q for q in functions if q.split(':')[1] == fn]
        led = [c for c in ledger if c.endswith(':' + fn)]
        if not quals or not led:
            continue
        rfile = os.path.join(outdir, 'subset_%s.json' % re.sub(r'[^A-Za-z0-9_.-]', '_', fn))
        payload = {'property': pid, 'obligation': '*:' + fn, 'function': quals[0], 'tree': tree_id(),
                   'clause': 'any baseline clause of %s (VC generation was not possible: %s)' % (fn, u['reason']),
                   'ledger_clauses': led, 'models': [], 'solver': [{'result': 'out-of-subset', 'reason': u['reason']}]}
        json.dump(payload, open(rfile, 'w'), indent=1)
        rp = run_replay(rfile)
        payload['replay'] = rp
        json.dump(payload, open(rfile, 'w'), indent=1, default=str)
        if rp and rp.get('verdict') == 'reproduced':
            info = {'obligation': '%s:%s' % ('|'.join(f for f in rp.get('failing_clauses', []) if f != '*'), fn),
                    'function': quals[0], 'replay_file': os.path.relpath(rfile, HERE), 'replay': rp}
            kf = match_known(known, pid, info['obligation'], rp)
            if kf is not None:
                known_hits.append((kf, info))
            else:
                violations.append((info, ''))
            undecided.remove(u)
    # ---- thorough tier: complete falsifier enumeration of every adapter on the real code (bounded stand-in:
    # it can only ADD violations -- a ledger clause that a concrete real execution falsifies -- never discharge anything)
    bounded = []
    if tier == 'thorough':
        already = set(info['obligation'] for info, _ in violations) | set(info['obligation'] for kf, info in known_hits)
        for qual in functions:
            sw = run_sweep(qual)
            if sw.get('verdict') != 'sweep':
                if sw.get('verdict') != 'no-adapter':
                    bounded.append({'function': qual, 'what': 'falsifier sweep failed to run: %s' % sw.get('detail', '')[:200]})
                continue
            fn = qual.split(':')[1]
            bounded.append({'function': qual, 'inputs_tried': sw['tried'], 'complete': sw['complete'],
                            'adapter_errors': sw.get('adapter_errors', 0),
                            'what': 'bounded: enumeration of concrete real executions by the replay adapter; '
                                    'not counted as proved'})
            for clause, wit in sorted(sw['failing'].items()):
                cn = '%s:%s' % (clause, fn)
                if cn in already or cn in getattr(prop, 'EXCLUDE_CLAUSES', ()):
                    continue
                if cn not in ledger and not (clause == 'noescape' and ('noescape:' + fn) in ledger):
                    continue
                rfile = os.path.join(outdir, 'sweep_' + re.sub(r'[^A-Za-z0-9_.\[\]-]', '_', cn) + '.json')
                rp = {'verdict': 'reproduced', 'source': 'thorough sweep (bounded enumeration of real executions)',
                      'inputs': wit['inputs'], 'observed': wit['observed'], 'clause': clause}
                json.dump({'property': pid, 'obligation': cn, 'function': qual, 'tree': tree_id(),
                           'inputs': wit['inputs'], 'models': [], 'replay': rp,
                           'solver': [{'result': 'discharged-but-falsified-by-execution',
                                       'reason': 'a trusted contract or the adapter oracle disagrees with the proof'}]},
                          open(rfile, 'w'), indent=1, default=str)
                info = {'obligation': cn, 'function': qual, 'replay_file': os.path.relpath(rfile, HERE), 'replay': rp}
                kf = match_known(known, pid, cn, rp)
                if kf is not None:
                    known_hits.append((kf, info))
                else:
                    violations.append((info, ''))
    for kf, info in known_hits:
        print('KNOWN-FINDING: property=%s %s [%s]' % (pid, kf['what'], info['obligation']))
    code = 0
    if checker_failures:
        for c in checker_failures:
            print('CHECKER-FAILURE property=%s %s' % (pid, c))
        code = 3
    if violations:
        for info, suffix in violations:
            print('VIOLATION property=%s replay=%s%s' % (pid, info['replay_file'], suffix))
        code = 1
    elif undecided and code == 0:
        for u in undecided:
            print('UNDECIDED property=%s obligation=%s %s' % (pid, u['obligation'], u['reason'][:300]))
        code = 2
    return finish(pid, tier, seed, code, t0, locals())


def match_known(known, pid, cn, rp):
    for k in known:
        if k.get('property') != pid or k.get('obligation') != cn:
            continue
        pred = k.get('witness_predicate')
        if pred and rp and rp.get('inputs') is not None:
            try:
                ok = bool(eval(pred, {'__builtins__': {'isinstance': isinstance, 'len': len, 'str': str,
                                                       'int': int, 'dict': dict, 'list': list,
                                                       'bool': bool, 'float': float, 'any': any,
                                                       'all': all, 'abs': abs}},
                               {'inputs': rp['inputs'], 'observed': rp.get('observed')}))
            except Exception:
                ok = False
            if not ok:
                continue
        return k
    return None


def finish(pid, tier, seed, code, t0, L):
    """write evidence/<pid>.json from measured values"""
    prop = L.get('prop')
    counts = L.get('counts', {'obligations': 0, 'discharged': 0})
    spec = L.get('spec')
    gen = L.get('gen')
    all_vcs = L.get('all_vcs', [])
    results = L.get('results', [])
    samples = []
    for vc, r in list(zip(all_vcs, results))[:400]:
        if vc.expect == 'unsat' and r['result'] == 'unsat' and len(samples) < 4:
            goal = str(vc.goal)
            samples.append({'obligation': vc.name, 'clause': vc.note, 'path': list(vc.trace)[-8:],
                            'goal': goal[:400], 'hyps': len(vc.pc), 'result': r['result'],
                            'backend': r['backend'], 'time_s': round(r['time'], 3)})
    trusted = []
    if gen is not None and spec is not None:
        for q in sorted(set(gen.used_contracts) | set(getattr(gen, 'verified_quals', ()))):
            c = spec.contracts.get(q)
            if c is not None and c.trusted:
                trusted.append('trusted contract %s%s' % (q, (': ' + c.note) if c.note else ''))
            if c is not None and c.entry_assumes and q in getattr(gen, 'verified_quals', ()):
                trusted.append('entry assumption of %s (not demanded from callers): %s' % (q, '; '.join(c.entry_assumes)))
            if c is not None and c.assumed:
                trusted.append('assumed (unproved) clauses of %s: %s' % (q, '; '.join(c.assumed)))
    kn = L.get('known_hits', [])
    known_obls = sum(L['by_clause'][info['obligation']]['vcs'] - L['by_clause'][info['obligation']]['unsat']
                     for kf, info in kn) if kn else 0
    cov = {
        'obligations': counts.get('obligations', 0) - known_obls,
        'discharged': counts.get('discharged', 0),
        'known_finding_obligations': known_obls,
        'checker_cmd': './vf check %s --tier %s' % (pid, tier),
        'trusted_base': trusted + list(getattr(prop, 'TRUSTED', [])),
        'by_backend': L.get('by_backend', {}),
        'functions_under_contract': L.get('fuc', []),
        'paths': sum(f.get('paths', 0) for f in L.get('fuc', [])),
        'exit_paths_probed': counts.get('exit_paths', 0),
        'exit_paths_unreachable': sorted(L.get('unreachable_exits', []))[:60],
        'cover_queries': counts.get('covers', 0),
        'cover_reachable': counts.get('covers_sat', 0),
        'must_fail_checked': counts.get('mustfail', 0),
        'must_fail_refuted': counts.get('mustfail_refuted', 0),
        'solver_time_s': {'sum': round(L.get('tsum', 0.0), 2), 'max': round(L.get('tmax', 0.0), 2),
                          'wall': round(L.get('solve_time', 0.0), 2),
                          'vc_generation': round(L.get('gen_time', 0.0), 2)},
        'frame_scans': [dict((k, v) for k, v in fr.items() if k != 'sites') for fr in L.get('frame_results', [])],
        'lemmas': list(getattr(prop, 'LEMMAS', [])),
        'bounded': list(getattr(prop, 'BOUNDED_RESULTS', [])) + list(L.get('bounded', [])),
        'undecided': L.get('undecided', []),
        'violations': [dict(obligation=i['obligation'], replay=i['replay_file'], suffix=s.strip())
                       for i, s in L.get('violations', [])],
        'known_findings': [dict(obligation=i['obligation'], what=k['what'],
                                replay=(i.get('replay') or {}).get('verdict')) for k, i in kn],
        'samples': samples or [{'note': 'no discharged obligation to sample'}],
        'exhaustive': False,
        'tree': tree_id(),
        'exit_code': code,
        'not_decided': list(getattr(prop, 'NOT_DECIDED', [])),
    }
    ev = {
        'property_id': pid, 'tier': tier if tier in ('quick', 'thorough') else 'quick', 'seed': seed,
        'level': 'proof',
        'coverage': cov,
        'assumptions': list(getattr(prop, 'ASSUMPTIONS', [])) + sorted(set(gen.notes if gen else [])),
        'wall_s': round(time.time() - t0, 2),
        'violations': len(L.get('violations', [])),
    }
    if os.path.realpath(REPO) == '/repo':
        p = os.path.join(HERE, 'evidence', '%s.json' % pid)
    else:
        # scratch trees (mutation tests) never overwrite the evidence of the real tree
        os.makedirs(os.path.join(HERE, 'out', 'evidence_scratch'), exist_ok=True)
        p = os.path.join(HERE, 'out', 'evidence_scratch', '%s.json' % pid)
    json.dump(ev, open(p, 'w'), indent=1, default=str)
    print('%s tier=%s obligations=%d discharged=%d known=%d undecided=%d violations=%d exit=%d wall=%.1fs'
          % (pid, tier, cov['obligations'], cov['discharged'], known_obls, len(cov['undecided']),
             ev['violations'], code, ev['wall_s']))
    return code


if __name__ == '__main__':
    sys.exit(main())
