"""Coroutine mode: yield points, pending futures, rely/guarantee at suspension.

Within one IOLoop thread control changes hands only when a coroutine suspends on a future that
is not done: in the functions under contract that is `yield tornado_sleep(d)` (leaf) or a yield
of another coroutine's future (whose own contract accounts for its suspensions).

* calling a function whose contract has kind='coroutine' yields a *pending* value; no effect yet
* `yield pending`           -> the callee's contract is applied at that point
* `yield [pending, ...]` / `yield gen.multi([...])` / `yield <list comprehension of calls>`
                            -> parallel-for rule over the callee contract
* `yield tornado_sleep(d)`  -> suspension: the function's yield_guarantee is asserted, every heap
                               field / ghost not declared stable by the function's rely relation is
                               havocked, the rely facts are assumed, the ghost clock advances >= d
* a pending that is dropped or escapes un-awaited: the `detached` clauses of the callee are
  assumed if it has some, otherwise its modifies are havocked without any postcondition
"""
import ast
import z3

from .tys import *   # noqa
from .state import State, Exc, Res
from .engine import FA


class Rely(object):
    def __init__(self, name, stable=(), facts=(), note=''):
        self.name = name
        self.stable = list(stable)      # 'Cls.field' | '<objexpr>.field' | ghost name
        self.facts = list(facts)        # spec expressions, old() = state before the suspension
        self.note = note


def install(eng, c, fi, st):
    eng.yield_hook = lambda e, st: do_yield(eng, e, st)


def is_pending(v):
    return v is not None and v.ty == PY and isinstance(v.py, tuple) and v.py and v.py[0] == 'pending'


def do_yield(eng, e, st):
    if e.value is None:
        eng.oos('bare yield', e)
    out = []
    for r in eng.ev(e.value, st):
        if r.exc is not None:
            out.append(r)
            continue
        out += await_value(eng, r.st, r.val, e)
    return out


def await_value(eng, st, v, node):
    if is_pending(v):
        kind = v.py[1]
        if kind == 'call':
            return await_call(eng, st, v.py[2], node)
        if kind == 'sleep':
            return suspend(eng, st, v.py[2], node)
        if kind == 'multi':
            return await_value(eng, st, v.py[2], node)
        if kind == 'list':
            return await_parallel(eng, st, v.py[2], node)
        eng.oos('yield of pending %s' % kind, node)
    if isinstance(v.ty, TTuple) and v.py is not None:
        # static list of futures: applied in order (each contract tolerates the others through
        # its own rely; posts must be stable under the siblings: A-PARSTABLE)
        def go(i, st, acc):
            if i == len(v.py):
                return [Res(st, eng.mk_tuple(acc))]
            res = []
            for r in await_value(eng, st, v.py[i], node):
                if r.exc is not None:
                    res.append(r)
                else:
                    res += go(i + 1, r.st, acc + [r.val])
            return res
        return go(0, st, [])
    if isinstance(v.ty, TList) and not v.t:
        return [Res(st, v)]
    eng.oos('yield of a value of sort %r' % (v.ty,), node)


def make_pending_call(eng, st, c, args, kw, node, recv, star):
    return mk_py(('pending', 'call', {'c': c, 'args': list(args), 'kw': dict(kw), 'recv': recv,
                                      'star': star, 'node': node}))


def await_call(eng, st, p, node):
    # awaiting another coroutine is a suspension point of THIS coroutine too (the callee may suspend, and other
    # requests are served meanwhile): what this coroutine promises at suspensions -- its yield guarantees and the
    # contract of its synchronous prefix -- must hold in the state in which the call is made
    me = eng.contract
    if getattr(p['c'], 'kind', '') == 'coroutine' and me is not None and (me.yield_guarantee or me.detached is not None):
        for i, g in enumerate(me.yield_guarantee):
            eng.add_vc('yield-guarantee[%d]' % i, 'yield', st, eng.spb(g, st, +1), node, note=g)
        check_detached(eng, me, st, node)
    eng._awaiting = True
    try:
        return eng.call_contract(st, p['c'], p['args'], p['kw'], p['node'], p['recv'], p['star'])
    finally:
        eng._awaiting = False


def drop_pending(eng, st, v, node):
    """a pending that is never awaited by this function"""
    if not is_pending(v):
        return [Res(st, v)]
    kind = v.py[1]
    if kind == 'sleep':
        eng.notes.append('un-awaited tornado_sleep at line %s has no effect' % getattr(node, 'lineno', '?'))
        return [Res(st, mk_none())]
    if kind == 'call':
        p = v.py[2]
        c = p['c']
        if c.detached is not None:
            eng._awaiting = True
            try:
                return eng.call_contract(st, c.detached, p['args'], p['kw'], p['node'], p['recv'], p['star'])
            finally:
                eng._awaiting = False
        from .spec import Contract
        weak = Contract(c.qual, params=c.params, ret=None, requires=c.requires, ensures=[],
                        raises={}, modifies=c.modifies, trusted=c.trusted, kind='function')
        eng._awaiting = True
        try:
            return eng.call_contract(st, weak, p['args'], p['kw'], p['node'], p['recv'], p['star'])
        finally:
            eng._awaiting = False
    if kind in ('list', 'multi'):
        eng.oos('dropped list of futures', node)
    return [Res(st, mk_none())]


def suspend(eng, st, dur, node):
    """leaf suspension point"""
    c = eng.contract
    ordn = getattr(eng, '_yield_counter', 0)
    eng._yield_counter = ordn + 1
    for i, g in enumerate(c.yield_guarantee):
        eng.add_vc('yield-guarantee[%d]' % i, 'yield', st, eng.spb(g, st, +1), node, note=g)
    check_detached(eng, c, st, node)
    rel = eng.spec.relies.get(c.rely) if c.rely else None
    if rel is None:
        eng.oos('suspension in %s but its contract names no rely relation' % c.qual, node)
    pre = st
    # stable set
    stable_keys = {}
    stable_ghosts = set()
    for s in rel.stable:
        if s in eng.spec.ghosts:
            stable_ghosts.add(s)
            continue
        head, field = s.rsplit('.', 1)
        if head in eng.spec.classes or head.startswith('$'):
            if field == '*':
                for cn in eng.spec.mro(head):
                    for f in eng.spec.classes[cn].fields:
                        stable_keys[(cn, f)] = None
            else:
                stable_keys[eng.field_info(head, field, node)[0]] = None
        else:
            obj = eng.sp(head, st)
            if not isinstance(obj.ty, TRef):
                eng.oos('rely stable entry %r is not an object field' % s, node)
            key = eng.field_info(obj.ty.cls, field, node)[0]
            if key in stable_keys and stable_keys[key] is None:
                continue
            stable_keys.setdefault(key, []).append(obj.z)
    new = st.copy()
    for key in sorted(eng.all_heap_keys(st)):
        if key[1] == '$alloc':
            continue
        ty = eng.field_info(key[0], key[1])[1]
        if key in stable_keys:
            objs = stable_keys[key]
            if objs is None:
                continue
            new = eng.havoc_key(new, key, ty, keep=lambda o, objs=objs: z3.Or(*[o == x for x in objs]))
        else:
            new = eng.havoc_key(new, key, ty)
    for g in sorted(eng.spec.ghosts):
        if g in stable_ghosts or g in eng.spec.local_ghosts:
            continue
        new = new.copy()
        eng.ghost_get(new, g)
        new.ghost[g] = fresh(eng.spec.ghosts[g], 'G.' + g)
        new = new.assume(*eng.wf_value_facts(new.ghost[g]))
    # allocation only grows
    for cls in sorted(set(k[0] for k in eng.all_heap_keys(st))):
        arrs, ty, key = eng.heap_arrays(new, cls, '$alloc')
        n = z3.Const(fresh_name('H.%s.$alloc' % cls), arrs[0].sort())
        o = z3.Int(fresh_name('o'))
        new = new.assume(FA([o], z3.Implies(z3.Select(arrs[0], o), z3.Select(n, o)),
                            patterns=[z3.Select(arrs[0], o), z3.Select(n, o)]))
        new.heap[key] = (n,)
    new.hver += 1
    post = new.copy()
    post.old = pre
    facts = []
    for f in rel.facts:
        facts.append(eng.spb(f, post, -1))
    if 'clock' in eng.spec.ghosts:
        d = eng.coerce(dur, REAL)
        facts.append(eng.ghost_get(post, 'clock').z >= eng.ghost_get(pre, 'clock').z + d.z)
    res = new.assume(*facts)
    res.old = st.old
    res = res.tag('yield@%s' % getattr(node, 'lineno', '?'))
    return [Res(res, mk_none())]


def check_detached(eng, c, st, node):
    """the `detached` contract describes every synchronous prefix of the coroutine: it must hold
    (relative to the entry state) whenever the coroutine suspends and when it finishes"""
    d = c.detached
    if d is None or st.old is None:
        return
    if any(t.startswith('yield@') for t in st.trace):
        return      # only the prefix before the first suspension belongs to the caller's step
    fs = st.copy()
    env = dict(st.old.env)
    for k, v in st.env.items():
        if k not in env:
            env[k] = v
    fs.env = env
    for i, e in enumerate(d.ensures):
        eng.add_vc('detached-post[%d]' % i, 'post', fs, eng.spb(e, fs, +1), node, note=e)
    eng.check_frame(d.modifies, fs, st.old, eng.fi, 'detached-frame')


def await_parallel(eng, st, p, node):
    """yield [f(x) for x in xs]: parallel-for over the callee contract"""
    c = p['c']
    n = p['len']
    j = p['idx']
    env_j = p['env']            # callee param env as functions of j (z3 terms mentioning j)
    eng.used_contracts.add(c.qual)
    eng.use_axioms(c)
    # no element: nothing happens
    t_, f_ = eng.branch(st, n <= 0)
    out0 = []
    if t_ is not None:
        if c.ret is not None and c.ret != NONE:
            out0.append(Res(t_, eng.L_empty(c.ret)))
        else:
            out0.append(Res(t_, mk_none()))
    if f_ is None:
        return out0
    st = f_
    pre = st.copy()
    # preconditions for every element
    for i, r in enumerate(c.requires):
        s2 = pre.copy()
        s2.env = dict(env_j)
        s2.old = None
        cond = eng.spb(r, s2, +1)
        goal = z3.ForAll([j], z3.Implies(z3.And(0 <= j, j < n), cond))
        eng.add_vc('pre[%d]:%s(parallel)' % (i, c.qual.split(':')[-1]), 'pre', st, goal, node, note=r)
    eng.check_call_requires(st, c, env_j, node,
                            wrap=lambda cond: z3.ForAll([j], z3.Implies(z3.And(0 <= j, j < n), cond)))
    # effects: havoc the union of the modifies (object-restricted entries become whole-field)
    mods = eng.mods_of_contract_conservative(c)
    post = eng.apply_havoc(pre, mods)
    results = None
    facts = []
    if c.ret is not None and c.ret != NONE:
        (rs,) = zsorts(c.ret)
        arr = z3.Const(fresh_name('par_ret'), z3.ArraySort(z3.IntSort(), rs))
        results = SV(TList(c.ret), [arr, n])
    frame_objs = p.get('frame')
    # triggers: the element-dependent argument terms (e.g. xs[j]) -- a fact about element j fires wherever xs[j] occurs
    pats = []
    _pr = z3.Int(fresh_name('jp'))
    for _v in env_j.values():
        _z = getattr(_v, 'z', None)
        if _z is not None and z3.is_expr(_z) and not _z.eq(j) and not z3.substitute(_z, (j, _pr)).eq(_z):
            pats.append(_z)
    for ens_i, ens in enumerate(c.ensures):
        if c.ensure_names[ens_i] in c.seq_only or eng.mentions_local_ghost(ens):
            continue
        s2 = post.copy()
        s2.env = dict(env_j)
        if results is not None:
            s2.env['result'] = SV(c.ret, z3.Select(results.t[0], j))
        old = pre.copy()
        old.env = dict(env_j)
        s2.old = old
        cond = eng.spb(ens, s2, -1)
        probe = z3.Int(fresh_name('jprobe'))
        if z3.substitute(cond, (j, probe)).eq(cond):
            facts.append(cond)          # does not depend on the element: holds because there is at least one (n > 0 here)
        else:
            facts.append(FA([j], z3.Implies(z3.And(0 <= j, j < n), cond), patterns=pats))
            # conjuncts of the clause that do not mention the element hold outright as well
            if z3.is_and(cond):
                for cj in cond.children():
                    if z3.substitute(cj, (j, probe)).eq(cj):
                        facts.append(cj)
    ns = post.assume(*facts)
    ns.env = st.env
    ns.old = st.old
    eng.notes.append('parallel-for rule applied to %s at line %s (A-PARSTABLE)'
                     % (c.qual, getattr(node, 'lineno', '?')))
    return out0 + [Res(ns, results if results is not None else mk_none())]
