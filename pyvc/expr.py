"""Expression evaluation (code mode: list of outcomes incl. exceptional ones; spec mode: total)."""
import ast
import z3

from .tys import *   # noqa
from .state import State, Exc, Res
from .engine import FA
from .engine import (zand, zor, STR_LOWER, STR_UPPER, STR_STRIP, STR_OF_INT, STR_OF_VAL,
                     REPR_OF_VAL, INT_OF_STR_OK, INT_OF_STR, REAL_OF_STR_OK, REAL_OF_STR, TRUNC)

TAG_TEST = {
    'none': lambda z: Val.is_VNone(z), 'bool': lambda z: Val.is_VBool(z),
    'int': lambda z: Val.is_VInt(z), 'real': lambda z: Val.is_VReal(z),
    'str': lambda z: Val.is_VStr(z), 'bytes': lambda z: Val.is_VBytes(z),
    'list': lambda z: Val.is_VList(z), 'obj': lambda z: Val.is_VObj(z),
    'ref': lambda z: Val.is_VRef(z),
}


def unwrap_tag(kind, z):
    if kind == 'none':
        return mk_none()
    if kind == 'bool':
        return SV(BOOL, Val.vb(z))
    if kind == 'int':
        return SV(INT, Val.vi(z))
    if kind == 'real':
        return SV(REAL, Val.vr(z))
    if kind == 'str':
        return SV(STR, Val.vs(z))
    if kind == 'bytes':
        return SV(BYTES, Val.vy(z))
    return SV(VAL, z)     # list / obj / ref stay Val (contents through the heap)


STR_FUNCS = {}


def ufun(name, *sorts):
    if name not in STR_FUNCS:
        STR_FUNCS[name] = z3.Function(name, *sorts)
    return STR_FUNCS[name]


S = z3.StringSort()


class ExprMixin(object):

    # ------------------------------------------------------------------ helpers
    def ok(self, st, val):
        return [Res(st, val)]

    def raise_(self, st, cls, node=None, fields=None, exact=True):
        if self.spec_mode:
            return []
        return [Res(st, None, Exc(cls, fields, exact, origin=getattr(node, 'lineno', None)))]

    def ev_many(self, exprs, st, k):
        def go(i, st, acc):
            if i == len(exprs):
                return k(st, acc)
            out = []
            for r in self.ev(exprs[i], st):
                if r.exc is not None:
                    out.append(r)
                else:
                    out += go(i + 1, r.st, acc + [r.val])
            return out
        return go(0, st, [])

    def guard(self, st, okcond, exc_cls, node, k, fields=None):
        """if okcond then k(st) else raise exc_cls (code mode); spec mode: just k(st)"""
        if self.spec_mode:
            return k(st)
        t, f = self.branch(st, okcond)
        out = []
        if t is not None:
            out += k(t)
        if f is not None:
            out += self.raise_(f, exc_cls, node, fields)
        return out

    def val_split(self, st, v, kinds):
        """-> ([(kind, st, unwrapped)], st_rest or None)"""
        out = []
        rest = st
        for k in kinds:
            if rest is None:
                break
            t, f = self.branch(rest, TAG_TEST[k](v.z))
            if t is not None:
                out.append((k, t, unwrap_tag(k, v.z)))
            rest = f
        return out, rest

    def with_kinds(self, st, v, kinds, node, k, exc='TypeError'):
        """apply k(st, typed) for every admissible dynamic kind of a Val; other kinds raise"""
        if v.ty != VAL:
            return k(st, v)
        if self.spec_mode:
            # specs must unwrap explicitly; default to first kind
            return k(st, unwrap_tag(kinds[0], v.z))
        cases, rest = self.val_split(st, v, kinds)
        out = []
        for kind, s2, uv in cases:
            out += k(s2, uv)
        if rest is not None:
            out += self.raise_(rest, exc, node)
        return out

    def need_axiom(self, name):
        if name in self.axioms_used:
            return
        self.axioms_used.add(name)
        x = z3.String('ax_x')
        y = z3.String('ax_y')
        if name == 'lower':
            self.global_axioms += [
                FA([x], STR_LOWER(STR_LOWER(x)) == STR_LOWER(x), patterns=[STR_LOWER(STR_LOWER(x))]),
            ]
        elif name == 'upper':
            self.global_axioms += [
                FA([x], STR_UPPER(STR_UPPER(x)) == STR_UPPER(x), patterns=[STR_UPPER(STR_UPPER(x))]),
            ]
        elif name == 'strip':
            self.global_axioms += [
                FA([x], STR_STRIP(STR_STRIP(x)) == STR_STRIP(x), patterns=[STR_STRIP(STR_STRIP(x))]),
            ]

    def path_idx(self, a, i):
        f = ufun('u_path_idx', PStr, z3.IntSort(), PStr)
        inv = ufun('u_path_idx_inv', PStr, z3.IntSort())
        if 'path_idx' not in self.axioms_used:
            self.axioms_used.add('path_idx')
            x = z3.Const('ax_p', PStr)
            m = z3.Int('ax_i')
            self.global_axioms += [
                # injective in the index (through a left inverse: linear instantiation), never the base
                FA([x, m], z3.And(inv(f(x, m)) == m, f(x, m) != x), patterns=[f(x, m)]),
            ]
        return f(a, i)

    def path_cat(self, a, lit):
        """path + '<literal>'; T-STDLIB: p + '.1' == '%s.%d' % (p, 1)"""
        if lit == '.1':
            return self.path_idx(a, z3.IntVal(1))
        f = ufun('u_path_cat_' + ''.join(c if c.isalnum() else '_' for c in lit), PStr, PStr)
        return f(a)

    def str_lower(self, z):
        if z3.is_string_value(z):
            return z3.StringVal(z.as_string().lower())
        self.need_axiom('lower')
        return STR_LOWER(z)

    def str_upper(self, z):
        if z3.is_string_value(z):
            return z3.StringVal(z.as_string().upper())
        self.need_axiom('upper')
        return STR_UPPER(z)

    def str_strip(self, z):
        if z3.is_string_value(z):
            return z3.StringVal(z.as_string().strip())
        self.need_axiom('strip')
        return STR_STRIP(z)

    def to_str_term(self, st, v):
        """python str(v) as a z3 String term (abstract where there is no exact encoding)"""
        ty = v.ty
        if ty == STR:
            return v.z
        if ty == INT:
            return z3.If(v.z >= 0, z3.IntToStr(v.z), z3.Concat(z3.StringVal('-'), z3.IntToStr(-v.z)))
        if ty == VAL:
            return z3.If(Val.is_VStr(v.z), Val.vs(v.z), STR_OF_VAL(v.z))
        if ty == NONE:
            return z3.StringVal('None')
        if ty == BOOL:
            return z3.If(v.z, z3.StringVal('True'), z3.StringVal('False'))
        return z3.Const(fresh_name('strof'), S)

    # ------------------------------------------------------------------ main dispatch
    def ev(self, e, st):
        m = getattr(self, 'ev_' + type(e).__name__, None)
        if m is None:
            self.oos('expression form %s' % type(e).__name__, e)
        return m(e, st)

    def ev1(self, e, st):
        """spec mode / pure: exactly one outcome"""
        rs = self.ev(e, st)
        rs = [r for r in rs if r.exc is None]
        if len(rs) != 1:
            self.oos('spec expression with %d outcomes: %s' % (len(rs), ast.dump(e)[:80]), e)
        return rs[0].val

    def ev_Constant(self, e, st):
        return self.ok(st, self.const_sv(e.value, e))

    def ev_Name(self, e, st):
        return self.ok(st, self.lookup_name(e.id, st, e))

    def ev_JoinedStr(self, e, st):
        exprs = [v.value for v in e.values if isinstance(v, ast.FormattedValue)]
        return self.ev_many(exprs, st, lambda s2, vals: self.ok(
            s2, SV(STR, z3.Const(fresh_name('fstr'), S))))

    def ev_Tuple(self, e, st):
        if any(isinstance(x, ast.Starred) for x in e.elts):
            self.oos('starred tuple', e)
        return self.ev_many(e.elts, st, lambda s2, vals: self.ok(s2, self.mk_tuple(vals)))

    def ev_List(self, e, st):
        def k(s2, vals):
            if not vals:
                return self.ok(s2, SV(TList(NONE), (), py=[]))
            ty = self.join_types([v.ty for v in vals])
            if ty is None or len(zsorts(ty)) != 1:
                # heterogeneous list literal: keep as a static python list
                return self.ok(s2, self.mk_tuple(vals))
            return self.ok(s2, self.mk_list(ty, vals))
        return self.ev_many(e.elts, st, k)

    def ev_Set(self, e, st):
        def k(s2, vals):
            ty = self.join_types([v.ty for v in vals])
            s = self.empty_set(TSet(ty))
            for v in vals:
                s = self.set_add(s, self.coerce(v, ty).z)
            return self.ok(s2, s)
        return self.ev_many(e.elts, st, k)

    def ev_Dict(self, e, st):
        if any(k is None for k in e.keys):
            self.oos('dict ** splat literal', e)

        def k(s2, vals):
            n = len(e.keys)
            ks, vs = vals[:n], vals[n:]
            if not ks:
                return self.ok(s2, SV(TDict(NONE, NONE), (), py={}))
            # dict literals are created as JSON-like objects (Val world): str keys -> Val
            kt = self.join_types([x.ty for x in ks])
            if kt != STR:
                vt = self.join_types([x.ty for x in vs])
                d = self.empty_dict(TDict(kt, vt))
                for a, b in zip(ks, vs):
                    d = self.dict_set(d, self.coerce(a, kt).z, b)
                return self.ok(s2, d)
            vt = vs[0].ty if all(x.ty == vs[0].ty for x in vs) else VAL
            if vt is None or len(zsorts(vt)) != 1 or vt == NONE:
                vt = VAL
            vv = [self.coerce(x, vt) for x in vs]
            if any(x is None for x in vv):
                vt = VAL
                vv = []
                for x in vs:
                    s2, y = self.to_val_deep(s2, x)
                    vv.append(y)
            d = self.empty_dict(TDict(STR, vt))
            for a, b in zip(ks, vv):
                d = self.dict_set(d, a.z, b)
            return self.ok(s2, d)
        return self.ev_many(list(e.keys) + list(e.values), st, k)

    def to_val_deep(self, st, v):
        """inject any value into Val; lists / str-keyed dicts become JSON containers in the
        $vlist / $vobj heaps (fresh ids) -> (st, Val SV)"""
        c = self.coerce(v, VAL)
        if c is not None:
            return st, c
        ty = v.ty
        if isinstance(ty, TList) or (isinstance(ty, TTuple) and v.py is not None):
            if isinstance(ty, TTuple):
                items = []
                for x in v.py:
                    st, y = self.to_val_deep(st, x)
                    items.append(y)
                lv = self.mk_list(VAL, items)
            elif not v.t:
                lv = self.L_empty(VAL)
            else:
                i = z3.Int(fresh_name('i'))
                st, ev = self.to_val_deep(st, self.L_at(v, i))
                lv = SV(TList(VAL), [z3.Lambda([i], ev.z), v.t[1]])
            st, lid = self.alloc(st, '$vlist')
            st = self.write_field(st, lid, '$vlist', 'seq', lv)
            return st, SV(VAL, Val.VList(lid))
        if isinstance(ty, TDict) and (ty.k in (STR, NONE)):
            if not v.t:
                dv = self.empty_dict(TDict(STR, VAL))
            else:
                k = z3.String(fresh_name('k'))
                st, ev = self.to_val_deep(st, self.dict_get(v, k))
                dv = SV(TDict(STR, VAL), [v.t[0], z3.Lambda([k], ev.z), v.t[-1]])
            st, oid = self.alloc(st, '$vobj')
            st = self.vobj_write(st, oid, dv)
            return st, SV(VAL, Val.VObj(oid))
        # anything else becomes an opaque python object inside a Val
        return st, SV(VAL, Val.VRef(z3.Int(fresh_name('pyobj'))))

    def join_types(self, tys):
        tys = [t for t in tys]
        if not tys:
            return None
        t0 = tys[0]
        if all(t == t0 for t in tys):
            return t0
        if all(t in (INT, BOOL) for t in tys):
            return INT
        if all(t in (INT, BOOL, REAL) for t in tys):
            return REAL
        refs = [t for t in tys if isinstance(t, TRef)]
        if refs and all(isinstance(t, TRef) or t == NONE for t in tys) and \
                all(r == refs[0] for r in refs):
            return refs[0]
        if all(t in (INT, BOOL, REAL, STR, NONE, VAL, BYTES) or isinstance(t, TRef) for t in tys):
            return VAL
        return None

    def ev_Lambda(self, e, st):
        return self.ok(st, mk_py(('closure', e, dict(st.env), self.modinfo)))

    def ev_IfExp(self, e, st):
        out = []
        for r in self.ev(e.test, st):
            if r.exc is not None:
                out.append(r)
                continue
            c = self.truthy(r.st, r.val)
            if self.spec_mode:
                a = self.ev1(e.body, r.st)
                b = self.ev1(e.orelse, r.st)
                out += self.ok(r.st, self.ite(c, a, b, e))
                continue
            t, f = self.branch(r.st, c)
            if t is not None:
                out += self.ev(e.body, t)
            if f is not None:
                out += self.ev(e.orelse, f)
        return out

    def ite(self, c, a, b, node=None):
        if a.ty != b.ty:
            ty = self.join_types([a.ty, b.ty])
            if ty is None:
                self.oos('ite of %r and %r' % (a.ty, b.ty), node)
            a, b = self.coerce(a, ty), self.coerce(b, ty)
        return SV(a.ty, [z3.If(c, x, y) for x, y in zip(a.t, b.t)], py=a.py)

    def ev_BoolOp(self, e, st):
        is_and = isinstance(e.op, ast.And)
        if self.spec_mode:
            vals = [self.ev1(v, st) for v in e.values]
            cs = [self.truthy(st, v) for v in vals]
            return self.ok(st, SV(BOOL, z3.And(*cs) if is_and else z3.Or(*cs)))

        def go(i, st):
            out = []
            for r in self.ev(e.values[i], st):
                if r.exc is not None:
                    out.append(r)
                    continue
                if i == len(e.values) - 1:
                    out.append(r)
                    continue
                c = self.truthy(r.st, r.val)
                cont, stop = self.branch(r.st, c if is_and else z3.Not(c))
                if stop is not None:
                    out.append(Res(stop, r.val))
                if cont is not None:
                    out += go(i + 1, cont)
            return out
        res = go(0, st)
        return self.merge_pure(st, res)

    def merge_pure(self, st0, res):
        """merge outcomes that differ only in path condition and (BOOL/INT) value: keeps the
        number of paths linear for `a and b and c` conditions"""
        normal = [r for r in res if r.exc is None]
        if len(normal) < 2:
            return res
        if not all(r.st.hver == st0.hver and r.st.env == st0.env and r.st.ghost == st0.ghost
                   for r in normal):
            return res
        tys = set(r.val.ty for r in normal)
        if len(tys) != 1 or list(tys)[0] not in (BOOL, INT, REAL, STR):
            return res
        ty = list(tys)[0]
        n0 = len(st0.pc)
        # value = ite chain over the path-condition deltas
        conds = [zand(r.st.pc[n0:]) for r in normal]
        val = normal[-1].val.z
        for c, r in reversed(list(zip(conds[:-1], normal[:-1]))):
            val = z3.If(c, r.val.z, val)
        merged = st0.assume(zor(conds))
        others = [r for r in res if r.exc is not None]
        return [Res(merged, SV(ty, val))] + others

    def ev_UnaryOp(self, e, st):
        out = []
        if self.spec_mode and isinstance(e.op, ast.Not):
            saved = self.spec_pol
            self.spec_pol = -saved
            try:
                v = self.ev1(e.operand, st)
            finally:
                self.spec_pol = saved
            return self.ok(st, SV(BOOL, z3.Not(self.truthy(st, v))))
        for r in self.ev(e.operand, st):
            if r.exc is not None:
                out.append(r)
                continue
            v = r.val
            if isinstance(e.op, ast.Not):
                out += self.ok(r.st, SV(BOOL, z3.Not(self.truthy(r.st, v))))
            elif isinstance(e.op, ast.USub):
                out += self.with_kinds(r.st, v, ['int', 'real'], e, lambda s2, x: self.ok(
                    s2, SV(x.ty if x.ty != BOOL else INT, -self.coerce(x, INT if x.ty == BOOL else x.ty).z)))
            elif isinstance(e.op, ast.UAdd):
                out += self.ok(r.st, v)
            else:
                self.oos('unary op', e)
        return out

    # ------------------------------------------------------------------ binary ops
    def ev_BinOp(self, e, st):
        return self.ev_many([e.left, e.right], st,
                            lambda s2, vs: self.binop(s2, e.op, vs[0], vs[1], e))

    def binop(self, st, op, a, b, node):
        if isinstance(op, ast.Mod) and a.ty == STR:
            return self.ok(st, self.percent_format(st, a, b, node))
        if a.ty == VAL or b.ty == VAL:
            # dynamic operands: split on the admissible kinds
            kinds = ['int', 'real', 'str', 'bool']
            return self.with_kinds(st, a, kinds, node, lambda s2, x: self.with_kinds(
                s2, b, kinds, node, lambda s3, y: self.binop(s3, op, x, y, node)))
        num = (INT, REAL, BOOL)
        if a.ty in num and b.ty in num:
            return self.arith(st, op, a, b, node)
        if isinstance(op, ast.Add):
            if a.ty == PATH and b.ty == STR and z3.is_string_value(b.z):
                return self.ok(st, SV(PATH, self.path_cat(a.z, b.z.as_string())))
            if a.ty == STR and b.ty == STR:
                return self.ok(st, SV(STR, z3.Concat(a.z, b.z)))
            if a.ty == BYTES and b.ty == BYTES:
                return self.ok(st, SV(BYTES, z3.Concat(a.z, b.z)))
            if isinstance(a.ty, TList) and isinstance(b.ty, TList):
                if a.ty.elem == NONE:
                    return self.ok(st, b)
                if b.ty.elem == NONE:
                    return self.ok(st, a)
                if a.ty == b.ty:
                    return self.ok(*self.L_concat(st, a, b))
            if isinstance(a.ty, TTuple) and isinstance(b.ty, TTuple) and a.py is not None and b.py is not None:
                return self.ok(st, self.mk_tuple(list(a.py) + list(b.py)))
            if isinstance(a.ty, TList) and isinstance(b.ty, TTuple) and b.py is not None:
                c = self.coerce(b, a.ty)
                if c is not None:
                    return self.ok(*self.L_concat(st, a, c))
            return self.raise_(st, 'TypeError', node)
        if isinstance(op, ast.Mod) and a.ty == STR:
            return self.ok(st, self.percent_format(st, a, b, node))
        if isinstance(op, ast.Mult) and a.ty == STR and b.ty == INT:
            return self.ok(st, SV(STR, z3.Const(fresh_name('strmul'), S)))
        if isinstance(op, ast.Sub) and isinstance(a.ty, TSet) and isinstance(b.ty, TSet):
            return self.ok(*self.set_binop(st, 'diff', a, b))
        if isinstance(op, ast.BitOr) and isinstance(a.ty, TSet) and isinstance(b.ty, TSet):
            return self.ok(*self.set_binop(st, 'union', a, b))
        if isinstance(op, ast.BitAnd) and isinstance(a.ty, TSet) and isinstance(b.ty, TSet):
            return self.ok(*self.set_binop(st, 'inter', a, b))
        if self.spec_mode:
            self.oos('spec binop %s on %r,%r' % (type(op).__name__, a.ty, b.ty), node)
        return self.raise_(st, 'TypeError', node)

    def set_binop(self, st, kind, a, b):
        if a.ty.elem == NONE:
            a = self.empty_set(b.ty)
        if b.ty.elem == NONE:
            b = self.empty_set(a.ty)
        (ks,) = zsorts(a.ty.elem)
        mem = {'diff': z3.SetDifference, 'union': z3.SetUnion, 'inter': z3.SetIntersect}[kind](a.t[0], b.t[0])
        n = z3.Int(fresh_name('card'))
        res = SV(a.ty, [mem, n])
        facts = self.dict_wf(res)
        if kind == 'diff':
            facts.append(n <= a.t[1])
            facts.append(n >= a.t[1] - b.t[1])
        elif kind == 'union':
            facts += [n >= a.t[1], n >= b.t[1], n <= a.t[1] + b.t[1]]
        else:
            facts += [n <= a.t[1], n <= b.t[1]]
        return st.assume(*facts), res

    def arith(self, st, op, a, b, node):
        if isinstance(op, (ast.BitAnd, ast.BitOr, ast.BitXor, ast.LShift, ast.RShift)):
            if a.ty in (INT, BOOL) and b.ty in (INT, BOOL):
                f = ufun('py_' + type(op).__name__.lower(), z3.IntSort(), z3.IntSort(), z3.IntSort())
                x, y = self.coerce(a, INT).z, self.coerce(b, INT).z
                if isinstance(op, ast.BitAnd) and z3.is_int_value(y) and y.as_long() >= 0 and \
                        (y.as_long() & (y.as_long() + 1)) == 0:
                    return self.guard(st, x >= 0, 'OutOfSubsetNegAnd', node,
                                      lambda s2: self.ok(s2, SV(INT, x % (y.as_long() + 1))))
                if isinstance(op, ast.RShift) and z3.is_int_value(y):
                    return self.ok(st, SV(INT, x / (2 ** y.as_long())))
                return self.ok(st, SV(INT, f(x, y)))
        isreal = REAL in (a.ty, b.ty) or isinstance(op, ast.Div)
        ty = REAL if isreal else INT
        x, y = self.coerce(a, ty).z, self.coerce(b, ty).z
        if isinstance(op, ast.Add):
            return self.ok(st, SV(ty, x + y))
        if isinstance(op, ast.Sub):
            return self.ok(st, SV(ty, x - y))
        if isinstance(op, ast.Mult):
            return self.ok(st, SV(ty, x * y))
        if isinstance(op, ast.Div):
            return self.guard(st, y != 0, 'ZeroDivisionError', node,
                              lambda s2: self.ok(s2, SV(REAL, x / y)))
        if isinstance(op, (ast.FloorDiv, ast.Mod)) and ty == INT:
            # z3 div/mod agree with python floor semantics for positive divisors
            def k(s2):
                if isinstance(op, ast.FloorDiv):
                    return self.ok(s2, SV(INT, z3.If(y > 0, x / y, -((-x) / (-y)) - z3.If((-x) % (-y) == 0, 0, 0))))
                return self.ok(s2, SV(INT, z3.If(y > 0, x % y, -((-x) % (-y)))))
            return self.guard(st, y != 0, 'ZeroDivisionError', node, k)
        if isinstance(op, ast.Pow) and z3.is_int_value(y) and ty == INT and 0 <= y.as_long() <= 4:
            r = z3.IntVal(1)
            for _ in range(y.as_long()):
                r = r * x
            return self.ok(st, SV(INT, r))
        self.oos('arithmetic %s on %r' % (type(op).__name__, ty), node)

    def percent_format(self, st, fmt, args, node):
        """'%s.%s' % (a, b): exact when the format is a literal using only %s/%d/%i with str/int
        arguments, otherwise an unconstrained fresh string"""
        if z3.is_string_value(fmt.z) and fmt.z.as_string() == '%s.%d' and isinstance(args.ty, TTuple) \
                and args.py is not None and len(args.py) == 2 and args.py[0].ty == PATH and args.py[1].ty == INT:
            # T-STDLIB: '%s.%d' % (a, i) -- numbered path; injective in i and never equal to a
            return SV(PATH, self.path_idx(args.py[0].z, args.py[1].z))
        if z3.is_string_value(fmt.z):
            f = fmt.z.as_string()
            items = list(args.py) if isinstance(args.ty, TTuple) and args.py is not None else [args]
            parts = []
            i = 0
            ok = True
            cur = ''
            ai = 0
            while i < len(f):
                if f[i] == '%' and i + 1 < len(f):
                    c = f[i + 1]
                    if c == '%':
                        cur += '%'
                        i += 2
                        continue
                    if c in 'sdi' and ai < len(items) and (
                            (c == 's' and items[ai].ty in (STR, INT, VAL)) or
                            (c in 'di' and items[ai].ty == INT)):
                        if cur:
                            parts.append(z3.StringVal(cur))
                            cur = ''
                        parts.append(self.to_str_term(st, items[ai]))
                        ai += 1
                        i += 2
                        continue
                    ok = False
                    break
                cur += f[i]
                i += 1
            if ok and ai == len(items):
                if cur:
                    parts.append(z3.StringVal(cur))
                if not parts:
                    return mk_str('')
                return SV(STR, z3.Concat(*parts) if len(parts) > 1 else parts[0])
        return SV(STR, z3.Const(fresh_name('fmt'), S))

    # ------------------------------------------------------------------ comparisons
    def ev_Compare(self, e, st):
        operands = [e.left] + list(e.comparators)
        if self.spec_mode and self.spec_pol != 0:
            # operands of a comparison occur in both polarities
            saved = self.spec_pol
            self.spec_pol = 0
            try:
                return self.ev_Compare(e, st)
            finally:
                self.spec_pol = saved

        def k(s2, vals):
            conds = []
            outs = [(s2, [])]
            for i, op in enumerate(e.ops):
                new = []
                for s3, cs in outs:
                    for r in self.compare(s3, op, vals[i], vals[i + 1], e):
                        if r.exc is not None:
                            new.append((r, None))
                        else:
                            new.append((r.st, cs + [r.val.z]))
                outs2 = []
                excs = []
                for a, b in new:
                    if b is None:
                        excs.append(a)
                    else:
                        outs2.append((a, b))
                outs = outs2
                conds += excs
            res = [Res(s3, SV(BOOL, zand(cs))) for s3, cs in outs]
            return res + conds
        return self.ev_many(operands, st, k)

    def compare(self, st, op, a, b, node):
        if isinstance(op, (ast.Eq, ast.NotEq)):
            c = self.eq(st, a, b)
            return self.ok(st, SV(BOOL, c if isinstance(op, ast.Eq) else z3.Not(c)))
        if isinstance(op, (ast.Is, ast.IsNot)):
            if a.ty == NONE or b.ty == NONE:
                c = self.is_none(b if a.ty == NONE else a)
            elif a.ty == BOOL and b.ty == BOOL:
                c = a.z == b.z
            elif isinstance(a.ty, TRef) and isinstance(b.ty, TRef):
                c = a.z == b.z
            elif a.ty == VAL and b.ty == BOOL:
                c = z3.And(Val.is_VBool(a.z), Val.vb(a.z) == b.z)
            elif a.ty == PY and b.ty == PY:
                c = z3.BoolVal(a.py == b.py)
            else:
                c = self.eq(st, a, b)
                if not self.spec_mode:
                    # identity of numbers, strings and containers is not equality: `x is y` implies x == y, the converse is
                    # left open (9 is signal.SIGKILL is False; small-int / interning behaviour is not relied on)
                    eqc = c
                    c = z3.Bool(fresh_name('is'))
                    facts = [z3.Implies(c, eqc)]
                    if a.ty == VAL and b.ty == VAL:
                        facts.append(z3.Implies(z3.And(eqc, z3.Or(Val.is_VNone(a.z), Val.is_VBool(a.z))), c))
                    st = st.assume(*facts)
            return self.ok(st, SV(BOOL, c if isinstance(op, ast.Is) else z3.Not(c)))
        if isinstance(op, (ast.In, ast.NotIn)):
            rs = self.contains(st, b, a, node)
            if isinstance(op, ast.NotIn):
                rs = [r if r.exc is not None else Res(r.st, SV(BOOL, z3.Not(r.val.z))) for r in rs]
            return rs
        # ordering
        if a.ty == VAL or b.ty == VAL:
            kinds = ['int', 'real', 'bool', 'str']
            return self.with_kinds(st, a, kinds, node, lambda s2, x: self.with_kinds(
                s2, b, kinds, node, lambda s3, y: self.compare(s3, op, x, y, node)))
        num = (INT, REAL, BOOL)
        if a.ty in num and b.ty in num:
            ty = REAL if REAL in (a.ty, b.ty) else INT
            x, y = self.coerce(a, ty).z, self.coerce(b, ty).z
        elif a.ty == STR and b.ty == STR:
            x, y = a.z, b.z
        elif isinstance(a.ty, TRef) and isinstance(b.ty, TRef):
            self.oos('ordering of objects', node)
        else:
            if self.spec_mode:
                self.oos('spec ordering of %r,%r' % (a.ty, b.ty), node)
            return self.raise_(st, 'TypeError', node)
        if isinstance(op, ast.Lt):
            c = x < y
        elif isinstance(op, ast.LtE):
            c = x <= y
        elif isinstance(op, ast.Gt):
            c = x > y
        else:
            c = x >= y
        return self.ok(st, SV(BOOL, c))

    def contains(self, st, cont, x, node):
        ty = cont.ty
        if isinstance(ty, TDict):
            if ty.k == NONE:
                return self.ok(st, mk_bool(False))
            k = self.coerce(x, ty.k)
            if k is None:
                if x.ty == VAL and ty.k in (STR, INT):
                    tag = Val.is_VStr(x.z) if ty.k == STR else Val.is_VInt(x.z)
                    kk = Val.vs(x.z) if ty.k == STR else Val.vi(x.z)
                    return self.ok(st, SV(BOOL, z3.And(tag, self.dict_has(cont, kk))))
                return self.ok(st, mk_bool(False))
            return self.ok(st, SV(BOOL, self.dict_has(cont, k.z)))
        if isinstance(ty, TSet):
            if ty.elem == NONE:
                return self.ok(st, mk_bool(False))
            k = self.coerce(x, ty.elem)
            if k is None:
                return self.ok(st, mk_bool(False))
            return self.ok(st, SV(BOOL, z3.Select(cont.t[0], k.z)))
        if isinstance(ty, TList):
            if ty.elem == NONE:
                return self.ok(st, mk_bool(False))
            k = self.coerce(x, ty.elem)
            if k is None:
                if x.ty == VAL:
                    # element type scalar: compare through injection
                    i = z3.Int(fresh_name('i'))
                    elem = self.L_at(cont, i)
                    return self.ok(st, SV(BOOL, z3.Exists([i], z3.And(
                        0 <= i, i < self.L_len(cont), self.eq(st, elem, x)))))
                return self.ok(st, mk_bool(False))
            return self.ok(st, SV(BOOL, self.L_contains(cont, k.z)))
        if isinstance(ty, TTuple) and cont.py is not None:
            return self.ok(st, SV(BOOL, zor([self.eq(st, x, i) for i in cont.py])))
        if ty == STR:
            if x.ty == STR:
                return self.ok(st, SV(BOOL, z3.Contains(cont.z, x.z)))
            if x.ty == VAL:
                return self.with_kinds(st, x, ['str'], node,
                                       lambda s2, y: self.ok(s2, SV(BOOL, z3.Contains(cont.z, y.z))))
            return self.raise_(st, 'TypeError', node)
        if ty == VAL:
            def on(s2, c):
                z = c.z
                if Val.is_VObj is not None and c.ty == VAL:
                    pass
                return []
            cases, rest = ([], None)
            if self.spec_mode:
                d = self.vobj(st, Val.vo(cont.z))
                k = self.coerce(x, STR) if x.ty == STR else SV(STR, Val.vs(x.z))
                return self.ok(st, SV(BOOL, z3.And(Val.is_VObj(cont.z), self.dict_has(d, k.z))))
            cases, rest = self.val_split(st, cont, ['obj', 'list', 'str'])
            out = []
            for kind, s2, c in cases:
                if kind == 'obj':
                    d = self.vobj(s2, Val.vo(c.z))
                    if x.ty == STR:
                        out += self.ok(s2, SV(BOOL, self.dict_has(d, x.z)))
                    elif x.ty == VAL:
                        out += self.ok(s2, SV(BOOL, z3.And(Val.is_VStr(x.z),
                                                          self.dict_has(d, Val.vs(x.z)))))
                    else:
                        out += self.ok(s2, mk_bool(False))
                elif kind == 'list':
                    sq = self.vlist(s2, Val.vl(c.z))
                    out += self.contains(s2, sq, self.coerce(x, VAL) or x, node)
                else:
                    out += self.contains(s2, c, x, node)
            if rest is not None:
                out += self.raise_(rest, 'TypeError', node)
            return out
        if ty == PY and isinstance(cont.py, tuple) and cont.py[0] == 'modvar':
            self.oos('membership in module variable %s' % (cont.py[1],), node)
        self.oos('membership in %r' % (ty,), node)

    # ------------------------------------------------------------------ attribute / subscript
    def ev_Attribute(self, e, st):
        out = []
        for r in self.ev(e.value, st):
            if r.exc is not None:
                out.append(r)
            else:
                out += self.get_attr(r.st, r.val, e.attr, e)
        return out

    def get_attr(self, st, v, attr, node):
        ty = v.ty
        if ty == PY:
            kind = v.py[0]
            if kind == 'module':
                return self.ok(st, self.module_attr(v.py[1], attr, node))
            if kind == 'class':
                return self.ok(st, mk_py(('func', v.py[1] + '.' + attr)))
            if kind == 'extern':
                if (v.py[1] + '.' + attr) in self.spec.consts:
                    return self.ok(st, self.const_sv(self.spec.consts[v.py[1] + '.' + attr], node))
                return self.ok(st, mk_py(('extern', v.py[1] + '.' + attr)))
            if kind == 'excclass':
                return self.ok(st, mk_py(('extern', v.py[1] + '.' + attr)))
            if kind == 'super':
                return self.ok(st, mk_py(('superbound', v.py[1], v.py[2], attr)))
            if kind == 'rematch':
                if attr == 'group':
                    return self.ok(st, mk_py(('rematch_group', v.py[1])))
                self.oos('match.%s' % attr, node)
            self.oos('attribute %s of %r' % (attr, v.py[:2]), node)
        if ty == EXC:
            ex = v.py
            if attr in ex.fields:
                return self.ok(st, ex.fields[attr])
            if attr == 'args':
                return self.ok(st, mk_py(('excargs', ex)))
            # unknown attribute of an exception object: unconstrained
            fv = fresh(INT if attr == 'errno' else VAL, 'exc_' + attr)
            ex.fields[attr] = fv
            return self.ok(st, fv)
        if isinstance(ty, TRef):
            cls = ty.cls
            own = self.spec.field_owner(cls, attr)

            def k(s2):
                for cn in self.spec.mro(cls):
                    if attr in self.spec.classes[cn].const_attrs:
                        return self.ok(s2, mk_py(self.spec.classes[cn].const_attrs[attr]))
                if own is not None:
                    val = self.read_field(s2, v.z, cls, attr, node)
                    if isinstance(val.ty, TRef):
                        s2 = s2.assume(self.allocated_fact(s2, val.ty.cls, val.z))
                    return self.ok(s2, val)
                c = self.find_method_contract(cls, attr)
                if c is not None and c.kind == 'property':
                    return self.run_ghost_at(node, self.call_contract(s2, c, [v], {}, node, recv=v), args=[v], name=attr)
                if c is not None:
                    return self.ok(s2, mk_py(('bound', v, attr)))
                bm = self.builtin_base_method(cls, attr)
                if bm is not None:
                    return self.ok(s2, mk_py(('bound', v, attr)))
                self.oos('attribute %s.%s is neither a declared field nor a function under contract'
                         % (cls, attr), node)
            return self.guard(st, v.z != 0, 'AttributeError', node, k)
        if ty == NONE:
            return self.raise_(st, 'AttributeError', node)
        if ty in (STR, BYTES, VAL) or isinstance(ty, (TList, TDict, TSet, TTuple)):
            return self.ok(st, mk_py(('bound', v, attr)))
        self.oos('attribute %s of %r' % (attr, ty), node)

    def builtin_base_method(self, cls, attr):
        return None

    def find_method_contract(self, cls, attr):
        for c in self.spec.mro(cls):
            d = self.spec.classes[c]
            if d.qual:
                q = d.qual + '.' + attr
                if q in self.spec.contracts:
                    return self.spec.contracts[q]
            q2 = '$' + c + '.' + attr
            if q2 in self.spec.contracts:
                return self.spec.contracts[q2]
        return None

    def ev_Subscript(self, e, st):
        if isinstance(e.slice, ast.Slice):
            parts = [e.value] + [x for x in (e.slice.lower, e.slice.upper) if x is not None]
            if e.slice.step is not None:
                self.oos('slice step', e)

            def k(s2, vals):
                base = vals[0]
                i = 1
                lo = hi = None
                if e.slice.lower is not None:
                    lo = vals[i]
                    i += 1
                if e.slice.upper is not None:
                    hi = vals[i]
                return self.get_slice(s2, base, lo, hi, e)
            return self.ev_many(parts, st, k)
        return self.ev_many([e.value, e.slice], st,
                            lambda s2, vals: self.get_item(s2, vals[0], vals[1], e))

    def norm_index(self, idx, n):
        """python index normalisation (negative counts from the end); specs index raw"""
        if self.spec_mode and not z3.is_int_value(idx):
            return idx
        if z3.is_int_value(idx):
            return idx if idx.as_long() >= 0 else n + idx
        return z3.If(idx >= 0, idx, n + idx)

    def get_slice(self, st, base, lo, hi, node):
        if base.ty == VAL:
            return self.with_kinds(st, base, ['str'], node,
                                   lambda s2, b: self.get_slice(s2, b, lo, hi, node))
        if isinstance(base.ty, TList) and not base.t:
            return self.ok(st, base)
        if base.ty in (STR, BYTES) or isinstance(base.ty, TList):
            n = z3.Length(base.z) if base.ty in (STR, BYTES) else self.L_len(base)
            lo_t = z3.IntVal(0) if lo is None or lo.ty == NONE else self.clip(self.norm_index(lo.z, n), n)
            hi_t = n if hi is None or hi.ty == NONE else self.clip(self.norm_index(hi.z, n), n)
            if isinstance(base.ty, TList):
                return self.ok(*self.L_slice(st, base, lo_t, hi_t))
            ln = z3.If(hi_t > lo_t, hi_t - lo_t, 0)
            return self.ok(st, SV(base.ty, z3.SubSeq(base.z, lo_t, ln)))
        if isinstance(base.ty, TTuple) and base.py is not None:
            lo_c = None if lo is None or lo.ty == NONE else lo.z.as_long()
            hi_c = None if hi is None or hi.ty == NONE else hi.z.as_long()
            return self.ok(st, self.mk_tuple(list(base.py)[lo_c:hi_c]))
        self.oos('slice of %r' % (base.ty,), node)

    def clip(self, i, n):
        return z3.If(i < 0, 0, z3.If(i > n, n, i))

    def get_item(self, st, base, idx, node):
        ty = base.ty
        if isinstance(ty, TList):
            if idx.ty not in (INT, BOOL):
                if idx.ty == VAL:
                    return self.with_kinds(st, idx, ['int'], node,
                                           lambda s2, i: self.get_item(s2, base, i, node))
                return self.raise_(st, 'TypeError', node)
            if not base.t:
                return self.raise_(st, 'IndexError', node)
            n = self.L_len(base)
            i = self.norm_index(self.coerce(idx, INT).z, n)
            return self.guard(st, z3.And(0 <= i, i < n), 'IndexError', node,
                              lambda s2: self.ok_ref(s2, self.L_at(base, i)))
        if ty in (STR, BYTES):
            n = z3.Length(base.z)
            i = self.norm_index(self.coerce(idx, INT).z, n)
            return self.guard(st, z3.And(0 <= i, i < n), 'IndexError', node,
                              lambda s2: self.ok(s2, SV(ty, z3.SubString(base.z, i, 1))))
        if isinstance(ty, TDict):
            if ty.k == NONE:
                return self.raise_(st, 'KeyError', node)
            k = self.coerce(idx, ty.k)
            if k is None and idx.ty == VAL and ty.k in (STR, INT):
                kind = 'str' if ty.k == STR else 'int'
                return self.with_kinds(st, idx, [kind], node,
                                       lambda s2, i: self.get_item(s2, base, i, node), exc='KeyError')
            if k is None:
                return self.raise_(st, 'KeyError', node)
            return self.guard(st, self.dict_has(base, k.z), 'KeyError', node,
                              lambda s2: self.ok_ref(s2, self.dict_get(base, k.z)))
        if isinstance(ty, TTuple) and base.py is not None:
            if z3.is_int_value(idx.z):
                i = idx.z.as_long()
                if -len(base.py) <= i < len(base.py):
                    return self.ok(st, base.py[i])
                return self.raise_(st, 'IndexError', node)
            self.oos('symbolic index into a static tuple', node)
        if ty == PY and base.py[0] in ('extern', 'modvar'):      # modvar: a module-level table of the package (read by contract)
            q = base.py[1] + '.__getitem__'
            c = self.spec.contracts.get(q)
            if c is None:
                self.oos('subscript of external object %s without a trusted contract' % base.py[1], node)
            return self.call_contract(st, c, [idx], {}, node)
        if ty == PY and base.py[0] == 'excargs':
            ex = base.py[1]
            if z3.is_int_value(idx.z) and idx.z.as_long() == 0:
                if 'errno' in ex.fields:
                    return self.ok(st, ex.fields['errno'])
                fv = fresh(INT, 'exc_errno')
                ex.fields['errno'] = fv
                return self.ok(st, fv)
            self.oos('exception args index', node)
        if ty == VAL:
            cases, rest = self.val_split(st, base, ['obj', 'list', 'str'])
            out = []
            for kind, s2, c in cases:
                if kind == 'obj':
                    d = self.vobj(s2, Val.vo(c.z))
                    out += self.get_item(s2, d, idx, node)
                elif kind == 'list':
                    out += self.get_item(s2, self.vlist(s2, Val.vl(c.z)), idx, node)
                else:
                    if idx.ty in (INT, BOOL):
                        out += self.get_item(s2, SV(STR, Val.vs(c.z)), idx, node)
                    else:
                        out += self.raise_(s2, 'TypeError', node)
            if rest is not None:
                out += self.raise_(rest, 'TypeError', node)
            return out
        self.oos('subscript of %r' % (ty,), node)

    def ok_ref(self, st, val):
        if isinstance(val.ty, TRef):
            st = st.assume(self.allocated_fact(st, val.ty.cls, val.z))
        return self.ok(st, val)

    # ------------------------------------------------------------------ comprehensions
    def ev_ListComp(self, e, st):
        return self.comprehension(e, st, 'list')

    def ev_GeneratorExp(self, e, st):
        return self.comprehension(e, st, 'list')

    def ev_SetComp(self, e, st):
        return self.comprehension(e, st, 'set')

    def comprehension(self, e, st, kind):
        """[f(x) for x in src if c(x)] -> fresh sequence characterised by quantified axioms.
        f and c are evaluated as pure (spec-mode) expressions over a bound element; a body that
        can raise or has effects is outside the subset."""
        if len(e.generators) != 1:
            self.oos('nested comprehension', e)
        g = e.generators[0]
        out = []
        for r in self.ev(g.iter, st):
            if r.exc is not None:
                out.append(r)
                continue
            out += self.comp_over(e, g, r.st, r.val, kind)
        return out

    def comp_over(self, e, g, st, src, kind):
        its = self.iterable(st, src, g.iter)
        out = []
        for st, it in its:
            if it is None:
                continue
            if it['static'] is not None:
                # static unrolling
                out += self.comp_static(e, g, st, it['static'], kind)
                continue
            n = it['len']
            j = z3.Int(fresh_name('cj'))
            # bind element
            st_b = st.copy()
            elem = it['elem'](st_b, j)
            if isinstance(elem.ty, TRef):
                o_ = z3.Int(fresh_name('o'))
                arrs_, _, _ = self.heap_arrays(st, elem.ty.cls, '$alloc')
                st = st.assume(z3.ForAll([j], z3.Implies(z3.And(0 <= j, j < n), z3.Or(
                    elem.z == 0, z3.Select(arrs_[0], elem.z)))))
            st_b = self.bind_target(st_b, g.target, elem, g)
            self.spec_mode += 1
            self.binder_stack = getattr(self, 'binder_stack', []) + [j]
            try:
                conds = [self.truthy(st_b, self.ev1(c, st_b)) for c in g.ifs]
                fval = self.ev1(e.elt, st_b)
            finally:
                self.spec_mode -= 1
                self.binder_stack = self.binder_stack[:-1]
            cond = zand(conds)
            from . import rely as _rely
            if _rely.is_pending(fval) and fval.py[1] == 'call':
                if g.ifs:
                    self.oos('filtered comprehension of coroutine calls', e)
                p = fval.py[2]
                st_c, env_j = self.bind_call(st_b, p['c'], p['args'], p['kw'], p['node'], p['recv'], p['star'])
                if env_j is None:
                    self.oos('cannot bind the coroutine call inside the comprehension', e)
                out += self.ok(st, mk_py(('pending', 'list', {'c': p['c'], 'len': n, 'idx': j,
                                                              'env': env_j, 'node': e})))
                continue
            if len(zsorts(fval.ty)) != 1:
                self.oos('comprehension element of sort %r' % (fval.ty,), e)
            (es,) = zsorts(fval.ty)
            res = z3.Const(fresh_name('comp'), z3.ArraySort(z3.IntSort(), es))
            facts = []
            if not g.ifs:
                m = n
                res = z3.Lambda([j], fval.z)
            else:
                idx = z3.Function(fresh_name('cidx'), z3.IntSort(), z3.IntSort())
                m = z3.Int(fresh_name('clen'))
                facts.append(m >= 0)
                p = z3.Int(fresh_name('cp'))
                q = z3.Int(fresh_name('cq'))
                fval_at = lambda t: z3.substitute(fval.z, (j, t))
                cond_at = lambda t: z3.substitute(cond, (j, t))
                facts += [
                    m <= n,
                    FA([p], z3.Implies(z3.And(0 <= p, p < m), z3.And(
                        0 <= idx(p), idx(p) < n, cond_at(idx(p)), res[p] == fval_at(idx(p)))),
                        patterns=[res[p], idx(p)]),
                    FA([p, q], z3.Implies(z3.And(0 <= p, p < q, q < m), idx(p) < idx(q)),
                              patterns=[z3.MultiPattern(idx(p), idx(q))]),
                    z3.ForAll([j], z3.Implies(z3.And(0 <= j, j < n, cond), z3.Exists(
                        [p], z3.And(0 <= p, p < m, idx(p) == j)))),
                ]
            st2 = st.assume(*facts)
            if kind == 'list':
                out += self.ok(st2, SV(TList(fval.ty), [res, m]))
            else:
                s3, sv = self.set_of_seq(st2, SV(TList(fval.ty), [res, m]))
                out += self.ok(s3, sv)
        return out

    def comp_static(self, e, g, st, items, kind):
        def go(i, st, acc):
            if i == len(items):
                if not acc:
                    return self.ok(st, SV(TList(NONE), (), py=[]))
                ty = self.join_types([a.ty for a in acc])
                if ty is None or len(zsorts(ty)) != 1:
                    return self.ok(st, self.mk_tuple(acc))
                return self.ok(st, self.mk_list(ty, acc))
            s2 = self.bind_target(st, g.target, items[i], g)
            out = []

            def after_ifs(k, s3):
                if k == len(g.ifs):
                    res = []
                    for r in self.ev(e.elt, s3):
                        if r.exc is not None:
                            res.append(r)
                        else:
                            res += go(i + 1, r.st, acc + [r.val])
                    return res
                res = []
                for r in self.ev(g.ifs[k], s3):
                    if r.exc is not None:
                        res.append(r)
                        continue
                    t, f = self.branch(r.st, self.truthy(r.st, r.val))
                    if t is not None:
                        res += after_ifs(k + 1, t)
                    if f is not None:
                        res += go(i + 1, f, acc)
                return res
            return after_ifs(0, s2)
        return go(0, st, [])

    def set_of_seq(self, st, seq):
        et = seq.ty.elem
        (es,) = zsorts(et)
        mem = z3.Const(fresh_name('setof'), z3.ArraySort(es, z3.BoolSort()))
        n = z3.Int(fresh_name('card'))
        k = z3.Const(fresh_name('k'), es)
        i = z3.Int(fresh_name('i'))
        wit = z3.Function(fresh_name('wit'), es, z3.IntSort())
        res = SV(TSet(et), [mem, n])
        ln = self.L_len(seq)
        facts = [FA([i], z3.Implies(z3.And(0 <= i, i < ln), z3.Select(mem, z3.Select(seq.t[0], i))),
                           patterns=[z3.Select(seq.t[0], i)]),
                 FA([k], z3.Implies(z3.Select(mem, k), z3.And(
                     0 <= wit(k), wit(k) < ln, z3.Select(seq.t[0], wit(k)) == k)),
                     patterns=[z3.Select(mem, k)]),
                 n <= ln] + self.dict_wf(res)
        return st.assume(*facts), res

    # ------------------------------------------------------------------ yield (coroutines)
    def ev_Yield(self, e, st):
        if self.yield_hook is None:
            self.oos('yield outside coroutine mode', e)
        return self.yield_hook(e, st)

    def ev_Await(self, e, st):
        self.oos('await', e)
