"""Calls: builtins, methods of builtin types, calls by contract, inlined closures, iteration."""
import ast
import z3

from .tys import *   # noqa
from .state import State, Exc, Res
from .engine import FA
from .engine import (zand, zor, STR_OF_VAL, REPR_OF_VAL, INT_OF_STR_OK, INT_OF_STR,
                     REAL_OF_STR_OK, REAL_OF_STR, VC)
from .expr import ufun, S, TAG_TEST, unwrap_tag

MUTATORS = set(['pop', 'append', 'update', 'remove', 'add', 'extend', 'clear', 'setdefault',
                'insert', 'sort', 'discard', 'popitem', 'reverse'])
LOG_NAMES = set(['debug', 'info', 'warning', 'warn', 'error', 'exception', 'critical'])


class CallMixin(object):

    # ------------------------------------------------------------------ iteration protocol
    def iterable(self, st, sv, node):
        """-> list of (st, info|None); info = {'static': [SV] | None, 'len': z3 Int,
        'elem': fn(st, i) -> SV}.  None entry = TypeError path already emitted by caller"""
        ty = sv.ty
        if isinstance(ty, TTuple) and sv.py is not None:
            return [(st, {'static': list(sv.py), 'len': z3.IntVal(len(sv.py)), 'elem': None})]
        if isinstance(ty, TList):
            if ty.elem == NONE:
                return [(st, {'static': [], 'len': z3.IntVal(0), 'elem': None})]
            return [(st, {'static': None, 'len': self.L_len(sv),
                          'elem': lambda s, i, sv=sv: self.L_at(sv, i), 'seq': sv})]
        if isinstance(ty, (TDict, TSet)):
            if (ty.k if isinstance(ty, TDict) else ty.elem) == NONE:
                return [(st, {'static': [], 'len': z3.IntVal(0), 'elem': None})]
            st, ks = self.keys_seq(st, sv)
            return [(st, {'static': None, 'len': self.L_len(ks),
                          'elem': lambda s, i, ks=ks: self.L_at(ks, i), 'seq': ks})]
        if ty == PY:
            k = sv.py[0]
            if k == 'dictview':
                _, which, d = sv.py
                if d.ty.k == NONE:
                    return [(st, {'static': [], 'len': z3.IntVal(0), 'elem': None})]
                st, ks = self.keys_seq(st, d)

                def elem(s, i, ks=ks, d=d, which=which):
                    key = self.L_at(ks, i)
                    if which == 'keys':
                        return key
                    val = self.dict_get(d, key.z)
                    if which == 'values':
                        return val
                    return self.mk_tuple([key, val])
                info = {'static': None, 'len': self.L_len(ks), 'elem': elem, 'keys': ks, 'dict': d}
                return [(st, info)]
            if k == 'range':
                _, lo, hi, step = sv.py
                if z3.is_int_value(lo) and z3.is_int_value(hi) and z3.is_int_value(step):
                    r = range(lo.as_long(), hi.as_long(), step.as_long())
                    if len(r) <= 8:
                        return [(st, {'static': [mk_int(x) for x in r], 'len': z3.IntVal(len(r)),
                                      'elem': None})]
                if z3.is_int_value(step) and step.as_long() in (1, -1):
                    up = step.as_long() == 1
                    d = (hi - lo) if up else (lo - hi)
                    n = z3.Int(fresh_name('range_n'))
                    st = st.assume(n >= 0, z3.Implies(d > 0, n == d), z3.Implies(d <= 0, n == 0))
                    if up:
                        return [(st, {'static': None, 'len': n, 'elem': lambda s, i, lo=lo: SV(INT, lo + i)})]
                    return [(st, {'static': None, 'len': n, 'elem': lambda s, i, lo=lo: SV(INT, lo - i)})]
                self.oos('range with symbolic step', node)
            if k == 'enumerate':
                inner = self.iterable(st, sv.py[1], node)
                out = []
                for s2, inf in inner:
                    if inf is None:
                        out.append((s2, None))
                    elif inf['static'] is not None:
                        out.append((s2, {'static': [self.mk_tuple([mk_int(i), x])
                                                    for i, x in enumerate(inf['static'])],
                                         'len': inf['len'], 'elem': None}))
                    else:
                        out.append((s2, {'static': None, 'len': inf['len'],
                                         'elem': lambda s, i, inf=inf: self.mk_tuple(
                                             [SV(INT, i), inf['elem'](s, i)])}))
                return out
            if k == 'const' and isinstance(sv.py[1], (tuple, list)):
                return self.iterable(st, self.const_sv(sv.py[1]), node)
        if ty == VAL:
            cases, rest = self.val_split(st, sv, ['obj', 'list'])
            out = []
            for kind, s2, c in cases:
                if kind == 'obj':
                    out += self.iterable(s2, self.vobj(s2, Val.vo(c.z)), node)
                else:
                    out += self.iterable(s2, self.vlist(s2, Val.vl(c.z)), node)
            if rest is not None:
                out.append((rest, None))
            return out
        if ty == STR:
            return [(st, {'static': None, 'len': z3.Length(sv.z),
                          'elem': lambda s, i, sv=sv: SV(STR, z3.SubString(sv.z, i, 1))})]
        self.oos('iteration over %r' % (ty,), node)

    def seq_of_iterable(self, st, sv, node):
        """materialise an iterable as a TList value -> list of (st, SV|None)"""
        out = []
        for s2, inf in self.iterable(st, sv, node):
            if inf is None:
                out.append((s2, None))
                continue
            if inf['static'] is not None:
                items = inf['static']
                if not items:
                    out.append((s2, SV(TList(NONE), (), py=[])))
                    continue
                ty = self.join_types([i.ty for i in items])
                if ty is None or len(zsorts(ty)) != 1:
                    out.append((s2, self.mk_tuple(items)))
                else:
                    out.append((s2, self.mk_list(ty, items)))
                continue
            if 'seq' in inf:
                out.append((s2, inf['seq']))
                continue
            i = z3.Int(fresh_name('i'))
            e = inf['elem'](s2, i)
            if len(zsorts(e.ty)) != 1:
                self.oos('list() of multi-component elements', node)
            (es,) = zsorts(e.ty)
            res = z3.Const(fresh_name('lst'), z3.ArraySort(z3.IntSort(), es))
            s3 = s2.assume(FA([i], z3.Implies(z3.And(0 <= i, i < inf['len']), res[i] == e.z),
                                     patterns=[res[i]]))
            out.append((s3, SV(TList(e.ty), [res, inf['len']])))
        return out

    def bind_target(self, st, target, val, node):
        """bind a for/comprehension/assignment target to a value (pure part: names & tuples)"""
        if isinstance(target, ast.Name):
            return st.setvar(target.id, val)
        if isinstance(target, (ast.Tuple, ast.List)):
            items = self.unpack(st, val, len(target.elts), node)
            if items is None:
                self.oos('cannot unpack %r into %d targets' % (val.ty, len(target.elts)), node)
            for t, v in zip(target.elts, items):
                st = self.bind_target(st, t, v, node)
            return st
        self.oos('binding target %s' % type(target).__name__, node)

    def unpack(self, st, val, n, node):
        if isinstance(val.ty, TTuple) and val.py is not None:
            if len(val.py) != n:
                return None
            return list(val.py)
        if isinstance(val.ty, TList) and val.ty.elem != NONE:
            return [self.L_at(val, z3.IntVal(i)) for i in range(n)]
        return None

    # ------------------------------------------------------------------ Call
    def ev_Call(self, e, st):
        f = e.func
        # ---- syntactic special forms
        if isinstance(f, ast.Name):
            nm = f.id
            if self.spec_mode and nm in self.SPEC_FORMS:
                return self.ok(st, getattr(self, 'spec_' + nm)(e, st))
            if nm == 'isinstance' and nm not in st.env:
                return self.do_isinstance(e, st)
            if nm == 'hasattr' and nm not in st.env:
                return self.do_hasattr(e, st)
            if nm == 'sorted' and nm not in st.env:
                return self.do_sorted(e, st)
            if nm == 'super' and nm not in st.env:
                if 'self' not in st.env:
                    self.oos('super() without self', e)
                return self.ok(st, mk_py(('super', self.fi.cls, st.env['self'])))
            if nm in self.spec.preds and nm not in st.env:
                return self.call_pred(e, st)
        if isinstance(f, ast.Attribute):
            # logger.<level>(...) and warnings.warn(...): arguments evaluated, effect dropped
            if isinstance(f.value, ast.Name) and f.value.id == 'logger' and f.attr in LOG_NAMES \
                    and 'logger' not in st.env:
                self.dropped.append('logger.%s@%d' % (f.attr, e.lineno))
                return self.ev_many(list(e.args), st, lambda s2, vals: self.ok(s2, mk_none()))
            if isinstance(f.value, ast.Name) and f.value.id == 'warnings' and f.attr == 'warn':
                self.dropped.append('warnings.warn@%d' % e.lineno)
                return self.ev_many([a for a in e.args if not isinstance(a, ast.Starred)][:1], st,
                                    lambda s2, vals: self.ok(s2, mk_none()))
            # mutating method on an l-value container: write back
            if f.attr in MUTATORS and self.is_lvalue(f.value):
                return self.run_ghost_at(e, self.mutating_call(e, st))
        if isinstance(f, ast.Name) and f.id == 'dict' and 'dict' not in st.env and len(e.args) == 1 and \
                isinstance(e.args[0], (ast.ListComp, ast.GeneratorExp)) and \
                isinstance(e.args[0].elt, ast.Tuple) and len(e.args[0].elt.elts) == 2:
            return self.dict_of_pairs(e, st)
        # ---- general
        out = []
        for r in self.ev(f, st):
            if r.exc is not None:
                out.append(r)
                continue
            out += self.ev_args(e, r.st, lambda s2, args, kw, star, r=r: self.run_ghost_at(
                e, self.apply(s2, r.val, args, kw, e, star), args, kw, target=r.val))
        return out

    def run_ghost_at(self, e, out, args=(), kw=None, target=None, name=None):
        """sidecar ghost statements attached to a call (contract.ghost_at): executed after the
        call returned normally, so the ghost update is exactly as path-sensitive as the real call"""
        c = self.contract
        if c is None or not c.ghost_at or self.call_depth or self.spec_mode:
            return out
        if name is None:
            f = e.func
            name = f.attr if isinstance(f, ast.Attribute) else (f.id if isinstance(f, ast.Name) else None)
            if name is None and isinstance(f, ast.Subscript):
                name = '$subscript_call'        # table[key](...)
        # (name given: a property read `obj.name`, which is a call of the getter)
        stmts = c.ghost_at.get(name) or []
        stmts_always = c.ghost_at.get((name or '') + '!') or []      # 'callee!': also when the call raised
        if not stmts and not stmts_always:
            return out
        res = []
        for r in out:
            if r.exc is not None and not stmts_always:
                res.append(r)
                continue
            st = r.st
            for text in (stmts_always if r.exc is not None else list(stmts) + list(stmts_always)):
                tree = ast.parse(text.strip()).body[0]
                if not isinstance(tree, ast.Assign):
                    self.oos('ghost_at statement must be an assignment: %r' % text, e)
                tgt = tree.targets[0]
                s2 = st.copy()
                s2.env = dict(st.env)
                s2.env['args'] = self.mk_tuple(list(args))
                import re as _re
                for kname in _re.findall(r'kw_(\w+)', text):
                    s2.env['kw_' + kname] = mk_bool(False)
                for kname, kval in (kw or {}).items():
                    s2.env['kw_' + kname] = kval
                if r.val is not None and r.val.ty != PY:
                    s2.env['call_result'] = r.val
                if target is not None and target.ty != PY:
                    s2.env['call_target'] = target      # the callable that was invoked (table[key](...))
                val = self.sp(tree.value, s2)
                if isinstance(tgt, ast.Name) and tgt.id in self.spec.ghosts:
                    st = self.ghost_set(st, tgt.id, val)
                elif isinstance(tgt, ast.Attribute):
                    obj = self.sp(tgt.value, s2)
                    if not isinstance(obj.ty, TRef):
                        self.oos('ghost_at target %r is not an object field' % text, e)
                    st = self.write_field(st, obj.z, obj.ty.cls, tgt.attr, val, e)
                else:
                    self.oos('ghost_at statement must assign a declared ghost or ghost field: %r' % text, e)
            res.append(Res(st, r.val, r.exc))
        return res

    def dict_of_pairs(self, e, st):
        """dict((k(x), v(x)) for x in xs): result has exactly the keys k(x); the value of a key is
        v(x) for SOME x with that key (python: the last one) -- a sound over-approximation"""
        comp = e.args[0]
        g = comp.generators[0]
        if len(comp.generators) != 1 or g.ifs:
            self.oos('dict() over a filtered / nested comprehension', e)
        out = []
        for r in self.ev(g.iter, st):
            if r.exc is not None:
                out.append(r)
                continue
            for s2, inf in self.iterable(r.st, r.val, g.iter):
                if inf is None:
                    out += self.raise_(s2, 'TypeError', e)
                    continue
                if inf['static'] is not None:
                    self.oos('dict() over a static sequence', e)
                n = inf['len']
                j = z3.Int(fresh_name('dj'))
                sb = self.bind_target(s2.copy(), g.target, inf['elem'](s2, j), g)
                self.spec_mode += 1
                self.binder_stack = getattr(self, 'binder_stack', []) + [j]
                try:
                    kv = self.ev1(comp.elt.elts[0], sb)
                    vv = self.ev1(comp.elt.elts[1], sb)
                finally:
                    self.spec_mode -= 1
                    self.binder_stack = self.binder_stack[:-1]
                if len(zsorts(kv.ty)) != 1:
                    self.oos('dict key sort %r' % (kv.ty,), e)
                if len(zsorts(vv.ty)) != 1:
                    s2b, vv = self.to_val_deep(sb, vv)
                d = fresh(TDict(kv.ty, vv.ty), 'dictof')
                wit = z3.Function(fresh_name('dwit'), kv.z.sort(), z3.IntSort())
                k = z3.Const(fresh_name('k'), kv.z.sort())
                at = lambda t, x: z3.substitute(t, (j, x))
                facts = [FA([j], z3.Implies(z3.And(0 <= j, j < n), z3.Select(d.t[0], kv.z)),
                            patterns=[]),
                         FA([k], z3.Implies(z3.Select(d.t[0], k), z3.And(
                             0 <= wit(k), wit(k) < n, at(kv.z, wit(k)) == k,
                             z3.Select(d.t[1], k) == at(vv.z, wit(k)))), patterns=[z3.Select(d.t[0], k)]),
                         d.t[-1] <= n] + self.dict_wf(d)
                out += self.ok(s2.assume(*facts), d)
        return out

    def ev_args(self, e, st, k):
        pos = [a for a in e.args if not isinstance(a, ast.Starred)]
        stars = [a.value for a in e.args if isinstance(a, ast.Starred)]
        kws = [kw for kw in e.keywords if kw.arg is not None]
        dstars = [kw.value for kw in e.keywords if kw.arg is None]
        exprs = pos + [kw.value for kw in kws] + stars + dstars

        def kk(s2, vals):
            n = len(pos)
            args = vals[:n]
            kwv = dict((kw.arg, v) for kw, v in zip(kws, vals[n:n + len(kws)]))
            extra = vals[n + len(kws):]
            star = {'args': extra[:len(stars)], 'kwargs': extra[len(stars):]}
            return k(s2, args, kwv, star)
        return self.ev_many(exprs, st, kk)

    def is_lvalue(self, e):
        if isinstance(e, ast.Name):
            return True
        if isinstance(e, ast.Attribute):
            return self.is_lvalue(e.value)
        if isinstance(e, ast.Subscript):
            return self.is_lvalue(e.value) and not isinstance(e.slice, ast.Slice)
        return False

    def mutating_call(self, e, st):
        f = e.func
        out = []
        for r in self.ev(f.value, st):
            if r.exc is not None:
                out.append(r)
                continue
            recv = r.val

            def k(s2, args, kw, star, recv=recv):
                if recv.ty == PY:
                    res = []
                    for r2 in self.get_attr(s2, recv, f.attr, e):
                        if r2.exc is not None:
                            res.append(r2)
                        else:
                            res += self.run_ghost_at(e, self.apply(r2.st, r2.val, args, kw, e, star), args, kw)
                    return res
                if recv.ty == VAL or isinstance(recv.ty, TRef):
                    # reference semantics: no write-back
                    return self.run_ghost_at(e, self.apply(s2, mk_py(('bound', recv, f.attr)), args, kw, e, star),
                                             args, kw)
                res = self.container_mutate(s2, recv, f.attr, args, kw, e)
                out2 = []
                for s3, newc, ret, exc in res:
                    if exc is not None:
                        out2 += self.raise_(s3, exc, e)
                        continue
                    for s4 in self.assign_to(s3, f.value, newc, e):
                        if isinstance(s4, Res):
                            out2.append(s4)
                        else:
                            out2 += self.ok(s4, ret)
                return out2
            out += self.ev_args(e, r.st, k)
        return out

    def container_mutate(self, st, c, meth, args, kw, node):
        """-> list of (st, new container, return value, exc class|None)"""
        ty = c.ty
        if isinstance(ty, TDict):
            if meth == 'pop':
                if ty.k == NONE:
                    if len(args) > 1:
                        return [(st, c, args[1], None)]
                    return [(st, c, None, 'KeyError')]
                k = self.coerce(args[0], ty.k)
                if k is None:
                    if args[0].ty == VAL:
                        kk = Val.vs(args[0].z) if ty.k == STR else Val.vi(args[0].z)
                        tag = Val.is_VStr(args[0].z) if ty.k == STR else Val.is_VInt(args[0].z)
                        k = SV(ty.k, kk)
                        has = z3.And(tag, self.dict_has(c, kk))
                    else:
                        has = z3.BoolVal(False)
                        k = fresh(ty.k, 'nokey')
                else:
                    has = self.dict_has(c, k.z)
                t, f = self.branch(st, has)
                res = []
                if t is not None:
                    res.append((t, self.dict_del(c, k.z), self.dict_get(c, k.z), None))
                if f is not None:
                    if len(args) > 1:
                        dv = args[1]
                        res.append((f, c, dv, None))
                    else:
                        res.append((f, c, None, 'KeyError'))
                return res
            if meth == 'update':
                src = args[0]
                if isinstance(src.ty, TDict):
                    if src.ty.k == NONE:
                        return [(st, c, mk_none(), None)]
                    st2, nd = self.dict_update(st, c, src)
                    return [(st2, nd, mk_none(), None)]
                if src.ty == VAL and ty.k == STR and ty.v == VAL:
                    res = []
                    cases, rest = self.val_split(st, src, ['obj'])
                    for kind, s2, a in cases:
                        s3, nd = self.dict_update(s2, c, self.vobj(s2, Val.vo(a.z)))
                        res.append((s3, nd, mk_none(), None))
                    if rest is not None:
                        res.append((rest, c, None, 'TypeError'))
                    return res
                self.oos('dict.update with %r' % (src.ty,), node)
            if meth == 'clear':
                return [(st, self.empty_dict(ty), mk_none(), None)]
            if meth == 'setdefault':
                k = self.coerce(args[0], ty.k)
                has = self.dict_has(c, k.z)
                dv = self.coerce(args[1], ty.v)
                newc = SV(ty, [z3.If(has, a, b) for a, b in zip(c.t, self.dict_set(c, k.z, dv).t)])
                return [(st, newc, self.ite(has, self.dict_get(c, k.z), dv), None)]
        if isinstance(ty, TList):
            if meth == 'append':
                if ty.elem == NONE:
                    a = args[0]
                    if len(zsorts(a.ty)) != 1:
                        self.oos('append of %r to an untyped list' % (a.ty,), node)
                    return [(st, self.mk_list(a.ty, [a]), mk_none(), None)]
                a = self.coerce(args[0], ty.elem)
                if a is None:
                    self.oos('append %r to list of %r' % (args[0].ty, ty.elem), node)
                return [(st, self.L_append(c, a.z), mk_none(), None)]
            if meth == 'extend':
                b = self.coerce(args[0], ty)
                if b is None:
                    self.oos('extend %r with %r' % (ty, args[0].ty), node)
                s9, l9 = self.L_concat(st, c, b)
                return [(s9, l9, mk_none(), None)]
            if meth == 'pop' and len(args) == 1 and z3.is_int_value(args[0].z) and args[0].z.as_long() == 0:
                n = self.L_len(c)
                t, f = self.branch(st, n > 0)
                res = []
                if t is not None:
                    t, rest_ = self.L_slice(t, c, z3.IntVal(1), n)
                    res.append((t, rest_, self.L_at(c, z3.IntVal(0)), None))
                if f is not None:
                    res.append((f, c, None, 'IndexError'))
                return res
            if meth == 'pop' and len(args) <= 1:
                n = self.L_len(c)
                if args:
                    i0 = self.coerce(args[0], INT)
                    if i0 is None:
                        self.oos('list.pop with index of sort %r' % (args[0].ty,), node)
                    i = z3.If(i0.z < 0, i0.z + n, i0.z)
                else:
                    i = n - 1
                t, f = self.branch(st, z3.And(0 <= i, i < n))
                res = []
                if t is not None:
                    t, newl = self.L_delete(t, c, i)
                    res.append((t, newl, self.L_at(c, i), None))
                if f is not None:
                    res.append((f, c, None, 'IndexError'))
                return res
            if meth == 'remove':
                a = self.coerce(args[0], ty.elem)
                has = self.L_contains(c, a.z)
                t, f = self.branch(st, has)
                res = []
                if t is not None:
                    t, i = self.L_index(t, c, a.z)
                    t, newl = self.L_delete(t, c, i)
                    res.append((t, newl, mk_none(), None))
                if f is not None:
                    res.append((f, c, None, 'ValueError'))
                return res
        if isinstance(ty, TSet):
            if meth == 'add':
                if ty.elem == NONE:
                    a = args[0]
                    s0 = self.empty_set(TSet(a.ty))
                    return [(st, self.set_add(s0, a.z), mk_none(), None)]
                a = self.coerce(args[0], ty.elem)
                return [(st, self.set_add(c, a.z), mk_none(), None)]
            if meth == 'discard':
                a = self.coerce(args[0], ty.elem)
                return [(st, self.set_del(c, a.z), mk_none(), None)]
        self.oos('mutating method %s on %r' % (meth, ty), node)

    def L_delete(self, st, c, i):
        """the list without its element at index i (0 <= i < len assumed by the caller)"""
        n = self.L_len(c)
        newa = z3.Const(fresh_name('rm'), c.t[0].sort())
        j = z3.Int(fresh_name('j'))
        st = st.assume(
            FA([j], z3.Implies(z3.And(0 <= j, j < i), z3.Select(newa, j) == z3.Select(c.t[0], j)),
               patterns=[z3.Select(newa, j), z3.Select(c.t[0], j)]),
            FA([j], z3.Implies(z3.And(i <= j, j < n - 1), z3.Select(newa, j) == z3.Select(c.t[0], j + 1)),
               patterns=[z3.Select(newa, j)]),
            FA([j], z3.Implies(z3.And(i < j, j < n), z3.Select(newa, j - 1) == z3.Select(c.t[0], j)),
               patterns=[z3.Select(c.t[0], j)]))
        return st, SV(c.ty, [newa, n - 1])

    def dict_update(self, st, c, src):
        ty = c.ty
        (ks,) = zsorts(ty.k)
        k = z3.Const(fresh_name('k'), ks)
        new = fresh(ty, 'upd')
        conj = [z3.Select(new.t[0], k) == z3.Or(z3.Select(c.t[0], k), z3.Select(src.t[0], k))]
        srcv = self.coerce_dict_vals(src, ty)
        for n_, a, b in zip(new.t[1:-1], c.t[1:-1], srcv):
            conj.append(z3.Select(n_, k) == z3.If(z3.Select(src.t[0], k), z3.Select(b, k), z3.Select(a, k)))
        facts = [z3.ForAll([k], z3.And(*conj)), new.t[-1] >= c.t[-1], new.t[-1] >= src.t[-1],
                 new.t[-1] <= c.t[-1] + src.t[-1]] + self.dict_wf(new)
        return st.assume(*facts), new

    def coerce_dict_vals(self, src, ty):
        if src.ty.v == ty.v:
            return src.t[1:-1]
        self.oos('dict value sorts differ: %r vs %r' % (src.ty, ty))

    # ------------------------------------------------------------------ apply
    def apply(self, st, fn, args, kw, node, star=None):
        star = star or {'args': [], 'kwargs': []}
        if fn.ty == PY:
            kind = fn.py[0]
            if kind == 'builtin':
                return self.call_builtin(st, fn.py[1], args, kw, node)
            if kind == 'func':
                return self.call_qual(st, fn.py[1], args, kw, node, None, star)
            if kind == 'class':
                return self.construct(st, fn.py[1], args, kw, node, star)
            if kind == 'excclass':
                fields = {}
                if args and args[0].ty == STR:
                    fields['msg'] = args[0]
                for i, a in enumerate(args):
                    fields['arg%d' % i] = a
                return self.ok(st, SV(EXC, (), py=Exc(fn.py[1], fields)))
            if kind == 'closure':
                return self.call_closure(st, fn.py, args, kw, node)
            if kind == 'bound':
                return self.call_method(st, fn.py[1], fn.py[2], args, kw, node, star)
            if kind == 'superbound':
                return self.call_super(st, fn.py, args, kw, node, star)
            if kind == 'rematch_group':
                m = fn.py[1]
                if len(args) != 1 or not z3.is_int_value(args[0].z):
                    self.oos('match.group with a non-literal index', node)
                gi = args[0].z.as_long()
                if gi not in m['groups']:
                    self.oos('match.group(%d) is not modelled' % gi, node)
                return self.ok(st, m['groups'][gi])
            if kind == 'extern':
                q = fn.py[1]
                if q in self.spec.handlers:
                    return self.spec.handlers[q](self, st, args, kw, node)
                if q == 'functools:partial':
                    return self.ok(st, mk_py(('partial', args[0], list(args[1:]), dict(kw))))
                if q in ('re:match', 're:fullmatch'):
                    return self.ext_re_match(st, q.split(':')[1], args, kw, node)
                if q in self.spec.contracts:
                    return self.call_contract(st, self.spec.contracts[q], args, kw, node)
                self.oos('call of external function %s without a trusted contract' % q, node)
            if kind == 'partial':
                _, f2, a2, k2 = fn.py
                kk = dict(k2)
                kk.update(kw)
                return self.apply(st, f2, list(a2) + list(args), kk, node, star)
            self.oos('call of %r' % (fn.py[:2],), node)
        if isinstance(fn.ty, TRef):
            c = self.find_method_contract(fn.ty.cls, '__call__')
            if c is not None:
                return self.call_contract(st, c, [fn] + list(args), kw, node, recv=fn, star=star)
        if fn.ty == VAL or isinstance(fn.ty, TRef):
            # an unknown callable (hook, callback, stream object): contract '$callable'
            return self.call_unknown(st, fn, args, kw, node)
        self.oos('call of a value of sort %r' % (fn.ty,), node)

    def call_unknown(self, st, fn, args, kw, node):
        name = '$callable'
        c = self.spec.contracts.get(name)
        if c is None:
            self.oos('call of an unknown callable and no $callable contract in scope', node)
        return self.call_contract(st, c, [fn], {}, node)

    def call_qual(self, st, qual, args, kw, node, recv=None, star=None):
        if qual in self.spec.handlers:
            return self.spec.handlers[qual](self, st, args, kw, node)
        c = self.spec.contracts.get(qual)
        if c is None:
            # classmethod / staticmethod through class: 'mod:Class.meth'
            self.oos('call of %s which is not under contract' % qual, node)
        return self.call_contract(st, c, args, kw, node, recv, star)

    def call_method(self, st, recv, name, args, kw, node, star=None):
        ty = recv.ty
        if isinstance(ty, TRef):
            c = self.find_method_contract(ty.cls, name)
            if c is None:
                self.oos('method %s.%s is not under contract' % (ty.cls, name), node)
            try:
                static = (':' in c.qual and not c.qual.split(':')[1].startswith('$') and
                          self.src.find(c.qual).is_staticmethod)
            except Exception:
                static = False
            if static:      # @staticmethod reached through an instance: no receiver is passed
                return self.call_contract(st, c, list(args), kw, node, None, star)
            return self.call_contract(st, c, [recv] + list(args), kw, node, recv, star)
        if ty == STR:
            return self.str_method(st, recv, name, args, kw, node)
        if ty == BYTES:
            return self.bytes_method(st, recv, name, args, kw, node)
        if isinstance(ty, TDict):
            return self.dict_method(st, recv, name, args, kw, node)
        if isinstance(ty, TList):
            return self.list_method(st, recv, name, args, kw, node)
        if isinstance(ty, TSet):
            return self.set_method(st, recv, name, args, kw, node)
        if ty == VAL:
            return self.val_method(st, recv, name, args, kw, node, star)
        if isinstance(ty, TTuple):
            if name == 'index':
                self.oos('tuple.index', node)
        self.oos('method %s of %r' % (name, ty), node)

    # ---- str
    def str_method(self, st, s, name, args, kw, node):
        z = s.z
        if name == 'lower':
            return self.ok(st, SV(STR, self.str_lower(z)))
        if name == 'upper':
            return self.ok(st, SV(STR, self.str_upper(z)))
        if name == 'strip' and not args:
            return self.ok(st, SV(STR, self.str_strip(z)))
        if name in ('startswith', 'endswith'):
            a = args[0]
            f = z3.PrefixOf if name == 'startswith' else z3.SuffixOf
            if isinstance(a.ty, TTuple) and a.py is not None:
                return self.ok(st, SV(BOOL, zor([f(x.z, z) for x in a.py])))
            if a.ty == VAL:
                return self.with_kinds(st, a, ['str'], node,
                                       lambda s2, x: self.ok(s2, SV(BOOL, f(x.z, z))))
            if a.ty != STR:
                return self.raise_(st, 'TypeError', node)
            return self.ok(st, SV(BOOL, f(a.z, z)))
        if name == 'split':
            sep = args[0] if args else None
            maxsplit = args[1] if len(args) > 1 else kw.get('maxsplit')
            if sep is not None and sep.ty == STR and maxsplit is not None and \
                    z3.is_int_value(maxsplit.z) and maxsplit.z.as_long() == 1:
                i = z3.IndexOf(z, sep.z, 0)
                n = z3.Length(z)
                base = self.L_empty(STR).t[0]
                two = z3.Store(z3.Store(base, 0, z3.SubString(z, 0, i)), 1,
                               z3.SubString(z, i + z3.Length(sep.z), n))
                res = z3.If(i >= 0, two, z3.Store(base, 0, z))
                return self.ok(st, SV(TList(STR), [res, z3.If(i >= 0, z3.IntVal(2), z3.IntVal(1))]))
            SA = z3.ArraySort(z3.IntSort(), S)
            f = ufun('str_split', S, S, SA)
            fl = ufun('str_split_len', S, S, z3.IntSort())
            sepz = sep.z if sep is not None and sep.ty == STR else z3.StringVal('\x00ws')
            res = f(z, sepz)
            ln = fl(z, sepz)
            facts = [ln >= 1, z3.Implies(z3.Not(z3.Contains(z, sepz)),
                                         z3.And(ln == 1, z3.Select(res, 0) == z))]
            if sep is None:
                facts = [ln >= 0]
            return self.ok(st.assume(*facts), SV(TList(STR), [res, ln]))
        if name == 'rsplit':
            SA = z3.ArraySort(z3.IntSort(), S)
            f = ufun('str_rsplit', S, S, SA)
            fl = ufun('str_rsplit_len', S, S, z3.IntSort())
            return self.ok(st.assume(fl(z, args[0].z) >= 1),
                           SV(TList(STR), [f(z, args[0].z), fl(z, args[0].z)]))
        if name == 'replace':
            a, b = args[0], args[1]
            f = ufun('str_replace_all', S, S, S, S)
            res = f(z, a.z, b.z)
            facts = [z3.Implies(z3.Not(z3.Contains(z, a.z)), res == z)]
            return self.ok(st.assume(*facts), SV(STR, res))
        if name == 'format':
            # constant template with plain positional fields ({} / {N}): concatenation of str() of the arguments
            if z3.is_string_value(z) and not kw:
                import string as _string
                try:
                    parts = list(_string.Formatter().parse(z.as_string()))
                except ValueError:
                    parts = None
                if parts is not None and all((f is None) or ((f == '' or f.isdigit()) and not spec_ and conv is None)
                                             for (_, f, spec_, conv) in parts):
                    terms = []
                    auto = 0
                    ok_ = True
                    for lit, f, spec_, conv in parts:
                        if lit:
                            terms.append(z3.StringVal(lit))
                        if f is None:
                            continue
                        i = auto if f == '' else int(f)
                        if f == '':
                            auto += 1
                        if i >= len(args) or args[i].ty not in (INT, STR, BOOL):
                            ok_ = False
                            break
                        terms.append(self.to_str_term(st, args[i]))
                    if ok_:
                        res = terms[0] if len(terms) == 1 else (z3.Concat(*terms) if terms else z3.StringVal(''))
                        return self.ok(st, SV(STR, res))
            return self.ok(st, SV(STR, z3.Const(fresh_name('format'), S)))
        if name == 'join':
            f = ufun('str_join', S, z3.ArraySort(z3.IntSort(), S), z3.IntSort(), S)
            outs = []
            for s2, lst in self.seq_of_iterable(st, args[0], node):
                if lst is None:
                    outs += self.raise_(s2, 'TypeError', node)
                elif isinstance(lst.ty, TList) and lst.ty.elem == STR:
                    outs += self.ok(s2, SV(STR, f(z, lst.t[0], lst.t[1])))
                else:
                    outs += self.ok(s2, SV(STR, z3.Const(fresh_name('join'), S)))
            return outs
        if name in ('rstrip', 'lstrip'):
            f = ufun('str_' + name, S, S, S)
            a = args[0].z if args else z3.StringVal('\x00ws')
            res = f(z, a)
            return self.ok(st.assume(z3.Length(res) <= z3.Length(z)), SV(STR, res))
        if name == 'encode':
            f = ufun('str_encode', S, S)
            if 'utf8-roundtrip' not in self.axioms_used:
                # A-UTF8: decode(encode(s)) == s (str without lone surrogates)
                self.axioms_used.add('utf8-roundtrip')
                x = z3.String('ax_e')
                d = ufun('u_bytes_decode', S, S)
                self.global_axioms.append(FA([x], d(f(x)) == x, patterns=[f(x)]))
            return self.ok(st, SV(BYTES, f(z)))
        if name == 'find':
            return self.ok(st, SV(INT, z3.IndexOf(z, args[0].z, 0)))
        if name in ('isspace', 'isdigit', 'isalpha'):
            f = ufun('str_' + name, S, z3.BoolSort())
            return self.ok(st, SV(BOOL, f(z)))
        if name == 'splitlines':
            f = ufun('str_splitlines', S, z3.ArraySort(z3.IntSort(), S))
            fl = ufun('str_splitlines_len', S, z3.IntSort())
            return self.ok(st.assume(fl(z) >= 0), SV(TList(STR), [f(z), fl(z)]))
        if name == 'zfill':
            return self.ok(st, SV(STR, z3.Const(fresh_name('zfill'), S)))
        self.oos('str.%s' % name, node)

    def bytes_method(self, st, s, name, args, kw, node):
        if name == 'decode':
            f = ufun('u_bytes_decode', S, S)
            return self.ok(st, SV(STR, f(s.z)))
        if name == 'strip':
            f = ufun('bytes_strip', S, S)
            res = f(s.z)
            return self.ok(st.assume(z3.Length(res) <= z3.Length(s.z)), SV(BYTES, res))
        self.oos('bytes.%s' % name, node)

    # ---- dict (non-mutating; mutators go through mutating_call)
    def dict_method(self, st, d, name, args, kw, node):
        ty = d.ty
        if name in ('items', 'values', 'keys'):
            return self.ok(st, mk_py(('dictview', name, d)))
        if name == 'get':
            dflt = args[1] if len(args) > 1 else kw.get('default', mk_none())
            if ty.k == NONE:
                return self.ok(st, dflt)
            k = self.coerce(args[0], ty.k)
            if k is None:
                if args[0].ty == VAL and ty.k in (STR, INT):
                    kk = Val.vs(args[0].z) if ty.k == STR else Val.vi(args[0].z)
                    tag = Val.is_VStr(args[0].z) if ty.k == STR else Val.is_VInt(args[0].z)
                    has = z3.And(tag, self.dict_has(d, kk))
                    k = SV(ty.k, kk)
                else:
                    return self.ok(st, dflt)
            else:
                has = self.dict_has(d, k.z)
            v = self.dict_get(d, k.z)
            jt = self.join_types([v.ty, dflt.ty])
            if jt is not None and len(zsorts(jt)) == 1:
                return self.ok_ref(st, self.ite(has, v, dflt, node))
            t, f = self.branch(st, has)
            out = []
            if t is not None:
                out += self.ok_ref(t, v)
            if f is not None:
                out += self.ok(f, dflt)
            return out
        if name == 'copy':
            return self.ok(st, d)
        if name in MUTATORS:
            self.oos('mutating dict.%s on a non-lvalue' % name, node)
        self.oos('dict.%s' % name, node)

    def list_method(self, st, l, name, args, kw, node):
        if name == 'index':
            a = self.coerce(args[0], l.ty.elem)
            has = self.L_contains(l, a.z)

            def k(s2):
                s3, idx = self.L_index(s2, l, a.z)
                return self.ok(s3, SV(INT, idx))
            return self.guard(st, has, 'ValueError', node, k)
        if name == 'copy':
            return self.ok(st, l)
        if name == 'count':
            self.oos('list.count', node)
        self.oos('list.%s' % name, node)

    def set_method(self, st, s, name, args, kw, node):
        if name == 'intersection':
            return self.ok(*self.set_binop(st, 'inter', s, args[0]))
        if name == 'union':
            return self.ok(*self.set_binop(st, 'union', s, args[0]))
        if name == 'difference':
            return self.ok(*self.set_binop(st, 'diff', s, args[0]))
        if name == 'copy':
            return self.ok(st, s)
        self.oos('set.%s' % name, node)

    # ---- Val receivers: dispatch on the dynamic kind
    STR_METHODS = set(['lower', 'upper', 'strip', 'startswith', 'endswith', 'split', 'replace',
                       'format', 'join', 'rstrip', 'lstrip', 'encode', 'find', 'rsplit',
                       'isspace', 'isdigit', 'splitlines'])
    OBJ_METHODS = set(['get', 'items', 'keys', 'values', 'pop', 'update', 'copy', 'setdefault'])
    LIST_METHODS = set(['append', 'extend', 'index'])

    def val_method(self, st, recv, name, args, kw, node, star=None):
        kinds = []
        if name in self.STR_METHODS:
            kinds.append('str')
        if name in self.OBJ_METHODS:
            kinds.append('obj')
        if name in self.LIST_METHODS or name in ('pop', 'copy'):
            kinds.append('list')
        if name in ('decode', 'strip'):
            kinds.append('bytes')
        kinds.append('ref')
        cases, rest = self.val_split(st, recv, kinds)
        out = []
        for kind, s2, c in cases:
            if kind == 'str':
                out += self.str_method(s2, c, name, args, kw, node)
            elif kind == 'bytes':
                out += self.bytes_method(s2, c, name, args, kw, node)
            elif kind == 'obj':
                out += self.vobj_method(s2, c, name, args, kw, node)
            elif kind == 'list':
                out += self.vlist_method(s2, c, name, args, kw, node)
            else:
                # method of an unknown python object
                if name in self.spec.method_handlers:
                    out += self.spec.method_handlers[name](self, s2, c, args, node)
                    continue
                cn = '$method.' + name
                c2 = self.spec.contracts.get(cn) or self.spec.contracts.get('$method')
                if c2 is None and (name in self.STR_METHODS or name in self.OBJ_METHODS or
                                   name in self.LIST_METHODS):
                    # A-NOSTRLIKE: opaque objects do not implement str / dict / list method names
                    out += self.raise_(s2, 'AttributeError', node)
                    continue
                if c2 is None:
                    self.oos('method %s of an unknown object (no $method contract)' % name, node)
                out += self.call_contract(s2, c2, [c], {}, node)
        if rest is not None:
            out += self.raise_(rest, 'AttributeError', node)
        return out

    def vobj_method(self, st, c, name, args, kw, node):
        oid = Val.vo(c.z)
        d = self.vobj(st, oid)
        if name in ('get', 'items', 'keys', 'values'):
            return self.dict_method(st, d, name, args, kw, node)
        if name == 'copy':
            st2, nid = self.alloc(st, '$vobj')
            st2 = self.vobj_write(st2, nid, d)
            return self.ok(st2, SV(VAL, Val.VObj(nid)))
        if name in ('pop', 'update', 'setdefault'):
            if name == 'update' and args and args[0].ty == VAL:
                res = []
                for kind, s2, a in self.val_split(st, args[0], ['obj'])[0]:
                    src = self.vobj(s2, Val.vo(a.z))
                    s3, nd = self.dict_update(s2, d, src)
                    res += self.ok(self.vobj_write(s3, oid, nd), mk_none())
                return res
            outs = []
            for s2, newc, ret, exc in self.container_mutate(st, d, name, args, kw, node):
                if exc is not None:
                    outs += self.raise_(s2, exc, node)
                else:
                    outs += self.ok(self.vobj_write(s2, oid, newc), ret)
            return outs
        self.oos('object method %s' % name, node)

    def vlist_method(self, st, c, name, args, kw, node):
        lid = Val.vl(c.z)
        l = self.vlist(st, lid)
        if name in ('append', 'extend', 'pop'):
            outs = []
            a2 = [self.coerce(a, VAL) or a for a in args] if name == 'append' else args
            for s2, newc, ret, exc in self.container_mutate(st, l, name, a2, kw, node):
                if exc is not None:
                    outs += self.raise_(s2, exc, node)
                else:
                    outs += self.ok(self.write_field(s2, lid, '$vlist', 'seq', newc), ret)
            return outs
        return self.list_method(st, l, name, args, kw, node)

    def ext_re_match(self, st, fname, args, kw, node):
        from . import regex
        pat, s = args[0], args[1]
        if not (pat.ty == STR and z3.is_string_value(pat.z)):
            self.oos('re.%s with a non-literal pattern' % fname, node)
        mode = regex.MODELS.get((fname, pat.z.as_string()))
        if mode is None:
            self.oos('re.%s(%r): this pattern has no T-STDLIB model' % (fname, pat.z.as_string()), node)
        self.used_contracts.add('re:%s/%s' % (fname, pat.z.as_string()))

        def k(s2, sv):
            z = sv.z
            first, facts = regex.sig_facts(z)
            s2 = s2.assume(*facts)
            if mode == 'prefix':
                cond = first
            elif mode == 'full':
                cond = z3.And(first, regex.FULL(z))
            else:
                nl = z3.StringVal('\n')
                cond = z3.And(first, z3.Or(regex.FULL(z), z3.And(
                    z3.Not(regex.HAS3(z)), regex.REST(z) == nl),
                    z3.And(regex.HAS3(z), regex.REST2(z) == nl)))
            t, f = self.branch(s2, cond)
            out = []
            if t is not None:
                groups = {1: SV(STR, regex.G1(z)),
                          3: SV(VAL, z3.If(regex.HAS3(z), Val.VStr(regex.G3(z)), Val.VNone))}
                out += self.ok(t, mk_py(('rematch', {'groups': groups})))
            if f is not None:
                out += self.ok(f, mk_none())
            return out
        return self.with_kinds(st, s, ['str'], node, k)

    # ------------------------------------------------------------------ builtins
    def call_builtin(self, st, name, args, kw, node):
        m = getattr(self, 'bi_' + name, None)
        if m is None:
            self.oos('builtin %s' % name, node)
        return m(st, args, kw, node)

    def bi_len(self, st, args, kw, node):
        v = args[0]
        ty = v.ty
        if ty in (STR, BYTES) or isinstance(ty, TList):
            if isinstance(ty, TList):
                return self.ok(st, SV(INT, self.L_len(v)))
            return self.ok(st, SV(INT, z3.Length(v.z)))
        if isinstance(ty, (TDict, TSet)):
            if not v.t:
                return self.ok(st, mk_int(0))
            return self.ok(st, SV(INT, v.t[-1]))
        if isinstance(ty, TTuple):
            return self.ok(st, mk_int(len(ty.elems)))
        if ty == VAL:
            if self.spec_mode:
                self.oos('len() of a Val in a spec: use vlen()', node)
            cases, rest = self.val_split(st, v, ['str', 'list', 'obj', 'bytes'])
            out = []
            for kind, s2, c in cases:
                if kind in ('str', 'bytes'):
                    out += self.ok(s2, SV(INT, z3.Length(c.z)))
                elif kind == 'list':
                    out += self.ok(s2, SV(INT, self.vlist(s2, Val.vl(c.z)).t[1]))
                else:
                    out += self.ok(s2, SV(INT, self.vobj(s2, Val.vo(c.z)).t[-1]))
            if rest is not None:
                out += self.raise_(rest, 'TypeError', node)
            return out
        if isinstance(ty, TRef):
            c = self.find_method_contract(ty.cls, '__len__')
            if c is not None:
                return self.call_contract(st, c, [v], {}, node, recv=v)
        if ty == PY and v.py[0] == 'dictview':
            return self.ok(st, SV(INT, v.py[2].t[-1]))
        self.oos('len of %r' % (ty,), node)

    def int_of_str(self, st, s, node):
        ok = INT_OF_STR_OK(s)
        facts = [z3.Implies(z3.StrToInt(s) >= 0, z3.And(ok, INT_OF_STR(s) == z3.StrToInt(s))),
                 z3.Implies(z3.Length(s) == 0, z3.Not(ok))]
        st = st.assume(*facts)
        return self.guard(st, ok, 'ValueError', node, lambda s2: self.ok(s2, SV(INT, INT_OF_STR(s))))

    def trunc(self, x):
        return z3.If(x >= 0, z3.ToInt(x), -z3.ToInt(-x))

    def bi_int(self, st, args, kw, node):
        if not args:
            return self.ok(st, mk_int(0))
        v = args[0]
        if len(args) > 1:
            self.oos('int with base', node)
        if v.ty == INT:
            return self.ok(st, v)
        if v.ty == BOOL:
            return self.ok(st, self.coerce(v, INT))
        if v.ty == REAL:
            return self.ok(st, SV(INT, self.trunc(v.z)))
        if v.ty == STR:
            return self.int_of_str(st, v.z, node)
        if v.ty == NONE:
            return self.raise_(st, 'TypeError', node)
        if v.ty == VAL:
            cases, rest = self.val_split(st, v, ['int', 'bool', 'real', 'str'])
            out = []
            for kind, s2, c in cases:
                out += self.bi_int(s2, [c], kw, node)
            if rest is not None:
                out += self.raise_(rest, 'TypeError', node)
            return out
        if v.ty == BYTES:
            self.oos('int(bytes)', node)
        return self.raise_(st, 'TypeError', node)

    def bi_float(self, st, args, kw, node):
        v = args[0]
        if v.ty in (INT, BOOL, REAL):
            return self.ok(st, self.coerce(v, REAL))
        if v.ty == STR:
            ok = REAL_OF_STR_OK(v.z)
            st = st.assume(z3.Implies(z3.StrToInt(v.z) >= 0, z3.And(
                ok, REAL_OF_STR(v.z) == z3.ToReal(z3.StrToInt(v.z)))))
            return self.guard(st, ok, 'ValueError', node,
                              lambda s2: self.ok(s2, SV(REAL, REAL_OF_STR(v.z))))
        if v.ty == VAL:
            cases, rest = self.val_split(st, v, ['int', 'bool', 'real', 'str'])
            out = []
            for kind, s2, c in cases:
                out += self.bi_float(s2, [c], kw, node)
            if rest is not None:
                out += self.raise_(rest, 'TypeError', node)
            return out
        return self.raise_(st, 'TypeError', node)

    def bi_str(self, st, args, kw, node):
        if not args:
            return self.ok(st, mk_str(''))
        v = args[0]
        if v.ty == EXC:
            msg = v.py.fields.get('msg')
            if msg is not None and len(v.py.fields) <= 2:
                return self.ok(st, msg)
            return self.ok(st, SV(STR, z3.Const(fresh_name('excstr'), S)))
        return self.ok(st, SV(STR, self.to_str_term(st, v)))

    def bi_repr(self, st, args, kw, node):
        return self.ok(st, SV(STR, z3.Const(fresh_name('repr'), S)))

    def bi_bool(self, st, args, kw, node):
        return self.ok(st, SV(BOOL, self.truthy(st, args[0])))

    def bi_callable(self, st, args, kw, node):
        v = args[0]
        if v.ty == VAL:
            f = ufun('is_callable', z3.IntSort(), z3.BoolSort())
            return self.ok(st, SV(BOOL, z3.And(Val.is_VRef(v.z), f(Val.vx(v.z)))))
        if v.ty == PY:
            return self.ok(st, mk_bool(True))
        return self.ok(st, mk_bool(False))

    def bi_abs(self, st, args, kw, node):
        v = args[0]
        return self.ok(st, SV(v.ty, z3.If(v.z >= 0, v.z, -v.z)))

    def bi_min(self, st, args, kw, node):
        if len(args) == 2:
            a, b = args
            ty = REAL if REAL in (a.ty, b.ty) else INT
            x, y = self.coerce(a, ty).z, self.coerce(b, ty).z
            return self.ok(st, SV(ty, z3.If(x <= y, x, y)))
        self.oos('min over iterable', node)

    def bi_max(self, st, args, kw, node):
        if len(args) == 2:
            a, b = args
            ty = REAL if REAL in (a.ty, b.ty) else INT
            x, y = self.coerce(a, ty).z, self.coerce(b, ty).z
            return self.ok(st, SV(ty, z3.If(x >= y, x, y)))
        self.oos('max over iterable', node)

    def bi_range(self, st, args, kw, node):
        zs = [self.coerce(a, INT) for a in args]
        if any(z is None for z in zs):
            return self.raise_(st, 'TypeError', node)
        zs = [z.z for z in zs]
        if len(zs) == 1:
            lo, hi, step = z3.IntVal(0), zs[0], z3.IntVal(1)
        elif len(zs) == 2:
            lo, hi, step = zs[0], zs[1], z3.IntVal(1)
        else:
            lo, hi, step = zs
        return self.ok(st, mk_py(('range', z3.simplify(lo), z3.simplify(hi), z3.simplify(step))))

    def bi_enumerate(self, st, args, kw, node):
        return self.ok(st, mk_py(('enumerate', args[0])))

    def bi_list(self, st, args, kw, node):
        if not args:
            return self.ok(st, SV(TList(NONE), (), py=[]))
        out = []
        for s2, l in self.seq_of_iterable(st, args[0], node):
            if l is None:
                out += self.raise_(s2, 'TypeError', node)
            else:
                out += self.ok(s2, l)
        return out

    def bi_tuple(self, st, args, kw, node):
        return self.bi_list(st, args, kw, node)

    def bi_set(self, st, args, kw, node):
        if not args:
            return self.ok(st, SV(TSet(NONE), (), py=set()))
        a = args[0]
        if isinstance(a.ty, TSet):
            return self.ok(st, a)
        if isinstance(a.ty, TDict):
            return self.ok(st, SV(TSet(a.ty.k), [a.t[0], a.t[-1]]))
        if a.ty == PY and a.py[0] == 'range' and z3.is_int_value(a.py[3]) and a.py[3].as_long() == 1:
            lo, hi = a.py[1], a.py[2]
            k = z3.Int(fresh_name('k'))
            mem = z3.Lambda([k], z3.And(lo <= k, k < hi))
            n = z3.If(hi > lo, hi - lo, 0)
            return self.ok(st, SV(TSet(INT), [mem, n]))
        if a.ty == PY and a.py[0] == 'dictview' and a.py[1] == 'keys':
            d = a.py[2]
            return self.ok(st, SV(TSet(d.ty.k), [d.t[0], d.t[-1]]))
        out = []
        for s2, l in self.seq_of_iterable(st, a, node):
            if l is None:
                out += self.raise_(s2, 'TypeError', node)
            elif isinstance(l.ty, TList) and l.ty.elem == NONE:
                out += self.ok(s2, SV(TSet(NONE), (), py=set()))
            elif isinstance(l.ty, TTuple):
                ty = self.join_types([x.ty for x in l.py])
                s = self.empty_set(TSet(ty))
                for x in l.py:
                    s = self.set_add(s, self.coerce(x, ty).z)
                out += self.ok(s2, s)
            else:
                s3, sv = self.set_of_seq(s2, l)
                out += self.ok(s3, sv)
        return out

    def bi_dict(self, st, args, kw, node):
        if not args and not kw:
            return self.ok(st, SV(TDict(NONE, NONE), (), py={}))
        if not args and kw:
            vals = list(kw.values())
            vt = self.join_types([v.ty for v in vals])
            if vt is None or len(zsorts(vt)) != 1 or vt == NONE:
                vt = VAL
            d = self.empty_dict(TDict(STR, vt))
            for k, v in kw.items():
                cv = self.coerce(v, vt)
                if cv is None:
                    st, cv = self.to_val_deep(st, v)
                d = self.dict_set(d, z3.StringVal(k), cv)
            return self.ok(st, d)
        a = args[0]
        if isinstance(a.ty, TDict):
            return self.ok(st, a)
        self.oos('dict(%r)' % (a.ty,), node)

    def bi_open(self, st, args, kw, node):
        c = self.spec.contracts.get('builtins:open')
        if c is None:
            self.oos('open() without a trusted contract', node)
        return self.call_contract(st, c, args, kw, node)

    def bi_print(self, st, args, kw, node):
        return self.ok(st, mk_none())

    def bi_sum(self, st, args, kw, node):
        a = args[0]
        if isinstance(a.ty, TList) and a.ty.elem == INT:
            f = ufun('seq_sum', z3.ArraySort(z3.IntSort(), z3.IntSort()), z3.IntSort(), z3.IntSort())
            return self.ok(st, SV(INT, f(a.t[0], a.t[1])))
        self.oos('sum of %r' % (a.ty,), node)

    def bi_getattr(self, st, args, kw, node):
        obj, name = args[0], args[1]
        if name.ty == STR and z3.is_string_value(name.z):
            rs = self.get_attr(st, obj, name.z.as_string(), node)
            if len(args) > 2:
                rs = [Res(r.st, args[2]) if (r.exc is not None and r.exc.cls == 'AttributeError')
                      else r for r in rs]
            return rs
        if obj.ty == PY and obj.py[0] == 'module':
            q = '%s:__getattr__' % obj.py[1]
            if q in self.spec.contracts:
                rs = self.call_contract(st, self.spec.contracts[q], [name], {}, node)
                if len(args) > 2:
                    rs = [Res(r.st, args[2]) if (r.exc is not None and r.exc.cls == 'AttributeError')
                          else r for r in rs]
                return rs
        if isinstance(obj.ty, TRef) and name.ty == STR:
            # dynamic attribute read: an uninterpreted value of (object, name); AttributeError when absent
            h = ufun('u_dyn_hasattr', z3.IntSort(), S, z3.BoolSort())
            g = ufun('u_dyn_getattr', z3.IntSort(), S, Val)
            if len(args) > 2:
                return self.ok(st, self.ite(h(obj.z, name.z), SV(VAL, g(obj.z, name.z)), self.coerce(args[2], VAL) or args[2]))
            return self.guard(st, h(obj.z, name.z), 'AttributeError', node,
                              lambda s2: self.ok(s2, SV(VAL, g(obj.z, name.z))))
        self.oos('getattr with a symbolic name on %r' % (obj.ty,), node)

    def bi_type(self, st, args, kw, node):
        self.oos('type()', node)

    # ---- isinstance / hasattr / sorted
    def class_names(self, e):
        if isinstance(e, ast.Tuple):
            out = []
            for x in e.elts:
                out += self.class_names(x)
            return out
        if isinstance(e, ast.Name):
            return [e.id]
        if isinstance(e, ast.Attribute):
            return [e.attr]
        self.oos('isinstance class expression', e)

    def do_isinstance(self, e, st):
        names = self.class_names(e.args[1])
        out = []
        for r in self.ev(e.args[0], st):
            if r.exc is not None:
                out.append(r)
                continue
            out += self.ok(r.st, SV(BOOL, zor([self.inst_test(r.st, r.val, n, e) for n in names])))
        return out

    def inst_test(self, st, v, cname, node):
        ty = v.ty
        T, F = z3.BoolVal(True), z3.BoolVal(False)
        if ty == VAL:
            z = v.z
            table = {'int': z3.Or(Val.is_VInt(z), Val.is_VBool(z)), 'bool': Val.is_VBool(z),
                     'float': Val.is_VReal(z), 'str': Val.is_VStr(z), 'bytes': Val.is_VBytes(z),
                     'dict': Val.is_VObj(z), 'list': Val.is_VList(z), 'tuple': F,
                     'NoneType': Val.is_VNone(z)}
            if cname in table:
                return table[cname]
            f = ufun('u_inst_' + cname, z3.IntSort(), z3.BoolSort())
            return z3.And(Val.is_VRef(z), f(Val.vx(z)))
        static = {INT: ('int',), BOOL: ('int', 'bool'), REAL: ('float',), STR: ('str',),
                  BYTES: ('bytes',), NONE: ('NoneType',)}
        if ty in static:
            return T if cname in static[ty] else F
        if isinstance(ty, TDict):
            return T if cname == 'dict' else F
        if isinstance(ty, TList):
            return T if cname == 'list' else F
        if isinstance(ty, TTuple):
            return T if cname in ('tuple', 'list') and True else F
        if isinstance(ty, TSet):
            return T if cname == 'set' else F
        if isinstance(ty, TRef):
            if cname in ('int', 'str', 'float', 'bool', 'dict', 'list', 'bytes', 'tuple'):
                return F
            mro = self.spec.mro(ty.cls)
            if cname in mro:
                return v.z != 0
            f = ufun('u_inst_' + cname, z3.IntSort(), z3.BoolSort())
            return z3.And(v.z != 0, f(v.z))
        if ty == PY:
            return F
        self.oos('isinstance on %r' % (ty,), node)

    def do_hasattr(self, e, st):
        nm = e.args[1]
        if not (isinstance(nm, ast.Constant) and isinstance(nm.value, str)):
            # dynamic attribute name on an object: abstracted by an uninterpreted predicate of (object, name)
            out = []
            for r in self.ev(e.args[0], st):
                if r.exc is not None:
                    out.append(r)
                    continue
                for r2 in self.ev(nm, r.st):
                    if r2.exc is not None:
                        out.append(r2)
                        continue
                    if not isinstance(r.val.ty, TRef) or r2.val.ty != STR:
                        self.oos('hasattr with a non-literal name on %r' % (r.val.ty,), e)
                    f = ufun('u_dyn_hasattr', z3.IntSort(), S, z3.BoolSort())
                    out += self.ok(r2.st, SV(BOOL, f(r.val.z, r2.val.z)))
            return out
        attr = nm.value
        out = []
        for r in self.ev(e.args[0], st):
            if r.exc is not None:
                out.append(r)
                continue
            v = r.val
            if v.ty == PY and v.py[0] == 'module':
                m = self.stdmod(v.py[1])
                if m is None:
                    self.oos('hasattr on module %s' % v.py[1], e)
                res = hasattr(m, attr)
                self.notes.append('A-POSIX: hasattr(%s, %r) folded to %s' % (v.py[1], attr, res))
                out += self.ok(r.st, mk_bool(res))
            elif isinstance(v.ty, TRef) and any(
                    attr in self.spec.classes[c].hasattr_fields for c in self.spec.mro(v.ty.cls)):
                fld = [self.spec.classes[c].hasattr_fields[attr] for c in self.spec.mro(v.ty.cls)
                       if attr in self.spec.classes[c].hasattr_fields][0]
                out += self.ok(r.st, SV(BOOL, z3.And(v.z != 0, self.read_field(r.st, v.z, v.ty.cls, fld).z)))
            elif isinstance(v.ty, TRef):
                known = (self.spec.field_owner(v.ty.cls, attr) is not None or
                         self.find_method_contract(v.ty.cls, attr) is not None)
                decl = self.spec.classes[v.ty.cls]
                if known:
                    out += self.ok(r.st, SV(BOOL, v.z != 0))
                elif getattr(decl, 'closed', True):
                    out += self.ok(r.st, mk_bool(False))
            elif v.ty == VAL:
                f = ufun('u_hasattr_' + attr, z3.IntSort(), z3.BoolSort())
                if attr in ('close', 'open', 'fileno', 'arbiter', '_exclusive_running_command',
                            'exc_info'):
                    out += self.ok(r.st, SV(BOOL, z3.And(Val.is_VRef(v.z), f(Val.vx(v.z)))))
                else:
                    self.oos('hasattr(%s) on a dynamic value' % attr, e)
            else:
                out += self.ok(r.st, mk_bool(False))
        return out

    def do_sorted(self, e, st):
        """sorted(xs, key=lambda.., reverse=..): T-STDLIB: a stable permutation ordered by key.
        Encoded as: same length, a bijection of indices, adjacent keys ordered."""
        keyfn = None
        reverse = None
        for kw in e.keywords:
            if kw.arg == 'key':
                keyfn = kw.value
            elif kw.arg == 'reverse':
                reverse = kw.value
        out = []
        for r in self.ev(e.args[0], st):
            if r.exc is not None:
                out.append(r)
                continue
            rev = z3.BoolVal(False)
            s1 = r.st
            if reverse is not None:
                rr = self.ev(reverse, s1)
                if len(rr) != 1 or rr[0].exc is not None:
                    self.oos('sorted(reverse=...) with effects', e)
                rev = self.truthy(rr[0].st, rr[0].val)
                s1 = rr[0].st
            if isinstance(r.val.ty, TSet) and keyfn is None and r.val.t and \
                    r.val.ty.elem in (INT, STR) and z3.is_false(rev):
                # sorted(set): strictly increasing enumeration of the members
                sv = r.val
                (es,) = zsorts(sv.ty.elem)
                arr = z3.Const(fresh_name('sortedset'), z3.ArraySort(z3.IntSort(), es))
                pos = z3.Function(fresh_name('spos'), es, z3.IntSort())
                i = z3.Int(fresh_name('i'))
                j = z3.Int(fresh_name('j'))
                k = z3.Const(fresh_name('k'), es)
                n = sv.t[1]
                facts = [n >= 0,
                         FA([i], z3.Implies(z3.And(0 <= i, i < n), z3.And(
                             z3.Select(sv.t[0], z3.Select(arr, i)), pos(z3.Select(arr, i)) == i)),
                             patterns=[z3.Select(arr, i)]),
                         FA([k], z3.Implies(z3.Select(sv.t[0], k), z3.And(
                             0 <= pos(k), pos(k) < n, z3.Select(arr, pos(k)) == k)),
                             patterns=[z3.Select(sv.t[0], k), pos(k)]),
                         FA([i, j], z3.Implies(z3.And(0 <= i, i < j, j < n),
                                                      z3.Select(arr, i) < z3.Select(arr, j)),
                                   patterns=[z3.MultiPattern(z3.Select(arr, i), z3.Select(arr, j))])]
                out += self.ok(s1.assume(*facts), SV(TList(sv.ty.elem), [arr, n]))
                continue
            for s2, l in self.seq_of_iterable(s1, r.val, e):
                if l is None:
                    out += self.raise_(s2, 'TypeError', e)
                    continue
                if isinstance(l.ty, TList) and l.ty.elem == NONE:
                    out += self.ok(s2, l)
                    continue
                if not isinstance(l.ty, TList):
                    self.oos('sorted over static heterogeneous sequence', e)
                out += self.sorted_seq(s2, l, keyfn, rev, e)
        return out

    def key_of(self, st, keyfn, elem, node):
        if keyfn is None:
            return elem
        self.spec_mode += 1
        try:
            fn = self.ev1(keyfn, st)
            rs = self.apply(st, fn, [elem], {}, node)
            rs = [r for r in rs if r.exc is None]
            if len(rs) != 1:
                self.oos('sort key with several outcomes', node)
            return rs[0].val
        finally:
            self.spec_mode -= 1

    def sorted_seq(self, st, l, keyfn, rev, node):
        et = l.ty.elem
        (es,) = zsorts(et)
        n = self.L_len(l)
        res = z3.Const(fresh_name('sorted'), z3.ArraySort(z3.IntSort(), es))
        perm = z3.Function(fresh_name('perm'), z3.IntSort(), z3.IntSort())
        inv = z3.Function(fresh_name('pinv'), z3.IntSort(), z3.IntSort())
        i = z3.Int(fresh_name('i'))
        j = z3.Int(fresh_name('j'))
        ki = self.key_of(st, keyfn, SV(et, z3.Select(res, i)), node)
        kj = self.key_of(st, keyfn, SV(et, z3.Select(res, j)), node)
        if ki.ty in (INT, REAL, STR):
            le = z3.If(rev, ki.z >= kj.z, ki.z <= kj.z)
        else:
            self.oos('sort key of sort %r' % (ki.ty,), node)
        inr = lambda x: z3.And(0 <= x, x < n)
        facts = [
            FA([i], z3.Implies(inr(i), z3.And(inr(perm(i)), res[i] == z3.Select(l.t[0], perm(i)),
                                              inv(perm(i)) == i)), patterns=[res[i], perm(i)]),
            FA([i], z3.Implies(inr(i), z3.And(inr(inv(i)), perm(inv(i)) == i)),
               patterns=[inv(i), z3.Select(l.t[0], i)]),
            FA([i, j], z3.Implies(z3.And(0 <= i, i < j, j < n), le),
               patterns=[z3.MultiPattern(res[i], res[j])]),
        ]
        return self.ok(st.assume(*facts), SV(l.ty, [res, n]))

    # ------------------------------------------------------------------ closures (inlined)
    def call_closure(self, st, clo, args, kw, node):
        _, fnode, env, mi = clo
        if self.call_depth > 6:
            self.oos('closure recursion', node)
        saved_mi = self.modinfo
        caller_env = st.env
        new_env = dict(env)
        a = fnode.args
        names = [x.arg for x in a.args]
        defaults = a.defaults
        bound = {}
        for n, v in zip(names, args):
            bound[n] = v
        for k, v in kw.items():
            bound[k] = v
        out = []
        missing = [n for n in names if n not in bound]
        st2 = st.copy()
        st2.env = new_env
        if missing:
            ndef = len(defaults)
            for n in missing:
                idx = names.index(n) - (len(names) - ndef)
                if idx < 0:
                    self.oos('missing argument %s in closure call' % n, node)
                rs = self.ev(defaults[idx], st2)
                bound[n] = rs[0].val
        if a.vararg is not None:
            bound[a.vararg.arg] = self.mk_tuple(args[len(names):])
        if a.kwarg is not None:
            bound[a.kwarg.arg] = SV(TDict(NONE, NONE), (), py={})
        st2.env.update(bound)
        self.call_depth += 1
        self.modinfo = mi
        try:
            if isinstance(fnode, ast.Lambda):
                rs = self.ev(fnode.body, st2)
                for r in rs:
                    s3 = r.st.copy()
                    s3.env = caller_env
                    out.append(Res(s3, r.val, r.exc))
            else:
                for o in self.ex_block(fnode.body, st2):
                    s3 = o.st.copy()
                    s3.env = caller_env
                    if o.kind == 'return':
                        out.append(Res(s3, o.val if o.val is not None else mk_none()))
                    elif o.kind == 'next':
                        out.append(Res(s3, mk_none()))
                    elif o.kind == 'raise':
                        out.append(Res(s3, None, o.exc))
                    else:
                        self.oos('break/continue escaping a closure', node)
        finally:
            self.call_depth -= 1
            self.modinfo = saved_mi
        return out

    # ------------------------------------------------------------------ constructors
    def construct(self, st, qual, args, kw, node, star=None):
        cname = qual.split(':')[1].split('.')[-1]      # nested classes are declared under their own name
        decl = self.spec.classes.get(cname)
        c = self.spec.contracts.get(qual + '.__init__')
        if decl is None or c is None:
            c2 = self.spec.contracts.get(qual)
            if c2 is not None:
                return self.call_contract(st, c2, args, kw, node, None, star)
            self.oos('constructor of %s is not under contract' % qual, node)
        st2, r = self.alloc(st, cname)
        obj = SV(TRef(cname), r)
        out = []
        for res in self.call_contract(st2, c, [obj] + list(args), kw, node, obj, star):
            if res.exc is not None:
                out.append(res)
            else:
                out.append(Res(res.st, obj))
        return out

    def call_super(self, st, sup, args, kw, node, star=None):
        _, cls, selfv, attr = sup
        decl = self.spec.classes.get(cls)
        if decl is None:
            self.oos('super() in undeclared class %s' % cls, node)
        for b in self.spec.mro(cls)[1:]:
            d = self.spec.classes[b]
            q = (d.qual or ('$' + b)) + '.' + attr
            if q in self.spec.contracts:
                return self.call_contract(st, self.spec.contracts[q], [selfv] + list(args), kw,
                                          node, selfv, star)
        self.oos('super().%s has no contract' % attr, node)
