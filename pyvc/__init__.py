"""pyvc: AST -> verification-condition generator for the circus contracts (see DESIGN.md)."""
