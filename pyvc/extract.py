"""Mechanical extraction of the functions under contract from the real source tree.

On every run the files under <root>/circus are parsed again; a function is located by its
qualified name ('circus.watcher:Watcher.kill_process', nested defs with dots).  Nothing is
copied by hand.  What is dropped before VC generation is recorded per function:
docstrings, the decorators listed in DROPPED_DECORATORS (each justified in DESIGN.md 2.1),
logger.* / warnings.warn calls (their argument expressions are still evaluated).
"""
import ast
import hashlib
import os

from .tys import OutOfSubset

DROPPED_DECORATORS = {
    'debuglog': 'util.debuglog returns func(self,*a,**kw) unchanged when DEBUG is unset (A-DEBUG)',
    'util.debuglog': 'same',
    'gen.coroutine': 'function analysed in coroutine mode (T-TORNADO)',
    'property': 'calling convention',
    'classmethod': 'calling convention',
    'staticmethod': 'calling convention',
    'wraps': 'functools.wraps copies metadata only',
}


def deco_name(d):
    if isinstance(d, ast.Call):
        return deco_name(d.func)
    if isinstance(d, ast.Attribute):
        return deco_name(d.value) + '.' + d.attr
    if isinstance(d, ast.Name):
        return d.id
    return '?'


class FuncInfo(object):
    def __init__(self, qual, node, module, cls, path, src):
        self.qual = qual
        self.node = node
        self.module = module
        self.cls = cls            # enclosing class name or None
        self.path = path
        self.decorators = [deco_name(d) for d in node.decorator_list]
        self.deco_nodes = node.decorator_list
        seg = ast.get_source_segment(src, node) or ''
        self.src_sha = hashlib.sha256(seg.encode()).hexdigest()
        self.ast_sha = hashlib.sha256(ast.dump(node, include_attributes=False).encode()).hexdigest()
        self.lines = (node.lineno, node.end_lineno)
        self.dropped = []
        self.is_coroutine = 'gen.coroutine' in self.decorators
        self.synchronized = None
        for d in node.decorator_list:
            if isinstance(d, ast.Call) and deco_name(d) in ('util.synchronized', 'synchronized'):
                self.synchronized = d.args[0].value
        self.is_property = 'property' in self.decorators
        self.is_classmethod = 'classmethod' in self.decorators
        self.is_staticmethod = 'staticmethod' in self.decorators


class ModuleInfo(object):
    def __init__(self, name, path, tree, src):
        self.name = name
        self.path = path
        self.tree = tree
        self.src = src
        self.imports = {}     # local name -> ('module', dotted) | ('name', module, attr)
        self.consts = {}      # name -> python literal
        self.defs = {}        # name -> node (FunctionDef / ClassDef)
        self.assigns = {}     # name -> ast value node (non literal)
        self._scan(tree.body)

    def _scan(self, body):
        for n in body:
            if isinstance(n, ast.Import):
                for a in n.names:
                    if a.asname:
                        self.imports[a.asname] = ('module', a.name)
                    else:
                        top = a.name.split('.')[0]
                        self.imports[top] = ('module', top)
            elif isinstance(n, ast.ImportFrom):
                mod = n.module or ''
                for a in n.names:
                    self.imports[a.asname or a.name] = ('name', mod, a.name)
            elif isinstance(n, (ast.FunctionDef, ast.ClassDef)):
                self.defs[n.name] = n
            elif isinstance(n, ast.Assign) and len(n.targets) == 1 and isinstance(n.targets[0], ast.Name):
                nm = n.targets[0].id
                try:
                    self.consts[nm] = ast.literal_eval(n.value)
                except Exception:
                    self.assigns[nm] = n.value
            elif isinstance(n, (ast.If, ast.Try)):
                # platform guards at module level: take every branch's defs (POSIX ones win:
                # later definitions override, which is what `if pwd is None: ... else:` does)
                for blk in ([n.body, n.orelse] if isinstance(n, ast.If)
                            else [n.body] + [h.body for h in n.handlers] + [n.orelse]):
                    self._scan(blk)


class SourceIndex(object):
    def __init__(self, root):
        self.root = root
        self.modules = {}

    def module(self, name):
        if name in self.modules:
            return self.modules[name]
        rel = name.replace('.', '/')
        for cand in (rel + '.py', rel + '/__init__.py'):
            p = os.path.join(self.root, cand)
            if os.path.exists(p):
                src = open(p).read()
                tree = ast.parse(src, p)
                mi = ModuleInfo(name, p, tree, src)
                self.modules[name] = mi
                return mi
        return None

    def find(self, qual):
        """qual 'pkg.mod:A.b.c' -> FuncInfo"""
        modname, path = qual.split(':')
        mi = self.module(modname)
        if mi is None:
            raise OutOfSubset('module %s not found' % modname)
        parts = path.split('.')
        body = mi.tree.body
        node = None
        cls = None
        for i, p in enumerate(parts):
            found = None
            for n in _walk_defs(body):
                if isinstance(n, (ast.FunctionDef, ast.ClassDef)) and n.name == p:
                    found = n    # last definition wins (module-level platform guards)
            if found is None:
                raise OutOfSubset('%s not found in %s' % (p, qual))
            node = found
            if isinstance(node, ast.ClassDef):
                cls = node.name
            body = node.body
        if not isinstance(node, ast.FunctionDef):
            raise OutOfSubset('%s is not a function' % qual)
        return FuncInfo(qual, node, mi, cls, mi.path, mi.src)

    def all_functions(self, package='circus'):
        """yield (qual, FunctionDef, ModuleInfo) for every function in the package (frame scans)"""
        base = os.path.join(self.root, package)
        for dp, dn, fn in os.walk(base):
            dn[:] = [d for d in dn if d not in ('tests', '__pycache__')]
            for f in sorted(fn):
                if not f.endswith('.py'):
                    continue
                p = os.path.join(dp, f)
                rel = os.path.relpath(p, self.root)[:-3].replace('/', '.')
                if rel.endswith('.__init__'):
                    rel = rel[:-9]
                mi = self.module(rel)
                if mi is None:
                    continue
                for q, node in _all_defs(mi.tree.body, ''):
                    yield rel + ':' + q, node, mi


def _walk_defs(body):
    for n in body:
        if isinstance(n, (ast.FunctionDef, ast.ClassDef)):
            yield n
        elif isinstance(n, ast.If):
            for x in _walk_defs(n.body):
                yield x
            for x in _walk_defs(n.orelse):
                yield x
        elif isinstance(n, ast.Try):
            for blk in [n.body] + [h.body for h in n.handlers] + [n.orelse, n.finalbody]:
                for x in _walk_defs(blk):
                    yield x


def _all_defs(body, prefix):
    for n in _walk_defs(body):
        q = prefix + n.name
        if isinstance(n, ast.FunctionDef):
            yield q, n
            for x in _all_defs(n.body, q + '.'):
                yield x
        else:
            for x in _all_defs(n.body, q + '.'):
                yield x
