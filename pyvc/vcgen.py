"""Per-function VC generation against the sidecar contract."""
import ast
import z3

from .tys import *   # noqa
from .state import State, Exc, Res
from .engine import Engine, VC, zand, zor
from .expr import ExprMixin
from .calls import CallMixin
from .speccall import SpecMixin
from .stmt import StmtMixin
from .extract import deco_name, DROPPED_DECORATORS


class VCGen(SpecMixin, CallMixin, StmtMixin, ExprMixin, Engine):

    def lookup_name(self, name, st, node=None, mi=None):
        if name in st.env:
            return st.env[name]
        if name in self.spec.ghosts:
            return self.ghost_get(st, name)
        return Engine.lookup_name(self, name, st, node, mi)

    # ------------------------------------------------------------------ function entry
    def prepare(self, qual):
        c = self.spec.contracts.get(qual)
        if c is None:
            raise OutOfSubset('no contract for %s' % qual)
        fi = self.src.find(qual)
        self.fi = fi
        self.contract = c
        self.modinfo = fi.module
        self.dropped = []
        self.cover_points = []
        self.paths = 0
        for d, dn in zip(fi.decorators, fi.deco_nodes):
            if d in DROPPED_DECORATORS:
                self.dropped.append('decorator ' + d)
            elif d in ('util.synchronized', 'synchronized'):
                self.dropped.append('decorator %s (call sites use the verified wrapper contract)' % d)
            else:
                raise OutOfSubset('decorator %s on %s is not modelled' % (d, qual), dn, qual)
        # loop ordinals in source order
        loops = [n for n in ast.walk(fi.node) if isinstance(n, (ast.For, ast.While))]
        loops.sort(key=lambda n: (n.lineno, n.col_offset))
        self.loop_ordinals = dict((id(n), i) for i, n in enumerate(loops))
        for k in c.loops:
            if k >= len(loops):
                raise OutOfSubset('loop contract %d of %s has no loop to attach to' % (k, qual),
                                  fi.node, qual)
        self.in_coroutine = fi.is_coroutine
        return c, fi

    def init_state(self, c, fi):
        st = State()
        a = fi.node.args
        names = [x.arg for x in a.args] + [x.arg for x in a.kwonlyargs]
        facts = []
        for n in names:
            ty = self.param_type(c, n, fi)
            if n in ('self', 'cls') and fi.is_classmethod:
                st.env[n] = mk_py(('class', '%s:%s' % (fi.module.name, fi.cls)))
                continue
            v = named(ty, 'in.' + n)
            st.env[n] = v
            if isinstance(ty, TRef):
                if n == 'self':
                    facts.append(v.z != 0)
                facts.append(self.allocated_fact(st, ty.cls, v.z))
            if isinstance(ty, (TDict, TSet)):
                facts += self.dict_wf(v)
            if ty == VAL:
                # a JSON container handed in as an argument exists already: it is not the object a later
                # `{}` / `[]` / .copy() allocates
                oa, _, _ = self.heap_arrays(st, '$vobj', '$alloc')
                la, _, _ = self.heap_arrays(st, '$vlist', '$alloc')
                facts.append(z3.Implies(Val.is_VObj(v.z), z3.Select(oa[0], Val.vo(v.z))))
                facts.append(z3.Implies(Val.is_VList(v.z), z3.Select(la[0], Val.vl(v.z))))
        if a.vararg is not None:
            ty = c.params.get(a.vararg.arg)
            st.env[a.vararg.arg] = named(ty, 'in.' + a.vararg.arg) if ty else mk_py(('opaque', 'varargs'))
        if a.kwarg is not None:
            ty = c.params.get(a.kwarg.arg)
            st.env[a.kwarg.arg] = named(ty, 'in.' + a.kwarg.arg) if ty else mk_py(('opaque', 'kwargs'))
        # captured variables of nested functions are declared in the contract as params too
        for n, ty in c.params.items():
            if n not in st.env:
                v = named(ty, 'in.' + n)
                st.env[n] = v
                if isinstance(ty, TRef):
                    facts.append(self.allocated_fact(st, ty.cls, v.z))
        st = st.assume(*facts)
        return st

    def verify(self, qual):
        """generate the VCs of one function under contract; returns the list of new VCs"""
        n0 = len(self.vcs)
        c, fi = self.prepare(qual)
        self.verified_quals.add(c.qual)
        self.use_axioms(c)
        st = self.init_state(c, fi)
        entry = st.copy()
        entry.old = None
        st.old = entry
        reqs = []
        for r in c.requires:
            reqs.append(self.spb(r, st, -1))
        st = st.assume(*reqs)
        if c.entry_assumes:
            st = st.assume(*[self.spb(r, st, -1) for r in c.entry_assumes])
        entry.pc = st.pc
        st.old = entry
        # vacuity guard: the precondition must be satisfiable
        self.add_vc('cover:requires', 'cover', st, z3.BoolVal(True), fi.node, expect='sat')
        if self.in_coroutine:
            self.enter_coroutine(c, fi, st)
        outs = self.ex_block(fi.node.body, st)
        self.paths = len(outs)
        for o in outs:
            if o.kind in ('next', 'return'):
                val = o.val if (o.kind == 'return' and o.val is not None) else mk_none()
                self.check_post(c, fi, o.st, val, entry)
            elif o.kind == 'raise':
                self.check_raise(c, fi, o.st, o.exc, entry)
            else:
                self.oos('%s escapes the function body' % o.kind, fi.node)
        return self.vcs[n0:]

    def final_env(self, st, entry, result=None):
        s = st.copy()
        env = dict(entry.env)
        # locals remain visible to ghost-style postconditions under their own names unless they
        # shadow a parameter (parameters keep their entry value)
        for k, v in st.env.items():
            if k not in env:
                env[k] = v
        if result is not None:
            env['result'] = result
        s.env = env
        s.old = entry
        return s

    def check_post(self, c, fi, st, val, entry):
        from . import rely as _rely
        if _rely.is_pending(val):
            # a future handed to the caller un-awaited: its effects may have started
            rs = [r for r in _rely.drop_pending(self, st, val, fi.node) if r.exc is None]
            if len(rs) != 1:
                self.oos('escaping future with several outcomes', fi.node)
            st = rs[0].st
            fid = z3.Int(fresh_name('future'))
            f = z3.Function('u_inst_Future', z3.IntSort(), z3.BoolSort())
            st = st.assume(f(fid))
            val = SV(VAL, Val.VRef(fid))
        if c.ret is not None and c.ret != NONE:
            cv = self.coerce(val, c.ret)
            if cv is None and c.ret == VAL:
                st, cv = self.to_val_deep(st, val)
            if cv is None:
                if val.ty == VAL:
                    cv = self.coerce_store(st, val, c.ret, 'result', fi.node)
                else:
                    self.add_vc('post:result-sort', 'post', st, z3.BoolVal(False), fi.node,
                                note='returns %r where the contract says %r' % (val.ty, c.ret))
                    return
            val = cv
        fs = self.final_env(st, entry, val)
        # vacuity probe: is this exit path satisfiable at all?  (`unsat` = the hypotheses collected along the path
        # contradict each other -- a really infeasible branch, or an inconsistent callee contract; listed in the
        # evidence under exit_paths_unreachable, never counted as an obligation)
        self.add_vc('cover:exit@%s' % ('/'.join(list(st.trace)[-3:]) or 'top'), 'cover', fs, z3.BoolVal(True), fi.node,
                    expect='sat-info')
        if c.detached is not None and self.in_coroutine:
            _rely.check_detached(self, c, fs, fi.node)
        for i, e in enumerate(c.ensures):
            goal = self.spb(e, fs, +1)
            self.add_vc('post[%s]' % c.ensure_names[i], 'post', fs, goal, fi.node, note=e)
        for i, e in enumerate(c.must_fail):
            goal = self.spb(e, fs, +1)
            self.add_vc('mustfail[%d]' % i, 'mustfail', fs, goal, fi.node, expect='refutable', note=e)
        self.check_frame(c.modifies, fs, entry, fi, 'frame')

    def check_raise(self, c, fi, st, exc, entry):
        clause = None
        best = None
        for cls in c.raises:
            base = cls[:-1] if cls.endswith('+') else cls
            if cls == '*':
                if best is None:
                    best, clause = '*', c.raises[cls]
                continue
            if self.spec.is_subexc(exc.cls, base):
                if best in (None, '*') or self.spec.is_subexc(base, best.rstrip('+')):
                    best, clause = cls, c.raises[cls]
        if clause is None:
            self.add_vc('escape[%s@%s]' % (exc.cls, exc.origin), 'escape', st, z3.BoolVal(False),
                        fi.node, note='exception %s raised at line %s may escape; the contract '
                                      'does not allow it' % (exc.cls, exc.origin))
            return
        fs = self.final_env(st, entry, None)
        if 'errno' in exc.fields:
            fs.env['errno'] = exc.fields['errno']
        for i, e in enumerate([clause] if isinstance(clause, str) else clause):
            goal = self.spb(e, fs, +1)
            self.add_vc('raises[%s][%d]@%s' % (best, i, exc.origin), 'raises', fs, goal, fi.node, note=e)
        mods = c.exc_modifies if c.exc_modifies is not None else c.modifies
        self.check_frame(mods, fs, entry, fi, 'frame-exc[%s]' % exc.cls)

    def check_frame(self, modifies, fs, entry, fi, label):
        """everything outside the modifies clause is unchanged (one conjoined obligation per exit)"""
        mods = self.parse_mods(modifies, entry, fi.node)
        if mods['all']:
            return
        goals = []
        what = []
        for key in sorted(fs.heap):
            if key[1] == '$alloc':
                continue
            ty = self.field_info(key[0], key[1])[1]
            now = fs.heap[key]
            was = entry.heap.get(key) or self.heap0(key, ty)
            if all(x.eq(y) for x, y in zip(now, was)):
                continue
            if key in mods['keys']:
                objs = mods['keys'][key]
                if objs is None:
                    continue
                o = z3.Int(fresh_name('o'))
                goal = z3.ForAll([o], z3.Implies(z3.And(*[o != x for x in objs]), z3.And(
                    *[z3.Select(a, o) == z3.Select(b, o) for a, b in zip(now, was)])))
            else:
                # fresh objects created by this function may be initialised freely
                alloc0 = entry.heap.get((key[0], '$alloc')) or self.heap0((key[0], '$alloc'), BOOL)
                o = z3.Int(fresh_name('o'))
                goal = z3.ForAll([o], z3.Implies(z3.Select(alloc0[0], o), z3.And(
                    *[z3.Select(a, o) == z3.Select(b, o) for a, b in zip(now, was)])))
            goals.append(goal)
            what.append('%s.%s' % key)
        for g in sorted(fs.ghost):
            if g in mods['ghosts'] or g in self.spec.local_ghosts:
                continue
            now = fs.ghost[g]
            was = self.ghost_get(entry, g)
            if all(x.eq(y) for x, y in zip(now.t, was.t)):
                continue
            goals.append(self.eq(fs, now, was))
            what.append('ghost ' + g)
        if goals:
            import os as _os
            if _os.environ.get('PYVC_SPLIT_FRAME'):
                for g_, w_ in zip(goals, what):
                    self.add_vc(label + '<' + w_ + '>', 'frame', fs, g_, fi.node, note=w_)
                return
            self.add_vc(label, 'frame', fs, zand(goals), fi.node,
                        note='modifies clause does not list: ' + ', '.join(what))

    def enter_coroutine(self, c, fi, st):
        from .rely import install
        install(self, c, fi, st)

    # ------------------------------------------------------------------ lemmas
    def verify_lemma(self, lem):
        self.fi = None
        st = State()
        for n, ty in lem.vars.items():
            st.env[n] = named(ty, 'lv.' + n)
        st.old = st
        hyps = [self.spb(h, st, -1) for h in lem.hyps]
        st = st.assume(*hyps)
        goal = self.spb(lem.goal, st, +1)

        class _F(object):
            qual = 'lemma:' + lem.name
        self.fi = _F()
        n0 = len(self.vcs)
        self.add_vc('cover:hyps', 'cover', st, z3.BoolVal(True), None, expect='sat')
        self.add_vc('lemma', 'lemma', st, goal, None, note=lem.goal)
        return self.vcs[n0:]
