"""Symbolic state: locals, heap (one z3 array per field component), ghosts, path condition."""
import z3
from .tys import *   # noqa


class Exc(object):
    """python-level exception value. exact=False: some (unknown) subclass of cls."""

    def __init__(self, cls, fields=None, exact=True, msg=None, origin=None):
        self.cls = cls
        self.fields = dict(fields or {})
        self.exact = exact
        self.msg = msg
        self.origin = origin

    def __repr__(self):
        return 'Exc(%s%s%s)' % (self.cls, '' if self.exact else '+',
                                (' @' + str(self.origin)) if self.origin else '')


class Res(object):
    __slots__ = ('st', 'val', 'exc')

    def __init__(self, st, val=None, exc=None):
        self.st = st
        self.val = val
        self.exc = exc


class State(object):
    __slots__ = ('env', 'heap', 'ghost', 'pc', 'old', 'trace', 'hver', 'labels', 'obls')

    def __init__(self):
        self.env = {}
        self.heap = {}      # (cls, field) -> tuple of z3 arrays
        self.ghost = {}     # name -> SV
        self.pc = ()        # tuple of z3 Bool
        self.old = None     # entry State (for old())
        self.trace = ()     # branch labels taken (for path names / witnesses)
        self.hver = 0
        self.labels = {}    # label -> State snapshots (at(label, e))
        self.obls = ()

    def copy(self):
        s = State.__new__(State)
        s.env = dict(self.env)
        s.heap = dict(self.heap)
        s.ghost = dict(self.ghost)
        s.pc = self.pc
        s.old = self.old
        s.trace = self.trace
        s.hver = self.hver
        s.labels = self.labels
        s.obls = self.obls
        return s

    def assume(self, *conds):
        s = self.copy()
        add = []
        for c in conds:
            if isinstance(c, bool):
                c = z3.BoolVal(c)
            if z3.is_true(c):
                continue
            add.append(c)
        s.pc = self.pc + tuple(add)
        return s

    def setvar(self, name, val):
        s = self.copy()
        s.env[name] = val
        return s

    def tag(self, label):
        s = self.copy()
        s.trace = self.trace + (label,)
        return s
