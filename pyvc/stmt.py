"""Statement execution: paths, exceptions, loops by invariant (or static unrolling)."""
import ast
import z3

from .tys import *   # noqa
from .state import State, Exc, Res
from .engine import Outcome, zand, zor
from .calls import MUTATORS


class ModScan(ast.NodeVisitor):
    """syntactic over-approximation of what a statement list may modify"""

    def __init__(self, eng):
        self.eng = eng
        self.names = set()
        self.fields = set()     # field names
        self.val_heap = False
        self.everything = False
        self.calls = set()
        self.has_yield = False

    def root(self, e):
        while isinstance(e, (ast.Subscript, ast.Attribute)):
            if isinstance(e, ast.Attribute):
                return ('field', e.attr, e)
            e = e.value
        if isinstance(e, ast.Name):
            return ('name', e.id, e)
        return (None, None, e)

    def target(self, t):
        if isinstance(t, ast.Name):
            self.names.add(t.id)
        elif isinstance(t, (ast.Tuple, ast.List)):
            for x in t.elts:
                self.target(x)
        elif isinstance(t, ast.Attribute):
            self.fields.add(t.attr)
        elif isinstance(t, ast.Subscript):
            k, n, _ = self.root(t.value) if not isinstance(t.value, ast.Name) else ('name', t.value.id, None)
            if isinstance(t.value, ast.Attribute):
                self.fields.add(t.value.attr)
            elif k == 'name':
                self.names.add(n)
                self.val_heap = True
            elif k == 'field':
                self.fields.add(n)
            else:
                self.everything = True
        elif isinstance(t, ast.Starred):
            self.target(t.value)

    def visit_Assign(self, n):
        for t in n.targets:
            self.target(t)
        self.generic_visit(n)

    def visit_AugAssign(self, n):
        self.target(n.target)
        self.generic_visit(n)

    def visit_AnnAssign(self, n):
        self.target(n.target)
        self.generic_visit(n)

    def visit_For(self, n):
        self.target(n.target)
        self.generic_visit(n)

    def visit_With(self, n):
        for it in n.items:
            if it.optional_vars is not None:
                self.target(it.optional_vars)
        self.generic_visit(n)

    def visit_ExceptHandler(self, n):
        if n.name:
            self.names.add(n.name)
        self.generic_visit(n)

    def visit_Delete(self, n):
        for t in n.targets:
            self.target(t)
        self.generic_visit(n)

    def visit_FunctionDef(self, n):
        self.names.add(n.name)

    def visit_Lambda(self, n):
        pass

    def visit_Yield(self, n):
        self.has_yield = True
        self.generic_visit(n)

    def visit_Call(self, n):
        f = n.func
        if isinstance(f, ast.Attribute):
            if f.attr in MUTATORS:
                v = f.value
                mi = self.eng.modinfo
                if isinstance(v, ast.Name) and mi is not None and v.id in mi.imports:
                    pass        # module function such as os.remove
                elif isinstance(v, ast.Name):
                    self.names.add(v.id)
                    self.val_heap = True
                elif isinstance(v, ast.Attribute):
                    self.fields.add(v.attr)
                elif isinstance(v, ast.Subscript):
                    k, nm, _ = self.root(v)
                    if k == 'name':
                        self.names.add(nm)
                        self.val_heap = True
                    elif k == 'field':
                        self.fields.add(nm)
                    else:
                        self.everything = True
                else:
                    self.val_heap = True
            self.calls.add(f.attr)
        elif isinstance(f, ast.Name):
            self.calls.add(f.id)
        self.generic_visit(n)


class StmtMixin(object):

    # ------------------------------------------------------------------ blocks
    def ex_block(self, stmts, st):
        outs = [Outcome('next', st)]
        for s in stmts:
            new = []
            for o in outs:
                if o.kind != 'next':
                    new.append(o)
                else:
                    new += self.ex_stmt(s, o.st)
            outs = new
            if not any(o.kind == 'next' for o in outs):
                break
        return outs

    def ex_stmt(self, s, st):
        m = getattr(self, 'ex_' + type(s).__name__, None)
        if m is None:
            self.oos('statement form %s' % type(s).__name__, s)
        return m(s, st)

    def from_res(self, rs, k):
        out = []
        for r in rs:
            if r.exc is not None:
                out.append(Outcome('raise', r.st, None, r.exc))
            else:
                out += k(r.st, r.val)
        return out

    def ex_Expr(self, s, st):
        if isinstance(s.value, ast.Constant):
            return [Outcome('next', st)]      # docstring
        def k(s2, v):
            from . import rely as _rely
            if _rely.is_pending(v):
                return self.from_res(_rely.drop_pending(self, s2, v, s), lambda s3, v3: [Outcome('next', s3)])
            return [Outcome('next', s2)]
        return self.from_res(self.ev(s.value, st), k)

    def ex_Pass(self, s, st):
        return [Outcome('next', st)]

    def ex_Break(self, s, st):
        return [Outcome('break', st)]

    def ex_Continue(self, s, st):
        return [Outcome('continue', st)]

    def ex_Global(self, s, st):
        return [Outcome('next', st)]

    def ex_Import(self, s, st):
        for a in s.names:
            st = st.setvar(a.asname or a.name.split('.')[0], mk_py(('module', a.name)))
        return [Outcome('next', st)]

    def ex_ImportFrom(self, s, st):
        for a in s.names:
            st = st.setvar(a.asname or a.name, self.resolve_import(s.module, a.name, s))
        return [Outcome('next', st)]

    def ex_FunctionDef(self, s, st):
        clo = mk_py(('closure', s, None, self.modinfo))
        st = st.setvar(s.name, clo)
        # closures see the defining scope's variables at definition time (later rebinding of the
        # captured names between definition and call is outside the subset; checked syntactically
        # by the caller of each extracted function: see DESIGN 2.1)
        clo.py = ('closure', s, dict(st.env), self.modinfo)
        st.env[s.name] = clo
        return [Outcome('next', st)]

    def ex_Return(self, s, st):
        if s.value is None:
            return [Outcome('return', st, mk_none())]
        return self.from_res(self.ev(s.value, st), lambda s2, v: [Outcome('return', s2, v)])

    def ex_Assert(self, s, st):
        def k(s2, v):
            c = self.truthy(s2, v)
            t, f = self.branch(s2, c)
            out = []
            if t is not None:
                out.append(Outcome('next', t))
            if f is not None:
                out.append(Outcome('raise', f, None, Exc('AssertionError', origin=s.lineno)))
            return out
        return self.from_res(self.ev(s.test, st), k)

    # ------------------------------------------------------------------ assignment
    def ex_Assign(self, s, st):
        def k(s2, v):
            states = [s2]
            for t in s.targets:
                new = []
                for x in states:
                    new += self.assign_to(x, t, v, s)
                states = []
                excs = []
                for x in new:
                    if isinstance(x, Res):
                        excs.append(x)
                    else:
                        states.append(x)
                if excs:
                    return [Outcome('raise', e.st, None, e.exc) for e in excs] + \
                        [Outcome('next', x) for x in states]
            return [Outcome('next', x) for x in states]
        return self.from_res(self.ev(s.value, st), k)

    def ex_AnnAssign(self, s, st):
        if s.value is None:
            return [Outcome('next', st)]
        return self.ex_Assign(ast.Assign(targets=[s.target], value=s.value, lineno=s.lineno), st)

    def ex_AugAssign(self, s, st):
        load = self.as_load(s.target)
        node = ast.BinOp(left=load, op=s.op, right=s.value)
        ast.copy_location(node, s)
        return self.ex_Assign(ast.Assign(targets=[s.target], value=node, lineno=s.lineno), st)

    def as_load(self, t):
        import copy
        t2 = copy.deepcopy(t)
        for n in ast.walk(t2):
            if hasattr(n, 'ctx'):
                n.ctx = ast.Load()
        return t2

    def assign_to(self, st, target, val, node):
        """-> list of State (ok) or Res (exception)"""
        if isinstance(target, ast.Name):
            if target.id in self.spec.ghosts and target.id not in st.env:
                return [self.ghost_set(st, target.id, val)]
            lt = getattr(self.contract, 'local_types', {}).get(target.id) if self.contract is not None else None
            if lt is not None and isinstance(val.ty, TList) and val.ty.elem == NONE and isinstance(lt, TList):
                val = self.L_empty(lt.elem)      # `x = []` for a local whose element sort the contract declares
            if lt is not None and isinstance(val.ty, TDict) and not val.t and isinstance(lt, TDict):
                val = self.empty_dict(lt)        # `x = {}` likewise
            return [st.setvar(target.id, val)]
        if isinstance(target, (ast.Tuple, ast.List)):
            items = self.unpack(st, val, len(target.elts), node)
            if items is None and val.ty == VAL:
                # a, b = <dynamic value>: a list of exactly that length, else ValueError / TypeError
                n = len(target.elts)
                out = []
                cases, rest = self.val_split(st, val, ['list'])
                for kind, s2, c in cases:
                    l = self.vlist(s2, Val.vl(c.z))
                    t, f = self.branch(s2, l.t[1] == n)
                    if t is not None:
                        states = [t]
                        for k, tg in enumerate(target.elts):
                            new = []
                            for x in states:
                                if isinstance(x, Res):
                                    new.append(x)
                                else:
                                    new += self.assign_to(x, tg, self.L_at(l, z3.IntVal(k)), node)
                            states = new
                        out += states
                    if f is not None:
                        out.append(Res(f, None, Exc('ValueError', origin=getattr(node, 'lineno', None))))
                if rest is not None:
                    out.append(Res(rest, None, Exc('TypeError', origin=getattr(node, 'lineno', None))))
                return out
            if items is None:
                if val.ty == VAL or isinstance(val.ty, TList):
                    self.oos('unpacking of a dynamic sequence', node)
                return [Res(st, None, Exc('TypeError', origin=getattr(node, 'lineno', None)))]
            states = [st]
            for t, v in zip(target.elts, items):
                new = []
                for x in states:
                    if isinstance(x, Res):
                        new.append(x)
                    else:
                        new += self.assign_to(x, t, v, node)
                states = new
            return states
        if isinstance(target, ast.Attribute):
            out = []
            for r in self.ev(target.value, st):
                if r.exc is not None:
                    out.append(r)
                    continue
                obj = r.val
                if isinstance(obj.ty, TRef):
                    t, f = self.branch(r.st, obj.z != 0)
                    if t is not None:
                        out.append(self.write_field(t, obj.z, obj.ty.cls, target.attr, val, node))
                    if f is not None:
                        out.append(Res(f, None, Exc('AttributeError', origin=node.lineno)))
                elif obj.ty == NONE:
                    out.append(Res(r.st, None, Exc('AttributeError', origin=node.lineno)))
                elif obj.ty == VAL:
                    c = self.spec.contracts.get('$setattr.' + target.attr)
                    if c is None:
                        self.oos('attribute store %s on a dynamic value' % target.attr, node)
                    for r2 in self.call_contract(r.st, c, [obj, val], {}, node):
                        out.append(r2 if r2.exc is not None else r2.st)
                else:
                    self.oos('attribute store on %r' % (obj.ty,), node)
            return out
        if isinstance(target, ast.Subscript):
            if isinstance(target.slice, ast.Slice):
                self.oos('slice assignment', node)
            out = []

            def k(s2, vals):
                cont, idx = vals
                res = []
                ty = cont.ty
                if isinstance(ty, TDict):
                    if ty.k == NONE:
                        kt = idx.ty
                        vt = val.ty if len(zsorts(val.ty)) >= 1 and val.ty != NONE else VAL
                        if kt == STR and vt not in (INT, REAL, BOOL, STR, VAL) and not isinstance(vt, (TRef,)):
                            vt = VAL
                        cont = self.empty_dict(TDict(kt, vt))
                        ty = cont.ty
                    kk = self.coerce(idx, ty.k)
                    if kk is None:
                        self.oos('dict key %r for %r' % (idx.ty, ty), node)
                    vv = self.coerce(val, ty.v)
                    if vv is None and ty.v == VAL:
                        s2, vv = self.to_val_deep(s2, val)
                    if vv is None:
                        self.oos('dict value %r for %r' % (val.ty, ty), node)
                    newc = self.dict_set(cont, kk.z, vv)
                    for x in self.assign_to(s2, target.value, newc, node):
                        res.append(x if isinstance(x, Res) else Res(x, mk_none()))
                    return res
                if isinstance(ty, TList):
                    n = self.L_len(cont)
                    i = self.norm_index(self.coerce(idx, INT).z, n)
                    vv = self.coerce(val, ty.elem)
                    t, f = self.branch(s2, z3.And(0 <= i, i < n))
                    if t is not None:
                        newc = SV(ty, [z3.Store(cont.t[0], i, vv.z), n])
                        for x in self.assign_to(t, target.value, newc, node):
                            res.append(x if isinstance(x, Res) else Res(x, mk_none()))
                    if f is not None:
                        res += self.raise_(f, 'IndexError', node)
                    return res
                if ty == VAL:
                    cases, rest = self.val_split(s2, cont, ['obj', 'list'])
                    for kind, s3, c in cases:
                        if kind == 'obj':
                            d = self.vobj(s3, Val.vo(c.z))
                            if idx.ty == STR:
                                kz = idx.z
                            elif idx.ty == VAL:
                                # non-string keys in a JSON object are outside the model
                                s3 = s3.assume(Val.is_VStr(idx.z))
                                kz = Val.vs(idx.z)
                            else:
                                self.oos('object key of sort %r' % (idx.ty,), node)
                            vv = self.coerce(val, VAL)
                            if vv is None:
                                s3, vv = self.to_val_deep(s3, val)
                            res.append(Res(self.vobj_write(s3, Val.vo(c.z), self.dict_set(d, kz, vv)),
                                           mk_none()))
                        else:
                            self.oos('item store into a JSON list', node)
                    if rest is not None:
                        res += self.raise_(rest, 'TypeError', node)
                    return res
                if isinstance(ty, TRef):
                    c = self.find_method_contract(ty.cls, '__setitem__')
                    if c is None:
                        self.oos('item store on %s without __setitem__ contract' % ty.cls, node)
                    return self.call_contract(s2, c, [cont, idx, val], {}, node, recv=cont)
                self.oos('item store on %r' % (ty,), node)
            for r in self.ev_many([target.value, target.slice], st, k):
                out.append(r if r.exc is not None else r.st)
            return out
        self.oos('assignment target %s' % type(target).__name__, node)

    def ex_Delete(self, s, st):
        outs = [Outcome('next', st)]
        for t in s.targets:
            new = []
            for o in outs:
                if o.kind != 'next':
                    new.append(o)
                    continue
                if isinstance(t, ast.Subscript):
                    call = ast.Call(func=ast.Attribute(value=t.value, attr='pop', ctx=ast.Load()),
                                    args=[t.slice], keywords=[])
                    ast.copy_location(call, s)
                    ast.fix_missing_locations(call)
                    new += self.from_res(self.ev(call, o.st), lambda s2, v: [Outcome('next', s2)])
                elif isinstance(t, ast.Name):
                    s2 = o.st.copy()
                    s2.env.pop(t.id, None)
                    new.append(Outcome('next', s2))
                else:
                    self.oos('del of %s' % type(t).__name__, s)
            outs = new
        return outs

    # ------------------------------------------------------------------ control flow
    def ex_If(self, s, st):
        # platform guards are folded for POSIX (A-POSIX)
        if isinstance(s.test, ast.Name) and s.test.id == 'IS_WINDOWS' and 'IS_WINDOWS' not in st.env:
            self.dropped.append('if IS_WINDOWS@%d' % s.lineno)
            return self.ex_block(s.orelse, st)
        if isinstance(s.test, ast.UnaryOp) and isinstance(s.test.op, ast.Not) and isinstance(s.test.operand, ast.Name) \
                and s.test.operand.id == 'IS_WINDOWS' and 'IS_WINDOWS' not in st.env:
            self.dropped.append('if not IS_WINDOWS@%d' % s.lineno)
            return self.ex_block(s.body, st)

        def k(s2, v):
            c = self.truthy(s2, v)
            t, f = self.branch(s2, c, 'if@%d' % s.lineno)
            out = []
            if t is not None:
                self.cover(s, 'then')
                out += self.ex_block(s.body, t)
            if f is not None:
                self.cover(s, 'else')
                out += self.ex_block(s.orelse, f)
            return out
        return self.from_res(self.ev(s.test, st), k)

    def cover(self, node, arm):
        self.cover_points.append((getattr(node, 'lineno', 0), arm))

    def ex_Raise(self, s, st):
        if s.exc is None:
            cur = st.env.get('$exc')
            if cur is None:
                self.oos('bare raise outside handler', s)
            return [Outcome('raise', st, None, cur.py)]
        # raise gen.Return(v) in a coroutine = return v
        if isinstance(s.exc, ast.Call) and isinstance(s.exc.func, ast.Attribute) and \
                s.exc.func.attr == 'Return' and isinstance(s.exc.func.value, ast.Name) and \
                s.exc.func.value.id == 'gen':
            if s.exc.args:
                return self.from_res(self.ev(s.exc.args[0], st),
                                     lambda s2, v: [Outcome('return', s2, v)])
            return [Outcome('return', st, mk_none())]

        def k(s2, v):
            if v.ty == EXC:
                ex = v.py
                if ex.origin is None:
                    ex.origin = s.lineno
                return [Outcome('raise', s2, None, ex)]
            if v.ty == PY and v.py[0] == 'excclass':
                return [Outcome('raise', s2, None, Exc(v.py[1], origin=s.lineno))]
            self.oos('raise of %r' % (v.ty,), s)
        return self.from_res(self.ev(s.exc, st), k)

    def handler_classes(self, h):
        if h.type is None:
            return ['BaseException']
        names = self.class_names(h.type)
        out = []
        for n in names:
            n = {'IOError': 'OSError', 'EnvironmentError': 'OSError'}.get(n, n)
            if n == 'error':
                n = 'OSError'       # socket.error
            if n not in self.spec.exc_parent:
                self.oos('unknown exception class %s in handler' % n, h)
            out.append(n)
        return out

    def match_handler(self, exc, classes):
        """-> 'yes' | 'no' | 'maybe'"""
        for c in classes:
            if self.spec.is_subexc(exc.cls, c):
                return 'yes'
        if not exc.exact:
            for c in classes:
                if self.spec.is_subexc(c, exc.cls):
                    return 'maybe'
        return 'no'

    def ex_Try(self, s, st):
        outs = []
        body_outs = self.ex_block(s.body, st)
        after = []
        for o in body_outs:
            if o.kind == 'raise':
                after += self.dispatch_handlers(s, o)
            elif o.kind == 'next':
                if s.orelse:
                    after += self.ex_block(s.orelse, o.st)
                else:
                    after.append(o)
            else:
                after.append(o)
        if not s.finalbody:
            return after
        final = []
        for o in after:
            for fo in self.ex_block(s.finalbody, o.st):
                if fo.kind == 'next':
                    final.append(Outcome(o.kind, fo.st, o.val, o.exc))
                else:
                    final.append(fo)     # finally overrides
        return final

    def dispatch_handlers(self, s, o):
        exc = o.exc
        out = []
        pending = [(o.st, exc)]
        for h in s.handlers:
            classes = self.handler_classes(h)
            nxt = []
            for stx, ex in pending:
                m = self.match_handler(ex, classes)
                if m == 'no':
                    nxt.append((stx, ex))
                    continue
                if m == 'maybe':
                    # the unknown exception may or may not be of a handled class
                    nxt.append((stx.tag('exc!%s' % classes[0]), ex))
                    sub = [c for c in classes if self.spec.is_subexc(c, ex.cls)]
                    ex = Exc(sub[0], dict(ex.fields), False, origin=ex.origin)
                s2 = stx.copy()
                saved = s2.env.get('$exc')
                s2.env['$exc'] = SV(EXC, (), py=ex)
                if h.name:
                    s2.env[h.name] = SV(EXC, (), py=ex)
                for ho in self.ex_block(h.body, s2):
                    s3 = ho.st.copy()
                    if saved is None:
                        s3.env.pop('$exc', None)
                    else:
                        s3.env['$exc'] = saved
                    out.append(Outcome(ho.kind, s3, ho.val, ho.exc))
            pending = nxt
        for stx, ex in pending:
            out.append(Outcome('raise', stx, None, ex))
        return out

    def ex_With(self, s, st):
        if len(s.items) != 1:
            self.oos('with several items', s)
        it = s.items[0]

        def k(s2, cm):
            if not isinstance(cm.ty, TRef):
                self.oos('with on %r' % (cm.ty,), s)
            if it.optional_vars is not None:
                s2 = self.bind_target(s2, it.optional_vars, cm, s)
            ex = self.find_method_contract(cm.ty.cls, '__exit__')
            if ex is None:
                self.oos('context manager %s without __exit__ contract' % cm.ty.cls, s)
            out = []
            for o in self.ex_block(s.body, s2):
                for r in self.call_contract(o.st, ex, [cm], {}, s, recv=cm):
                    if r.exc is not None:
                        out.append(Outcome('raise', r.st, None, r.exc))
                    else:
                        out.append(Outcome(o.kind, r.st, o.val, o.exc))
            return out
        return self.from_res(self.ev(it.context_expr, st), k)

    # ------------------------------------------------------------------ loops
    def loop_contract(self, node):
        ordn = self.loop_ordinals.get(id(node))
        if ordn is None or self.contract is None:
            return None, ordn
        return self.contract.loops.get(ordn), ordn

    def scan_mods(self, stmts):
        sc = ModScan(self)
        for s in stmts:
            sc.visit(s)
        return sc

    def havoc_for_loop(self, st, sc, lc, extra_names=()):
        """havoc everything the loop body may modify"""
        st = st.copy()
        for n in sorted(sc.names | set(extra_names)):
            if n in st.env and st.env[n].ty not in (PY, EXC) and st.env[n].t:
                st.env[n] = fresh(st.env[n].ty, 'lp_' + n)
            elif n in st.env and isinstance(st.env[n].ty, (TList, TDict, TSet)) and not st.env[n].t:
                self.oos('loop modifies the untyped empty container %r: initialise it with a typed '
                         'value or give the loop a typed_locals hint' % n)
        mods = {'keys': {}, 'ghosts': set(), 'all': sc.everything, 'new': set()}
        if lc is not None and lc.modifies is not None:
            explicit = self.parse_mods(lc.modifies, st)
            mods = explicit
        else:
            for f in sc.fields:
                for cname, d in self.spec.classes.items():
                    if f in d.fields:
                        mods['keys'][(cname, f)] = None
            if sc.val_heap:
                mods['keys'][('$vobj', 'map')] = None
                mods['keys'][('$vlist', 'seq')] = None
            # callee effects
            for cn in sc.calls:
                for q, c in self.spec.contracts.items():
                    tail = q.split(':')[-1].split('.')[-1]
                    if tail == cn:
                        cm = self.mods_of_contract_conservative(c)
                        mods['keys'].update(cm['keys'])
                        mods['ghosts'] |= cm['ghosts']
                        mods['new'] |= cm['new']
                        mods['all'] = mods['all'] or cm['all']
            if sc.has_yield:
                mods['all'] = True
        if sc.has_yield:
            st = st.tag('yield@loop')     # an arbitrary iteration may already have suspended
        return self.apply_havoc(st, mods)

    def mods_of_contract_conservative(self, c):
        out = {'keys': {}, 'ghosts': set(), 'all': False, 'new': set()}
        for m in list(c.modifies) + list(c.exc_modifies or []):
            if m == '*':
                out['all'] = True
            elif m == '$val':
                out['keys'][('$vobj', 'map')] = None
                out['keys'][('$vlist', 'seq')] = None
                out['new'] |= set(['$vobj', '$vlist'])
            elif m.startswith('new:'):
                out['new'].add(m[4:])
            elif m in self.spec.ghosts:
                out['ghosts'].add(m)
            else:
                head, field = m.rsplit('.', 1)
                if head in self.spec.classes:
                    out['keys'][self.field_info(head, field)[0]] = None
                else:
                    # object-restricted: the whole field of the object's class when it can be told
                    # from the contract (self / typed parameter), else of every class having the field
                    cls = None
                    if head == 'self':
                        tail = c.qual.split(':')[-1]
                        if '.' in tail:
                            cls = tail.split('.')[0].lstrip('$')
                    elif head in c.params and isinstance(c.params[head], TRef):
                        cls = c.params[head].cls
                    if cls in self.spec.classes and field != '*' and \
                            self.spec.field_owner(cls, field) is not None:
                        out['keys'][self.field_info(cls, field)[0]] = None
                        continue
                    if cls in self.spec.classes and field == '*':
                        for cn in self.spec.mro(cls):
                            for fld in self.spec.classes[cn].fields:
                                out['keys'][(cn, fld)] = None
                        continue
                    for cname, d in self.spec.classes.items():
                        if field in d.fields:
                            out['keys'][(cname, field)] = None
        return out

    def check_invariants(self, lc, st, ordn, phase, node):
        for i, inv in enumerate(lc.invariant):
            c = self.spb(inv, st, +1)
            self.add_vc('inv-%s[%d]:loop%d' % (phase, i, ordn), 'inv-' + phase, st, c, node, note=inv)

    def assume_invariants(self, lc, st):
        cs = [self.spb(inv, st, -1) for inv in lc.invariant]
        return st.assume(*cs)

    def ex_While(self, s, st):
        lc, ordn = self.loop_contract(s)
        if lc is None:
            self.oos('while loop %s needs a loop contract' % ordn, s)
        if lc.fingerprint is not None:
            fp = 'while:' + ast.unparse(s.test)
            if fp != lc.fingerprint:
                self.oos('invariant for loop %d no longer matches (found %r, contract has %r)'
                         % (ordn, fp, lc.fingerprint), s)
        st = st.copy()
        st.labels = dict(st.labels)
        st.labels['loop%d_pre' % ordn] = st
        self.check_invariants(lc, st, ordn, 'entry', s)
        sc = self.scan_mods(s.body + [ast.Expr(value=s.test)])
        h = self.havoc_for_loop(st, sc, lc)
        h = self.assume_invariants(lc, h)
        if not self.feasible(h):
            return []
        out = []
        v0 = None
        variant = lc.variant
        if variant is None and getattr(self.spec, 'require_variants', False):
            variant = lc.variant_opt
            if variant is None:
                self.add_vc('variant:loop%d' % ordn, 'variant', h, z3.BoolVal(False), s,
                            note='no termination measure can be given for this loop: it runs until an external event')
        if variant is not None:
            v0 = self.sp(variant, h)

        def k(s2, v):
            c = self.truthy(s2, v)
            t, f = self.branch(s2, c, 'while@%d' % s.lineno)
            res = []
            if t is not None:
                for o in self.ex_block(s.body, t):
                    if o.kind in ('next', 'continue'):
                        self.check_invariants(lc, o.st, ordn, 'pres', s)
                        if v0 is not None:
                            v1 = self.sp(variant, o.st)
                            if v0.ty == INT:
                                goal = z3.And(v0.z >= 0, v1.z < v0.z)
                            else:
                                goal = z3.And(v0.z >= 0, v1.z <= v0.z - z3.RealVal('1/1000'))
                            self.add_vc('variant:loop%d' % ordn, 'variant', o.st, goal, s,
                                        note=variant)
                    elif o.kind == 'break':
                        res.append(Outcome('next', o.st))
                    else:
                        res.append(o)
            if f is not None:
                if s.orelse:
                    res += self.ex_block(s.orelse, f)
                else:
                    res.append(Outcome('next', f))
            return res
        return self.from_res(self.ev(s.test, h), k)

    def ex_For(self, s, st):
        out = []
        for r in self.ev(s.iter, st):
            if r.exc is not None:
                out.append(Outcome('raise', r.st, None, r.exc))
                continue
            for s2, info in self.iterable(r.st, r.val, s.iter):
                if info is None:
                    out.append(Outcome('raise', s2, None, Exc('TypeError', origin=s.lineno)))
                elif info['static'] is not None:
                    out += self.for_static(s, s2, info['static'])
                else:
                    out += self.for_symbolic(s, s2, info)
        return out

    def for_static(self, s, st, items):
        def go(i, st):
            if i == len(items):
                if s.orelse:
                    return self.ex_block(s.orelse, st)
                return [Outcome('next', st)]
            states = self.assign_to(st, s.target, items[i], s)
            res = []
            for x in states:
                if isinstance(x, Res):
                    res.append(Outcome('raise', x.st, None, x.exc))
                    continue
                for o in self.ex_block(s.body, x):
                    if o.kind in ('next', 'continue'):
                        res += go(i + 1, o.st)
                    elif o.kind == 'break':
                        res.append(Outcome('next', o.st))
                    else:
                        res.append(o)
            return res
        return go(0, st)

    def for_symbolic(self, s, st, info):
        lc, ordn = self.loop_contract(s)
        if lc is None:
            self.oos('for loop %s over a symbolic sequence needs a loop contract' % ordn, s)
        if lc.fingerprint is not None:
            fp = 'for:' + ast.unparse(s.iter)
            if fp != lc.fingerprint:
                self.oos('invariant for loop %d no longer matches (found %r, contract has %r)'
                         % (ordn, fp, lc.fingerprint), s)
        n = info['len']
        st = st.copy()
        st.labels = dict(st.labels)
        st.labels['loop%d_pre' % ordn] = st
        st.env['loop_n'] = SV(INT, n)
        if 'seq' in info:
            st.env['loop_seq'] = info['seq']
        if 'keys' in info:
            st.env['loop_keys'] = info['keys']
        st0 = st.setvar('loop_i', mk_int(0))
        self.check_invariants(lc, st0, ordn, 'entry', s)
        sc = self.scan_mods(s.body)
        tnames = set()
        tsc = ModScan(self)
        tsc.target(s.target)
        h = self.havoc_for_loop(st0, sc, lc, extra_names=())
        i = z3.Int(fresh_name('loop_i'))
        h = h.setvar('loop_i', SV(INT, i)).assume(0 <= i, i <= n)
        h = self.assume_invariants(lc, h)
        if not self.feasible(h):
            return []
        res = []
        t, f = self.branch(h, i < n, 'for@%d' % s.lineno)
        if t is not None:
            elem = info['elem'](t, i)
            if isinstance(elem.ty, TRef):
                t = t.assume(self.allocated_fact(t, elem.ty.cls, elem.z))
            states = self.assign_to(t, s.target, elem, s)
            for x in states:
                if isinstance(x, Res):
                    res.append(Outcome('raise', x.st, None, x.exc))
                    continue
                for o in self.ex_block(s.body, x):
                    if o.kind in ('next', 'continue'):
                        nx = o.st.setvar('loop_i', SV(INT, i + 1))
                        self.check_invariants(lc, nx, ordn, 'pres', s)
                    elif o.kind == 'break':
                        res.append(Outcome('next', self.drop_loop_vars(o.st)))
                    else:
                        res.append(o)
        if f is not None:
            f = self.drop_loop_vars(f)
            if s.orelse:
                res += self.ex_block(s.orelse, f)
            else:
                res.append(Outcome('next', f))
        return res

    def drop_loop_vars(self, st):
        st = st.copy()
        for k in ('loop_i', 'loop_n', 'loop_seq', 'loop_keys'):
            st.env.pop(k, None)
        return st
