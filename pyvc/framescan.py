"""Whole-package syntactic frame obligations.

A `modifies` clause is checked per function by the VC generator; these scans check the
complementary global statement "field F is written / function G is called ONLY inside the listed
functions" over every function of the package, on the real source of the current tree.  They
are decided by an AST walk (attribute-name based; sound under A-NOSETATTR: no setattr/__dict__
writes of the scanned attributes, which is itself scanned for).
"""
import ast

from .extract import _all_defs


def _dotted(e):
    if isinstance(e, ast.Attribute):
        b = _dotted(e.value)
        return (b + '.' + e.attr) if b else None
    if isinstance(e, ast.Name):
        return e.id
    return None


def _own_nodes(fn):
    """nodes of a function body excluding nested function bodies"""
    todo = [x for x in fn.body if not isinstance(x, (ast.FunctionDef, ast.AsyncFunctionDef, ast.ClassDef))]
    while todo:
        n = todo.pop()
        yield n
        for c in ast.iter_child_nodes(n):
            if isinstance(c, (ast.FunctionDef, ast.AsyncFunctionDef, ast.ClassDef)):
                continue
            todo.append(c)


def sites(src, fr):
    out = []
    scope = fr.get('scope', ['circus'])
    excl = fr.get('exclude_modules', [])
    for qual, node, mi in src.all_functions('circus'):
        mod = qual.split(':')[0]
        if not any(mod == s or mod.startswith(s + '.') for s in scope):
            continue
        if any(mod == s or mod.startswith(s + '.') for s in excl):
            continue
        for n in _own_nodes(node):
            if fr['kind'] == 'attr_store':
                targets = []
                if isinstance(n, ast.Assign):
                    targets = n.targets
                elif isinstance(n, (ast.AugAssign, ast.AnnAssign)):
                    targets = [n.target]
                elif isinstance(n, ast.Delete):
                    targets = n.targets
                for t in targets:
                    for x in ast.walk(t):
                        if isinstance(x, ast.Attribute) and x.attr == fr['attr'] and \
                                isinstance(x.ctx, (ast.Store, ast.Del)):
                            out.append((qual, n.lineno, 'store .%s' % x.attr))
                if isinstance(n, ast.Call) and isinstance(n.func, ast.Name) and n.func.id == 'setattr' \
                        and len(n.args) >= 2 and isinstance(n.args[1], ast.Constant) and \
                        n.args[1].value == fr['attr']:
                    out.append((qual, n.lineno, 'setattr %s' % fr['attr']))
            elif fr['kind'] == 'container_mutation':
                # mutation of the container held in attribute `attr`: x.attr[k] = .., del x.attr[k],
                # x.attr.pop/append/remove/...()
                if isinstance(n, (ast.Assign, ast.AugAssign, ast.Delete)):
                    ts = n.targets if isinstance(n, (ast.Assign, ast.Delete)) else [n.target]
                    for t in ts:
                        if isinstance(t, ast.Subscript) and isinstance(t.value, ast.Attribute) and \
                                t.value.attr == fr['attr']:
                            out.append((qual, n.lineno, 'item store .%s[..]' % fr['attr']))
                        if isinstance(t, ast.Attribute) and t.attr == fr['attr']:
                            out.append((qual, n.lineno, 'store .%s' % fr['attr']))
                if isinstance(n, ast.Call) and isinstance(n.func, ast.Attribute) and \
                        isinstance(n.func.value, ast.Attribute) and n.func.value.attr == fr['attr'] and \
                        n.func.attr in ('pop', 'append', 'remove', 'clear', 'update', 'insert',
                                        'extend', 'setdefault', 'popitem', 'sort', 'reverse', 'add'):
                    out.append((qual, n.lineno, '.%s.%s()' % (fr['attr'], n.func.attr)))
            elif fr['kind'] == 'call':
                if isinstance(n, ast.Call):
                    d = _dotted(n.func)
                    name = n.func.attr if isinstance(n.func, ast.Attribute) else \
                        (n.func.id if isinstance(n.func, ast.Name) else None)
                    for c in fr['callee']:
                        if ('.' in c and d == c) or ('.' not in c and name == c and
                                                     (fr.get('methods_only') is not True or
                                                      isinstance(n.func, ast.Attribute))):
                            if fr.get('arg_filter'):
                                if not fr['arg_filter'](n):
                                    continue
                            out.append((qual, n.lineno, 'call %s' % (d or name)))
    return out


READ_ONLY_METHODS = ('copy', 'get', 'items', 'keys', 'values', '__contains__')


def escaping_uses(src, fr):
    """uses of the global object `name` (dotted, e.g. os.environ) other than reading it: receiver of a read-only
    method, subscript load, `in` test, argument of dict() / len() / sorted().  Everything else (bound to a variable or
    attribute, passed on, written through) is a site: the object may be modified or aliased there."""
    out = []
    scope = fr.get('scope', ['circus'])
    excl = fr.get('exclude_modules', [])
    for qual, node, mi in src.all_functions('circus'):
        mod = qual.split(':')[0]
        if not any(mod == s or mod.startswith(s + '.') for s in scope):
            continue
        if any(mod == s or mod.startswith(s + '.') for s in excl):
            continue
        parent = {}
        own = list(_own_nodes(node))
        for n in own:
            for c in ast.iter_child_nodes(n):
                parent[id(c)] = n
        for n in own:
            if not (isinstance(n, ast.Attribute) and _dotted(n) == fr['object']):
                continue
            par = parent.get(id(n))
            ok = False
            if isinstance(par, ast.Attribute) and par.value is n and par.attr in READ_ONLY_METHODS and \
                    isinstance(parent.get(id(par)), ast.Call) and parent[id(par)].func is par:
                ok = True
            elif isinstance(par, ast.Subscript) and par.value is n and isinstance(par.ctx, ast.Load):
                ok = True
            elif isinstance(par, ast.Compare) and n in par.comparators and \
                    all(isinstance(o, (ast.In, ast.NotIn)) for o in par.ops):
                ok = True
            elif isinstance(par, ast.Call) and n in par.args and isinstance(par.func, ast.Name) and \
                    par.func.id in ('dict', 'len', 'sorted', 'list'):
                ok = True
            if not ok:
                out.append((qual, n.lineno, 'use of %s that may alias or modify it' % fr['object']))
    return out


def decorated_scan(src, fr):
    """every listed method carries @synchronized(<name>) (util.synchronized / synchronized)"""
    from .extract import deco_name
    bad = []
    n = 0
    for qual, name in fr['methods'].items():
        n += 1
        try:
            fi = src.find(qual)
        except Exception as e:
            bad.append({'function': qual, 'line': 0, 'what': 'not found'})
            continue
        if fi.synchronized != name:
            bad.append({'function': qual, 'line': fi.lines[0],
                        'what': 'expected @synchronized(%r), found %r' % (name, fi.synchronized)})
        elif fr.get('outermost', True) and deco_name(fi.deco_nodes[0]) not in ('util.synchronized', 'synchronized'):
            bad.append({'function': qual, 'line': fi.lines[0], 'what': '@synchronized is not the outermost decorator'})
    return {'name': 'frame-scan:' + fr['name'], 'what': fr['what'], 'checked': n, 'sites_found': n,
            'ok': not bad, 'violations': bad, 'sites': []}


def defs_scan(src, fr):
    """every function definition called `def_name` inside the scope (the overriders of a method)"""
    out = []
    scope = fr.get('scope', ['circus'])
    for qual, node, mi in src.all_functions('circus'):
        mod = qual.split(':')[0]
        if not any(mod == s or mod.startswith(s + '.') for s in scope):
            continue
        if node.name == fr['def_name']:
            out.append((qual, node.lineno, 'def %s' % node.name))
    return out


def body_is_scan(src, fr):
    """the definition of `function` is literally the given statements (docstring dropped) and carries the given decorators:
    a model field that stands for a property (Process.pid = self._worker.pid) is tied to the code this way"""
    import ast
    bad = []
    try:
        fi = src.find(fr['function'])
        body = list(fi.node.body)
        if body and isinstance(body[0], ast.Expr) and isinstance(getattr(body[0], 'value', None), ast.Constant) \
                and isinstance(body[0].value.value, str):
            body = body[1:]
        text = '; '.join(ast.unparse(b) for b in body)
        decos = [ast.unparse(d) for d in fi.node.decorator_list]
        if text != fr['body']:
            bad.append({'function': fr['function'], 'line': fi.lines[0], 'what': 'body is %r, expected %r' % (text, fr['body'])})
        if decos != fr.get('decorators', decos):
            bad.append({'function': fr['function'], 'line': fi.lines[0],
                        'what': 'decorators are %r, expected %r' % (decos, fr['decorators'])})
    except Exception as e:
        bad.append({'function': fr['function'], 'line': 0, 'what': 'not found (%s)' % type(e).__name__})
    return {'name': 'frame-scan:' + fr['name'], 'what': fr['what'], 'checked': 1, 'sites_found': 1,
            'ok': not bad, 'violations': bad, 'sites': []}


def run(fr, src, spec):
    if fr['kind'] == 'decorated':
        return decorated_scan(src, fr)
    if fr['kind'] == 'body_is':
        return body_is_scan(src, fr)
    found = defs_scan(src, fr) if fr['kind'] == 'defs' else (escaping_uses(src, fr) if fr['kind'] == 'escaping_use' else sites(src, fr))
    allowed = fr.get('allowed', [])
    bad = []
    for qual, line, what in found:
        if not any(qual == a or qual.startswith(a + '.') for a in allowed):
            bad.append({'function': qual, 'line': line, 'what': what})
    return {'name': 'frame-scan:' + fr['name'], 'what': fr['what'], 'checked': max(1, len(found)),
            'sites_found': len(found), 'ok': not bad, 'violations': bad,
            'sites': [list(s) for s in found]}
