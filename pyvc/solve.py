"""Discharge VCs: z3 (python API) first, cvc5 (binary) on unknown; one query per process slot."""
import json
import multiprocessing
import os
import re
import subprocess
import tempfile
import time

import z3

CVC5 = '/usr/bin/cvc5'
Z3_TIMEOUT_MS = int(os.environ.get('PYVC_Z3_TIMEOUT_MS', '20000'))
AUX_TIMEOUT_MS = int(os.environ.get('PYVC_AUX_TIMEOUT_MS', '4000'))
CVC5_TIMEOUT_S = int(os.environ.get('PYVC_CVC5_TIMEOUT_S', '30'))
CVC5_CROSS_S = int(os.environ.get('PYVC_CVC5_CROSS_S', '3'))


def vc_to_smt2(vc):
    s = z3.Solver()
    for a in vc.query():
        s.add(a)
    return s.to_smt2()


def _pyval(v, m, depth=0):
    """z3 model value -> JSON-able python"""
    try:
        if z3.is_int_value(v):
            return v.as_long()
        if z3.is_rational_value(v):
            return {'real': str(v.as_fraction())}
        if z3.is_true(v):
            return True
        if z3.is_false(v):
            return False
        if z3.is_string_value(v):
            return v.as_string()
        srt = v.sort()
        if srt.kind() == z3.Z3_DATATYPE_SORT:
            d = v.decl().name()
            return {'ctor': d, 'args': [_pyval(v.arg(i), m, depth + 1) for i in range(v.num_args())]}
        if srt.kind() == z3.Z3_SEQ_SORT:
            n = m.eval(z3.Length(v), model_completion=True)
            if z3.is_int_value(n) and n.as_long() <= 64:
                return {'seq': [_pyval(m.eval(v[z3.IntVal(i)], model_completion=True), m, depth + 1)
                                for i in range(n.as_long())]}
            return {'seq_str': str(v)[:200]}
    except Exception as e:     # pragma: no cover
        return {'err': str(e)}
    return {'str': str(v)[:300]}


def _array_entries(a, m, cands):
    out = {}
    dom = a.sort().domain()
    for c in cands:
        try:
            if dom == z3.IntSort() and isinstance(c, int):
                k = z3.IntVal(c)
            elif dom == z3.StringSort() and isinstance(c, str):
                k = z3.StringVal(c)
            else:
                continue
            v = m.eval(z3.Select(a, k), model_completion=True)
            if z3.is_array(v):
                continue
            out[json.dumps(c)] = _pyval(v, m)
        except Exception:
            continue
    return out


def dump_model(m):
    scal = {}
    arrays = []
    cands = set([0, 1, 2, 3, 4, 5])
    for d in m.decls():
        if d.arity() != 0:
            continue
        v = m[d]
        if z3.is_array(v) or (hasattr(v, 'sort') and v.sort().kind() == z3.Z3_ARRAY_SORT):
            arrays.append((d.name(), v))
            # keys of store chains
            txt = str(v)
            for n in re.findall(r'-?\d+', txt)[:200]:
                try:
                    cands.add(int(n))
                except ValueError:
                    pass
            for sm in re.findall(r'"((?:[^"\\]|\\.)*)"', txt)[:100]:
                cands.add(sm)
            continue
        pv = _pyval(v, m)
        scal[d.name()] = pv
        if isinstance(pv, int) and not isinstance(pv, bool):
            cands.add(pv)
        elif isinstance(pv, str):
            cands.add(pv)
        elif isinstance(pv, dict):
            for x in re.findall(r'-?\d+', json.dumps(pv))[:50]:
                cands.add(int(x))
            for sm in re.findall(r'"((?:[^"\\]|\\.)*)"', json.dumps(pv))[:50]:
                cands.add(sm)
    arrs = {}
    for name, v in arrays:
        try:
            c = z3.Const(name, v.sort())
            rng = v.sort().range()
            if rng.kind() == z3.Z3_ARRAY_SORT:
                inner = {}
                for k in cands:
                    if isinstance(k, int) and v.sort().domain() == z3.IntSort():
                        sub = m.eval(z3.Select(c, z3.IntVal(k)), model_completion=True)
                        ent = _array_entries(sub, m, cands)
                        if ent:
                            inner[json.dumps(k)] = ent
                arrs[name] = {'nested': inner}
            else:
                arrs[name] = {'entries': _array_entries(c, m, cands)}
        except Exception as e:
            arrs[name] = {'err': str(e)}
    return {'scalars': scal, 'arrays': arrs}


def _run_cvc5(txt, timeout_s):
    fd, p = tempfile.mkstemp(suffix='.smt2', prefix='pyvc_')
    try:
        with os.fdopen(fd, 'w') as f:
            f.write('(set-logic ALL)\n' + txt)
        t0 = time.time()
        try:
            pr = subprocess.run([CVC5, '--strings-exp', '--tlimit=%d' % (timeout_s * 1000), p],
                                capture_output=True, text=True, timeout=timeout_s + 5)
            out = (pr.stdout or '').strip().splitlines()
            res = out[0].strip() if out else 'unknown'
            if res not in ('sat', 'unsat'):
                res = 'unknown'
        except subprocess.TimeoutExpired:
            res = 'unknown'
        return res, time.time() - t0
    finally:
        try:
            os.unlink(p)
        except OSError:
            pass


def solve_one(job):
    name, txt, expect, want_model, use_cvc5, both = job
    t0 = time.time()
    res = 'unknown'
    backend = 'z3-%s' % z3.get_version_string()
    model = None
    reason = ''
    try:
        s = z3.Solver()
        s.set('timeout', Z3_TIMEOUT_MS if expect == 'unsat' else AUX_TIMEOUT_MS)
        s.from_string(txt)
        r = s.check()
        res = str(r)
        if r == z3.sat and want_model:
            try:
                model = dump_model(s.model())
            except Exception as e:
                model = {'err': str(e)}
        if r == z3.unknown:
            reason = s.reason_unknown()
    except Exception as e:
        res = 'unknown'
        reason = 'z3 error: %s' % e
    tz = time.time() - t0
    cv = None
    if (res == 'unknown' and use_cvc5 and expect == 'unsat') or (both and expect == 'unsat'):
        # thorough tier: cvc5 also looks at what z3 already decided, with a short budget (cross-check only)
        cres, ct = _run_cvc5(txt, CVC5_TIMEOUT_S if res == 'unknown' else CVC5_CROSS_S)
        cv = (cres, ct)
        if res == 'unknown' and cres in ('sat', 'unsat'):
            res = cres
            backend = 'cvc5-1.0.3'
    return {'name': name, 'result': res, 'backend': backend, 'time': time.time() - t0,
            'z3_time': tz, 'model': model, 'reason': reason, 'cvc5': cv, 'expect': expect}


def _child(job, conn):
    try:
        conn.send(solve_one(job))
    except Exception as e:      # pragma: no cover
        conn.send({'name': job[0], 'result': 'unknown', 'backend': 'z3', 'time': 0.0, 'z3_time': 0.0,
                   'model': None, 'reason': 'worker error: %s' % e, 'cvc5': None, 'expect': job[2]})
    finally:
        conn.close()


def solve_all(vcs, procs=None, use_cvc5=True, both=False, want_model=True):
    """one OS process per query (hard wall-clock limit: z3's own timeout is not always honoured
    inside quantifier instantiation / model construction), at most `procs` at a time"""
    jobs = []
    for vc in vcs:
        jobs.append((vc.name, vc_to_smt2(vc), vc.expect, want_model and vc.expect == 'unsat',
                     use_cvc5, both))
    procs = procs or int(os.environ.get('PYVC_PROCS', '16'))
    hard = Z3_TIMEOUT_MS / 1000.0 + CVC5_TIMEOUT_S + 15
    ctx = multiprocessing.get_context('fork')
    results = [None] * len(jobs)
    running = {}
    nxt = 0
    while nxt < len(jobs) or running:
        while nxt < len(jobs) and len(running) < procs:
            pr, pw = ctx.Pipe(duplex=False)
            p = ctx.Process(target=_child, args=(jobs[nxt], pw))
            p.daemon = True
            p.start()
            pw.close()
            running[nxt] = (p, pr, time.time())
            nxt += 1
        done = []
        for i, (p, pr, t0) in running.items():
            if pr.poll(0):
                try:
                    results[i] = pr.recv()
                except EOFError:
                    results[i] = None
                p.join(1)
                done.append(i)
            elif not p.is_alive():
                done.append(i)
            elif time.time() - t0 > hard:
                p.kill()
                p.join(1)
                done.append(i)
        for i in done:
            p, pr, t0 = running.pop(i)
            if results[i] is None:
                results[i] = {'name': jobs[i][0], 'result': 'unknown', 'backend': 'z3', 'time': time.time() - t0,
                              'z3_time': time.time() - t0, 'model': None,
                              'reason': 'hard wall-clock limit', 'cvc5': None, 'expect': jobs[i][2]}
            pr.close()
        if not done:
            time.sleep(0.01)
    return results
