"""pyvc engine: forward symbolic execution of real Python function bodies to verification
conditions, calls by contract, loops by invariant, exceptions as explicit paths."""
import ast
import importlib
import z3

from .tys import *   # noqa
from .state import State, Exc, Res
from .spec import Contract, Loop, EXC_ALIASES
from .extract import SourceIndex, deco_name, DROPPED_DECORATORS

STDLIB_CONST_MODULES = ('os', 'errno', 'signal', 'socket', 'stat', 'select', 'sys')


class Outcome(object):
    __slots__ = ('kind', 'st', 'val', 'exc')

    def __init__(self, kind, st, val=None, exc=None):
        self.kind = kind
        self.st = st
        self.val = val
        self.exc = exc


class VC(object):
    def __init__(self, name, kind, pc, goal, fn, line=None, trace=(), expect='unsat', note='',
                 witness_terms=None):
        self.name = name
        self.kind = kind
        self.pc = list(pc)
        self.goal = goal          # z3 Bool to be proved under pc (expect unsat of pc & !goal);
        #                           for covers: goal is checked sat together with pc
        self.fn = fn
        self.line = line
        self.trace = trace
        self.expect = expect
        self.note = note
        self.witness_terms = witness_terms or {}

    def query(self):
        if self.expect in ('sat', 'sat-info'):
            return list(self.pc) + [self.goal]
        return list(self.pc) + [z3.Not(self.goal)]


def FA(vars, body, patterns=()):
    """ForAll with explicit triggers; falls back to automatic triggers when a trigger is not
    admissible (e.g. it contains a lambda)"""
    pats = [p for p in patterns if _ok_pattern(p)]
    if not pats:
        return z3.ForAll(vars, body)
    try:
        return z3.ForAll(vars, body, patterns=pats)
    except z3.Z3Exception:
        return z3.ForAll(vars, body)


def _ok_pattern(t):
    if not z3.is_app(t):
        return True     # MultiPattern objects
    try:
        k = t.decl().kind()
    except Exception:
        return True
    if k not in (z3.Z3_OP_UNINTERPRETED, z3.Z3_OP_SELECT):
        return False
    todo = [t]
    while todo:
        x = todo.pop()
        if z3.is_quantifier(x):
            return False
        todo += x.children()
    return True


def zand(xs):
    xs = [x for x in xs if not z3.is_true(x)]
    if not xs:
        return z3.BoolVal(True)
    if len(xs) == 1:
        return xs[0]
    return z3.And(*xs)


def zor(xs):
    xs = list(xs)
    if not xs:
        return z3.BoolVal(False)
    if len(xs) == 1:
        return xs[0]
    return z3.Or(*xs)


# uninterpreted string functions (A-STR), axioms added on demand
STR_LOWER = z3.Function('str_lower', z3.StringSort(), z3.StringSort())
STR_UPPER = z3.Function('str_upper', z3.StringSort(), z3.StringSort())
STR_STRIP = z3.Function('str_strip', z3.StringSort(), z3.StringSort())
STR_OF_INT = z3.Function('str_of_int', z3.IntSort(), z3.StringSort())
STR_OF_VAL = z3.Function('str_of_val', Val, z3.StringSort())
REPR_OF_VAL = z3.Function('repr_of_val', Val, z3.StringSort())
INT_OF_STR_OK = z3.Function('int_of_str_ok', z3.StringSort(), z3.BoolSort())
INT_OF_STR = z3.Function('int_of_str', z3.StringSort(), z3.IntSort())
REAL_OF_STR_OK = z3.Function('real_of_str_ok', z3.StringSort(), z3.BoolSort())
REAL_OF_STR = z3.Function('real_of_str', z3.StringSort(), z3.RealSort())
TRUNC = z3.Function('py_trunc', z3.RealSort(), z3.IntSort())


class Engine(object):
    def __init__(self, spec, root='/repo', feas_timeout_ms=int(__import__('os').environ.get('PYVC_FEAS_MS', '400'))):
        self.spec = spec
        self.src = SourceIndex(root)
        self.vcs = []
        self.notes = []
        self.fi = None
        self.contract = None
        self.feas_timeout_ms = feas_timeout_ms
        self._feas_cache = {}
        self._quant_cache = {}
        self._hint_cache = {}
        self._rank_cache = {}
        self._heap0 = {}
        self.spec_mode = 0
        self.loop_counter = 0
        self.dropped = []
        self.axioms_used = set()
        self.global_axioms = []
        self.modinfo = None
        self.paths = 0
        self.cover_points = []
        self.stdmods = {}
        self.call_depth = 0
        self.used_contracts = set()
        self.verified_quals = set()
        self.in_coroutine = False
        self.yield_hook = None       # set by the coroutine layer (rely.py)
        self.feas_checks = 0
        self.spec_pol = 0
        self._awaiting = False
        self._yield_counter = 0

    # ------------------------------------------------------------------ utilities
    def oos(self, msg, node=None):
        raise OutOfSubset(msg, node, self.fi.qual if self.fi else None)

    def add_vc(self, name, kind, st, goal, node=None, expect='unsat', note='', extra_pc=()):
        if isinstance(goal, bool):
            goal = z3.BoolVal(goal)
        pc = list(st.pc) + list(extra_pc) + self.axiom_terms()
        if expect in ('unsat', 'refutable'):
            goal, sk = self.skolemize_goal(goal)
            pc += self.hint_terms(pc, goal, sk)
        vc = VC('%s:%s' % (name, self.fi.qual.split(':')[1] if self.fi else '?'),
                kind, pc,
                goal, self.fi.qual if self.fi else None,
                getattr(node, 'lineno', None), st.trace, expect, note)
        self.vcs.append(vc)
        return vc

    def axiom_terms(self):
        return list(self.global_axioms)

    # ---- instantiation hints: universally quantified goals are skolemised here, and every
    # ground array term whose index sort matches a skolem constant is mentioned at that constant,
    # so that E-matching sees the membership / lookup terms it needs (set-comprehension
    # reasoning has no other trigger).  Hints are logically vacuous.
    def skolemize_goal(self, goal):
        sk = []
        while z3.is_quantifier(goal) and goal.is_forall():
            n = goal.num_vars()
            consts = [z3.Const(fresh_name('sk_' + goal.var_name(i)), goal.var_sort(i)) for i in range(n)]
            sk += consts
            goal = z3.substitute_vars(goal.body(), *reversed(consts))
            if z3.is_implies(goal) and z3.is_quantifier(goal.arg(1)) and goal.arg(1).is_forall():
                break
        return goal, sk

    def scan_formula(self, f):
        """ground array-sorted subterms and ground applications of spec functions in a formula
        (cached per formula: path-condition conjuncts are shared by many VCs)"""
        fid = f.get_id()
        hit = self._hint_cache.get(fid)
        if hit is not None and hit[0].eq(f):
            return hit[1]
        seen = set()
        arrays = []
        ufapps = []
        varmemo = {}

        def has_var(t):
            i = t.get_id()
            if i in varmemo:
                return varmemo[i]
            if z3.is_var(t) or z3.is_quantifier(t):
                r = True
            else:
                r = any(has_var(c) for c in t.children())
            varmemo[i] = r
            return r
        todo = [f]
        while todo:
            t = todo.pop()
            tid = t.get_id()
            if tid in seen:
                continue
            seen.add(tid)
            if z3.is_quantifier(t):
                todo.append(t.body())
                continue
            if z3.is_var(t) or not z3.is_app(t):
                continue
            if t.sort().kind() == z3.Z3_ARRAY_SORT and not has_var(t):
                arrays.append(t)
            if t.num_args() > 0 and t.decl().kind() == z3.Z3_OP_UNINTERPRETED and \
                    t.decl().name().startswith('u_') and not has_var(t):
                ufapps.append(t)
            todo.extend(t.children())
        res = (arrays, ufapps)
        self._hint_cache[fid] = (f, res)
        return res

    def hint_terms(self, pc, goal, skolems, limit=40):
        if not skolems:
            return []
        arrays = []
        ufapps = []
        ufsigs = set()
        aseen = set()
        for c in list(pc) + [goal]:
            ar, uf = self.scan_formula(c)
            for a in ar:
                if a.get_id() not in aseen:
                    aseen.add(a.get_id())
                    arrays.append(a)
            for t in uf:
                sig = (t.decl().name(), tuple(t.arg(k).get_id() for k in range(t.num_args())
                                              if t.arg(k).sort() != z3.IntSort()))
                if sig not in ufsigs:
                    ufsigs.add(sig)
                    ufapps.append(t)
        # membership arrays (range Bool) first: they drive set reasoning
        rc = self._rank_cache

        def rank(a):
            i = a.get_id()
            r = rc.get(i)
            if r is None or not r[0].eq(a):
                r = (a, (0 if a.sort().range() == z3.BoolSort() else 1,
                         1 if (z3.is_const(a) and a.decl().name().startswith('H.')) else 0))
                rc[i] = r
            return r[1]
        arrays.sort(key=rank)
        hints = []
        for skc in skolems:
            hf = z3.Function('hint!%s' % str(skc.sort()).replace(' ', '_'), skc.sort(), z3.BoolSort())
            hints.append(hf(skc))
        # neighbours: spec functions with an integer argument are also mentioned at sk-1, sk, sk+1
        # (invariants over consecutive indices such as bk(j-1) / bk(j) need these instances)
        if ufapps:
            done = set()
            for skc in skolems:
                if skc.sort() != z3.IntSort():
                    continue
                for app in ufapps[:12]:
                    d = app.decl()
                    for pos in range(app.num_args()):
                        if app.arg(pos).sort() != z3.IntSort():
                            continue
                        for delta in (-1, 0, 1):
                            args2 = [app.arg(k) for k in range(app.num_args())]
                            args2[pos] = skc + delta if delta else skc
                            t = d(*args2)
                            key = (d.name(), pos, delta, tuple(x.get_id() for x in args2 if x is not args2[pos]), skc.get_id())
                            if key in done:
                                continue
                            done.add(key)
                            rs = t.sort()
                            f = z3.Function('hint!%s' % str(rs).replace(' ', '_'), rs, z3.BoolSort())
                            hints.append(f(t))
        for skc in skolems:
            for a in arrays:
                if a.sort().domain() == skc.sort() and not z3.is_store(a):
                    sel = z3.Select(a, skc)
                    rs = sel.sort()
                    f = z3.Function('hint!%s' % str(rs).replace(' ', '_'), rs, z3.BoolSort())
                    hints.append(f(sel))
                    if len(hints) >= limit:
                        return hints
        return hints

    def has_quant(self, t):
        i = t.get_id()
        c = self._quant_cache
        if i in c and c[i][0].eq(t):
            return c[i][1]
        todo = [t]
        seen = set()
        r = False
        while todo:
            x = todo.pop()
            xi = x.get_id()
            if xi in seen:
                continue
            seen.add(xi)
            if z3.is_quantifier(x):
                r = True
                break
            todo += x.children()
        c[i] = (t, r)
        return r

    def feasible(self, st):
        """path pruning.  Only the quantifier-free part of the path condition is consulted (dropping
        hypotheses can only keep more paths alive: sound), which keeps each check in the ms range."""
        if not st.pc:
            return True
        qf = [c for c in st.pc if not self.has_quant(c)]
        # keyed by AST ids; the entry keeps the ASTs alive (z3 recycles the id of a freed AST) and is compared again
        key = tuple(c.get_id() for c in qf)
        hit = self._feas_cache.get(key)
        if hit is not None and len(hit[1]) == len(qf) and all(a.eq(b) for a, b in zip(hit[1], qf)):
            return hit[0]
        self.feas_checks += 1
        s = z3.Solver()
        s.set('timeout', self.feas_timeout_ms)
        for c in qf:
            s.add(c)
        r = s.check()
        ok = (r != z3.unsat)
        self._feas_cache[key] = (ok, list(qf))
        return ok

    def branch(self, st, cond, label=None):
        """-> (st_true or None, st_false or None) pruning infeasible sides"""
        if z3.is_true(cond):
            return st, None
        if z3.is_false(cond):
            return None, st
        cond = z3.simplify(cond)
        if z3.is_true(cond):
            return st, None
        if z3.is_false(cond):
            return None, st
        t = st.assume(cond)
        f = st.assume(z3.Not(cond))
        if label:
            t = t.tag(label + '+')
            f = f.tag(label + '-')
        if not self.feasible(t):
            t = None
        if not self.feasible(f):
            f = None
        return t, f

    # ------------------------------------------------------------------ heap
    def heap0(self, key, ty):
        if key not in self._heap0:
            arrs = []
            for i, s in enumerate(zsorts(ty)):
                arrs.append(z3.Const('H.%s.%s.%d' % (key[0], key[1], i),
                                     z3.ArraySort(z3.IntSort(), s)))
            self._heap0[key] = tuple(arrs)
            self.global_axioms += self.wf_field_facts(ty, tuple(arrs)) + self.nonnull_facts(key, tuple(arrs))
        return self._heap0[key]

    def nonnull_facts(self, key, arrs):
        """class invariant 'this reference field is never None' (spec.nonnull; justified per field by a
        constructor contract plus a frame scan of its writers)"""
        if key in getattr(self.spec, 'nonnull', ()):
            o = z3.Int(fresh_name('o'))
            return [FA([o], z3.Select(arrs[0], o) != 0, patterns=[z3.Select(arrs[0], o)])]
        return []

    def wf_field_facts(self, ty, arrs):
        """container lengths / cardinalities stored in a heap field are never negative"""
        if isinstance(ty, (TList, TDict, TSet)) and arrs:
            o = z3.Int(fresh_name('o'))
            n = z3.Select(arrs[-1], o)
            facts = [FA([o], n >= 0, patterns=[n])]
            if isinstance(ty, (TDict, TSet)):
                # an empty table has no key (size is the cardinality of the key set)
                (ks,) = zsorts(ty.k if isinstance(ty, TDict) else ty.elem)
                k = z3.Const(fresh_name('k'), ks)
                has = z3.Select(z3.Select(arrs[0], o), k)
                facts.append(FA([o, k], z3.Implies(n == 0, z3.Not(has)), patterns=[has]))
            return facts
        return []

    def wf_value_facts(self, v):
        if isinstance(v.ty, (TList, TDict, TSet)) and v.t:
            return [v.t[-1] >= 0]
        return []

    SPECIAL_HEAP = {
        ('$vobj', 'has'): TSet(STR),       # comps: mem array, size
        ('$vobj', 'get'): TDict(STR, VAL),
        ('$vlist', 'seq'): TList(VAL),
    }

    def field_info(self, cls, field, node=None):
        if cls.startswith('$'):
            if (cls, field) == ('$vobj', 'map'):
                return (cls, field), TDict(STR, VAL)
            if (cls, field) == ('$vlist', 'seq'):
                return (cls, field), TList(VAL)
            if field == '$alloc':
                return (cls, field), BOOL
        if field == '$alloc':
            return (cls, field), BOOL
        own = self.spec.field_owner(cls, field)
        if own is None:
            self.oos('unknown field %s.%s (declare it in the sidecar class table)' % (cls, field), node)
        return (own[0], field), own[1]

    def heap_arrays(self, st, cls, field, node=None):
        key, ty = self.field_info(cls, field, node)
        if key not in st.heap:
            st.heap[key] = self.heap0(key, ty)
        return st.heap[key], ty, key

    def read_field(self, st, ref, cls, field, node=None):
        arrs, ty, _ = self.heap_arrays(st, cls, field, node)
        return SV(ty, [z3.Select(a, ref) for a in arrs])

    def write_field(self, st, ref, cls, field, val, node=None):
        arrs, ty, key = self.heap_arrays(st, cls, field, node)
        if ty == VAL and self.coerce(val, VAL) is None:
            st, val = self.to_val_deep(st, val)
            arrs, ty, key = self.heap_arrays(st, cls, field, node)
        val = self.coerce_store(st, val, ty, '%s.%s' % (cls, field), node)
        st = st.copy()
        st.heap[key] = tuple(z3.Store(a, ref, c) for a, c in zip(arrs, val.t))
        st.hver += 1
        return st

    def havoc_objs(self, st, key, ty, objs):
        """havoc field `key` for the listed objects only: F' = Store(...Store(F, o1, v1)..., on, vn)
        with fresh values (quantifier-free frame)"""
        old = st.heap.get(key) or self.heap0(key, ty)
        new = [a for a in old]
        for o in objs:
            vs = [z3.Const(fresh_name('hv.%s.%s.%d' % (key[0], key[1], i)), a.sort().range())
                  for i, a in enumerate(old)]
            new = [z3.Store(cur, o, v) for cur, v in zip(new, vs)]
            if isinstance(ty, (TList, TDict, TSet)):
                st = st.assume(vs[-1] >= 0)
            if isinstance(ty, (TDict, TSet)):
                st = st.assume(*self.dict_wf(SV(ty, vs)))
            if key in getattr(self.spec, 'nonnull', ()):
                st = st.assume(vs[0] != 0)
        st = st.copy()
        st.heap[key] = tuple(new)
        st.hver += 1
        return st

    def havoc_key(self, st, key, ty, keep=None):
        """fresh arrays for heap key; keep: z3 predicate over object id o -> Bool (objects whose
        value is preserved). returns new state (mutates a copy)."""
        old = st.heap.get(key) or self.heap0(key, ty)
        new = []
        facts = []
        for i, a in enumerate(old):
            n = z3.Const(fresh_name('H.%s.%s.%d' % (key[0], key[1], i)), a.sort())
            new.append(n)
            if keep is not None:
                o = z3.Int(fresh_name('o'))
                facts.append(FA([o], z3.Implies(keep(o), z3.Select(n, o) == z3.Select(a, o)),
                                       patterns=[z3.Select(n, o)]))
        st = st.copy()
        st.heap[key] = tuple(new)
        st.hver += 1
        st.pc = st.pc + tuple(facts) + tuple(self.wf_field_facts(ty, tuple(new))) + \
            tuple(self.nonnull_facts(key, tuple(new)))
        return st

    def alloc(self, st, cls):
        """fresh object of class cls -> (st, ref term)"""
        arrs, ty, key = self.heap_arrays(st, cls, '$alloc')
        r = z3.Int(fresh_name('new_' + cls))
        st = st.assume(r != 0, z3.Not(z3.Select(arrs[0], r)))
        st.heap[key] = (z3.Store(arrs[0], r, z3.BoolVal(True)),)
        st.hver += 1
        return st, r

    def allocated_fact(self, st, cls, ref):
        arrs, ty, key = self.heap_arrays(st, cls, '$alloc')
        return z3.Or(ref == 0, z3.Select(arrs[0], ref))

    # ------------------------------------------------------------------ coercions
    def coerce(self, val, ty, node=None, what=''):
        """total, type-directed coercion (no proof obligations); None if impossible"""
        vt = val.ty
        if vt == ty:
            return val
        if ty == VAL:
            try:
                return to_val(val)
            except TypeError:
                return None
        if ty == REAL and vt == INT:
            return SV(REAL, z3.ToReal(val.z))
        if ty == REAL and vt == BOOL:
            return SV(REAL, z3.If(val.z, z3.RealVal(1), z3.RealVal(0)))
        if ty == INT and vt == BOOL:
            return SV(INT, z3.If(val.z, z3.IntVal(1), z3.IntVal(0)))
        if isinstance(ty, TRef) and vt == NONE:
            return SV(ty, z3.IntVal(0))
        if isinstance(ty, TRef) and isinstance(vt, TRef):
            if ty.cls in self.spec.mro(vt.cls) or vt.cls in self.spec.mro(ty.cls):
                return SV(ty, val.z)
            return None
        if ty == STR and vt == BYTES or ty == BYTES and vt == STR:
            return None
        if isinstance(ty, TList) and isinstance(vt, TList):
            if vt.elem == NONE:   # empty literal
                return self.L_empty(ty.elem)
        if isinstance(ty, TList) and isinstance(vt, TTuple) and val.py is not None:
            es = [self.coerce(x, ty.elem) for x in val.py]
            if all(e is not None for e in es):
                return self.mk_list(ty.elem, es)
        if isinstance(ty, TTuple) and isinstance(vt, TTuple) and val.py is not None and \
                len(ty.elems) == len(vt.elems):
            items = [self.coerce(x, t) for x, t in zip(val.py, ty.elems)]
            if all(i is not None for i in items):
                return self.mk_tuple(items)
        if isinstance(ty, TDict) and isinstance(vt, TDict) and vt.k == NONE:
            return self.empty_dict(ty)
        if isinstance(ty, TDict) and isinstance(vt, TDict) and vt.k == ty.k and ty.v == VAL and \
                len(zsorts(vt.v)) == 1:
            (ks,) = zsorts(ty.k)
            k = z3.Const(fresh_name('k'), ks)
            inj = self.coerce(SV(vt.v, z3.Select(val.t[1], k)), VAL)
            if inj is not None:
                return SV(ty, [val.t[0], z3.Lambda([k], inj.z), val.t[-1]])
        if isinstance(ty, TList) and isinstance(vt, TList) and ty.elem == VAL and val.t:
            i = z3.Int(fresh_name('i'))
            inj = self.coerce(SV(vt.elem, z3.Select(val.t[0], i)), VAL)
            if inj is not None:
                return SV(ty, [z3.Lambda([i], inj.z), val.t[1]])
        if isinstance(ty, TSet) and isinstance(vt, TSet) and vt.elem == NONE:
            return self.empty_set(ty)
        return None

    def coerce_store(self, st, val, ty, what, node=None):
        c = self.coerce(val, ty, node)
        if c is not None:
            return c
        if isinstance(ty, TList) and isinstance(val.ty, (TDict, TList)) and not val.t:
            # an EMPTY container literal ([] or {}) stored into a slot modelled as a sequence: for iteration, len() and
            # truthiness -- the only uses of such a slot -- an empty dict and an empty list are indistinguishable
            return self.L_empty(ty.elem)
        if val.ty == VAL:
            # dynamically typed value stored into a typed slot: the declared sort is an
            # obligation (A-TYPES is checked at every store inside functions under contract)
            v = val.z
            if ty == INT:
                self.add_vc('type[%s]' % what, 'type', st, Val.is_VInt(v), node)
                return SV(INT, Val.vi(v))
            if ty == REAL:
                self.add_vc('type[%s]' % what, 'type', st, z3.Or(Val.is_VReal(v), Val.is_VInt(v)), node)
                return SV(REAL, z3.If(Val.is_VInt(v), z3.ToReal(Val.vi(v)), Val.vr(v)))
            if ty == STR:
                self.add_vc('type[%s]' % what, 'type', st, Val.is_VStr(v), node)
                return SV(STR, Val.vs(v))
            if ty == BOOL:
                self.add_vc('type[%s]' % what, 'type', st, Val.is_VBool(v), node)
                return SV(BOOL, Val.vb(v))
            if isinstance(ty, TRef):
                self.add_vc('type[%s]' % what, 'type', st, z3.Or(Val.is_VRef(v), Val.is_VNone(v)), node)
                return SV(ty, z3.If(Val.is_VNone(v), z3.IntVal(0), Val.vx(v)))
        self.oos('cannot store %r into %s of sort %r' % (val.ty, what, ty), node)

    # ------------------------------------------------------------------ containers
    # ---- lists: (array Int->T, length).  Only indices 0..len-1 are meaningful.
    def L_len(self, l):
        if not l.t:
            return z3.IntVal(0)
        return l.t[1]

    def L_at(self, l, i):
        return SV(l.ty.elem, z3.Select(l.t[0], i))

    def L_mk(self, elem_ty, arr, n):
        return SV(TList(elem_ty), [arr, n])

    def L_empty(self, elem_ty):
        (s,) = zsorts(elem_ty)
        return SV(TList(elem_ty), [z3.Const('dflt_list.%s' % str(s), z3.ArraySort(z3.IntSort(), s)),
                                   z3.IntVal(0)])

    def mk_list(self, elem_ty, items):
        l = self.L_empty(elem_ty)
        arr = l.t[0]
        for i, it in enumerate(items):
            arr = z3.Store(arr, z3.IntVal(i), self.coerce(it, elem_ty).z)
        return SV(TList(elem_ty), [arr, z3.IntVal(len(items))])

    def L_append(self, l, x):
        return SV(l.ty, [z3.Store(l.t[0], l.t[1], x), l.t[1] + 1])

    def L_contains(self, l, x):
        if not l.t:
            return z3.BoolVal(False)
        i = z3.Int(fresh_name('ci'))
        return z3.Exists([i], z3.And(0 <= i, i < l.t[1], z3.Select(l.t[0], i) == x))

    def L_concat(self, st, a, b):
        if not a.t:
            return st, b
        if not b.t:
            return st, a
        # literal right operand: stores
        if z3.is_int_value(z3.simplify(b.t[1])) and z3.simplify(b.t[1]).as_long() <= 6:
            n = z3.simplify(b.t[1]).as_long()
            l = a
            for k in range(n):
                l = self.L_append(l, z3.Select(b.t[0], z3.IntVal(k)))
            return st, l
        c = z3.Const(fresh_name('cat'), a.t[0].sort())
        i = z3.Int(fresh_name('i'))
        facts = [FA([i], z3.Implies(z3.And(0 <= i, i < a.t[1]), z3.Select(c, i) == z3.Select(a.t[0], i)),
                           patterns=[z3.Select(c, i)]),
                 FA([i], z3.Implies(z3.And(a.t[1] <= i, i < a.t[1] + b.t[1]),
                                           z3.Select(c, i) == z3.Select(b.t[0], i - a.t[1])),
                           patterns=[z3.Select(c, i)])]
        return st.assume(*facts), SV(a.ty, [c, a.t[1] + b.t[1]])

    def L_slice(self, st, l, lo, hi):
        """l[lo:hi] with 0 <= lo, hi already normalised/clipped to [0, len]"""
        n = z3.If(hi > lo, hi - lo, 0)
        if z3.is_int_value(z3.simplify(lo)) and z3.simplify(lo).as_long() == 0:
            return st, SV(l.ty, [l.t[0], n])
        c = z3.Const(fresh_name('slice'), l.t[0].sort())
        i = z3.Int(fresh_name('i'))
        facts = [FA([i], z3.Implies(z3.And(0 <= i, i < n), z3.Select(c, i) == z3.Select(l.t[0], lo + i)),
                           patterns=[z3.Select(c, i)])]
        return st.assume(*facts), SV(l.ty, [c, n])

    def L_eq(self, a, b):
        if not a.t or not b.t:
            return self.L_len(a) == self.L_len(b)
        i = z3.Int(fresh_name('i'))
        return z3.And(a.t[1] == b.t[1], z3.ForAll([i], z3.Implies(
            z3.And(0 <= i, i < a.t[1]), z3.Select(a.t[0], i) == z3.Select(b.t[0], i))))

    def L_index(self, st, l, x):
        """first index of x in l, assuming it occurs -> (st, idx)"""
        idx = z3.Int(fresh_name('idx'))
        j = z3.Int(fresh_name('j'))
        facts = [0 <= idx, idx < l.t[1], z3.Select(l.t[0], idx) == x,
                 FA([j], z3.Implies(z3.And(0 <= j, j < idx), z3.Select(l.t[0], j) != x),
                           patterns=[z3.Select(l.t[0], j)])]
        return st.assume(*facts), idx

    def empty_dict(self, ty):
        ss = zsorts(ty)
        (k,) = zsorts(ty.k)
        comps = [z3.K(k, z3.BoolVal(False))]
        for i, vs in enumerate(zsorts(ty.v)):
            comps.append(z3.Const('dflt.%s.%d' % (str(vs), i), ss[1 + i]))
        comps.append(z3.IntVal(0))
        return SV(ty, comps)

    def empty_set(self, ty):
        (k,) = zsorts(ty.elem)
        return SV(ty, [z3.K(k, z3.BoolVal(False)), z3.IntVal(0)])

    def dict_has(self, d, k):
        return z3.Select(d.t[0], k)

    def dict_get(self, d, k):
        vt = d.ty.v
        return SV(vt, [z3.Select(a, k) for a in d.t[1:-1]])

    def dict_size(self, d):
        return d.t[-1]

    def dict_set(self, d, k, v):
        v = self.coerce(v, d.ty.v)
        if v is None:
            self.oos('dict value sort mismatch for %r' % (d.ty,))
        has = z3.Select(d.t[0], k)
        comps = [z3.Store(d.t[0], k, z3.BoolVal(True))]
        comps += [z3.Store(a, k, c) for a, c in zip(d.t[1:-1], v.t)]
        comps.append(z3.If(has, d.t[-1], d.t[-1] + 1))
        return SV(d.ty, comps)

    def dict_del(self, d, k):
        has = z3.Select(d.t[0], k)
        comps = [z3.Store(d.t[0], k, z3.BoolVal(False))] + list(d.t[1:-1])
        comps.append(z3.If(has, d.t[-1] - 1, d.t[-1]))
        return SV(d.ty, comps)

    def dict_wf(self, d):
        """well-formedness facts of a dict/set value (size is the cardinality of the key set)"""
        (ks,) = zsorts(d.ty.k if isinstance(d.ty, TDict) else d.ty.elem)
        k = z3.Const(fresh_name('k'), ks)
        n = d.t[-1]
        return [n >= 0, (n == 0) == FA([k], z3.Not(z3.Select(d.t[0], k)),
                                              patterns=[z3.Select(d.t[0], k)])]

    def set_add(self, s, x):
        has = z3.Select(s.t[0], x)
        return SV(s.ty, [z3.Store(s.t[0], x, z3.BoolVal(True)), z3.If(has, s.t[1], s.t[1] + 1)])

    def set_del(self, s, x):
        has = z3.Select(s.t[0], x)
        return SV(s.ty, [z3.Store(s.t[0], x, z3.BoolVal(False)), z3.If(has, s.t[1] - 1, s.t[1])])

    def keys_seq(self, st, d, base='ks'):
        """snapshot list of the keys of a dict/set (iteration order is left abstract: any order,
        A-DICTORDER) -> (st, list SV).  pos!k(key) is the (skolem) position of a key."""
        kt = d.ty.k if isinstance(d.ty, TDict) else d.ty.elem
        (ks,) = zsorts(kt)
        arr = z3.Const(fresh_name(base), z3.ArraySort(z3.IntSort(), ks))
        pos = z3.Function(fresh_name('pos'), ks, z3.IntSort())
        i = z3.Int(fresh_name('i'))
        k = z3.Const(fresh_name('k'), ks)
        n = d.t[-1]
        facts = [
            n >= 0,
            FA([i], z3.Implies(z3.And(0 <= i, i < n), z3.And(
                z3.Select(d.t[0], z3.Select(arr, i)), pos(z3.Select(arr, i)) == i)),
                patterns=[z3.Select(arr, i)]),
            FA([k], z3.Implies(z3.Select(d.t[0], k), z3.And(
                0 <= pos(k), pos(k) < n, z3.Select(arr, pos(k)) == k)),
                patterns=[z3.Select(d.t[0], k), pos(k)]),
        ]
        return st.assume(*facts), SV(TList(kt), [arr, n])

    # ---- Val containers (JSON objects / lists live in the '$vobj' / '$vlist' heaps)
    def vobj(self, st, oid):
        return self.read_field(st, oid, '$vobj', 'map')

    def vobj_write(self, st, oid, d):
        return self.write_field(st, oid, '$vobj', 'map', d)

    def vlist(self, st, lid):
        return self.read_field(st, lid, '$vlist', 'seq')

    # ------------------------------------------------------------------ truthiness / equality
    def truthy(self, st, v):
        ty = v.ty
        if ty == BOOL:
            return v.z
        if ty == INT:
            return v.z != 0
        if ty == REAL:
            return v.z != 0
        if ty in (STR, BYTES):
            return z3.Length(v.z) > 0
        if ty == PATH:
            return v.z != z3.Const('u_path_empty', zsorts(PATH)[0])      # the empty string as a path
        if ty == NONE:
            return z3.BoolVal(False)
        if isinstance(ty, TRef):
            return v.z != 0
        if isinstance(ty, TList):
            return self.L_len(v) > 0
        if isinstance(ty, (TDict, TSet)):
            if not v.t:
                return z3.BoolVal(False)
            return v.t[-1] > 0
        if isinstance(ty, TTuple):
            return z3.BoolVal(len(ty.elems) > 0)
        if ty == PY:
            if isinstance(v.py, tuple) and v.py and v.py[0] == 'const':
                return z3.BoolVal(bool(v.py[1]))
            return z3.BoolVal(True)
        if ty == VAL:
            z = v.z
            return z3.If(Val.is_VNone(z), False,
                   z3.If(Val.is_VBool(z), Val.vb(z),
                   z3.If(Val.is_VInt(z), Val.vi(z) != 0,
                   z3.If(Val.is_VReal(z), Val.vr(z) != 0,
                   z3.If(Val.is_VStr(z), z3.Length(Val.vs(z)) > 0,
                   z3.If(Val.is_VBytes(z), z3.Length(Val.vy(z)) > 0,
                   z3.If(Val.is_VList(z), self.vlist(st, Val.vl(z)).t[1] > 0,
                   z3.If(Val.is_VObj(z), self.vobj(st, Val.vo(z)).t[-1] > 0,
                         True))))))))
        self.oos('truthiness of %r' % (ty,))

    def is_none(self, v):
        ty = v.ty
        if ty == NONE:
            return z3.BoolVal(True)
        if isinstance(ty, TRef):
            return v.z == 0
        if ty == VAL:
            return Val.is_VNone(v.z)
        return z3.BoolVal(False)

    def num_of_val(self, z):
        """(is_numeric, as real) of a Val term, bool counts as int"""
        isnum = z3.Or(Val.is_VInt(z), Val.is_VReal(z), Val.is_VBool(z))
        asr = z3.If(Val.is_VInt(z), z3.ToReal(Val.vi(z)),
                    z3.If(Val.is_VReal(z), Val.vr(z),
                          z3.If(Val.vb(z), z3.RealVal(1), z3.RealVal(0))))
        return isnum, asr

    def eq(self, st, a, b):
        """python == as a z3 Bool"""
        ta, tb = a.ty, b.ty
        if ta == NONE or tb == NONE:
            return self.is_none(a if tb == NONE else b) if not (ta == NONE and tb == NONE) else z3.BoolVal(True)
        if ta == VAL or tb == VAL:
            if ta == VAL and tb == VAL:
                na, ra = self.num_of_val(a.z)
                nb, rb = self.num_of_val(b.z)
                return z3.If(z3.And(na, nb), ra == rb, a.z == b.z)
            v, o = (a, b) if ta == VAL else (b, a)
            if o.ty in (INT, REAL, BOOL):
                isnum, asr = self.num_of_val(v.z)
                return z3.And(isnum, asr == self.coerce(o, REAL).z)
            if isinstance(o.ty, TTuple) or o.ty == PY:
                return z3.BoolVal(False)
            inj = self.coerce(o, VAL)
            if inj is None:
                self.oos('== between Val and %r' % (o.ty,))
            return v.z == inj.z
        num = (INT, REAL, BOOL)
        if ta in num and tb in num:
            if ta == tb:
                return a.z == b.z
            if REAL in (ta, tb):
                return self.coerce(a, REAL).z == self.coerce(b, REAL).z
            return self.coerce(a, INT).z == self.coerce(b, INT).z
        if ta == tb and a.t and len(a.t) == len(b.t) and all(x.eq(y) for x, y in zip(a.t, b.t)):
            return z3.BoolVal(True)
        if ta == tb:
            if isinstance(ta, TDict):
                (ks,) = zsorts(ta.k)
                k = z3.Const(fresh_name('k'), ks)
                same = [z3.Select(a.t[0], k) == z3.Select(b.t[0], k)]
                vals = z3.And(*[z3.Select(x, k) == z3.Select(y, k)
                                for x, y in zip(a.t[1:-1], b.t[1:-1])])
                return z3.ForAll([k], z3.And(same[0], z3.Implies(z3.Select(a.t[0], k), vals)))
            if isinstance(ta, TSet):
                return a.t[0] == b.t[0]
            if isinstance(ta, TList):
                return self.L_eq(a, b)
            if isinstance(ta, TTuple) and a.py is not None and b.py is not None:
                return zand([self.eq(st, x, y) for x, y in zip(a.py, b.py)])
            if ta == PY:
                return z3.BoolVal(a.py == b.py)
            return zand([x == y for x, y in zip(a.t, b.t)])
        if isinstance(ta, TRef) and isinstance(tb, TRef):
            return a.z == b.z
        if isinstance(ta, TTuple) and isinstance(tb, TTuple):
            if len(ta.elems) != len(tb.elems):
                return z3.BoolVal(False)
            return zand([self.eq(st, x, y) for x, y in zip(a.py, b.py)])
        # different static types: python == is False (no user __eq__ in the modelled classes
        # other than Process.__eq__ = identity)
        return z3.BoolVal(False)

    # ------------------------------------------------------------------ names / modules
    def stdmod(self, name):
        if name not in self.stdmods:
            try:
                self.stdmods[name] = importlib.import_module(name)
            except Exception:
                self.stdmods[name] = None
        return self.stdmods[name]

    def const_sv(self, v, node=None):
        if isinstance(v, bool):
            return mk_bool(v)
        if isinstance(v, int):
            return mk_int(int(v))
        if isinstance(v, float):
            return mk_real(v)
        if isinstance(v, str):
            return mk_str(v)
        if isinstance(v, bytes):
            return SV(BYTES, z3.StringVal(v.decode('latin-1')))
        if v is None:
            return mk_none()
        if isinstance(v, (tuple, list)):
            items = [self.const_sv(x, node) for x in v]
            return SV(TTuple([i.ty for i in items]), [c for i in items for c in i.t], py=items)
        self.oos('constant of type %s' % type(v).__name__, node)

    def mk_tuple(self, items):
        return SV(TTuple([i.ty for i in items]), [c for i in items for c in i.t], py=list(items))

    def lookup_name(self, name, st, node=None, mi=None):
        if name in st.env:
            return st.env[name]
        mi = mi or self.modinfo
        if mi is not None:
            if name in mi.consts:
                return self.const_sv(mi.consts[name], node)
            if name in mi.defs:
                d = mi.defs[name]
                kind = 'class' if isinstance(d, ast.ClassDef) else 'func'
                if kind == 'class' and (name in self.spec.exc_parent):
                    return mk_py(('excclass', name))
                return mk_py((kind, '%s:%s' % (mi.name, name)))
            if name in mi.imports:
                imp = mi.imports[name]
                if imp[0] == 'module':
                    return mk_py(('module', imp[1]))
                return self.resolve_import(imp[1], imp[2], node)
            if name in mi.assigns:
                return mk_py(('modvar', '%s:%s' % (mi.name, name)))
        if name in ('True', 'False', 'None'):
            return self.const_sv({'True': True, 'False': False, 'None': None}[name])
        if name in BUILTIN_EXC or name in EXC_ALIASES or name in self.spec.exc_parent:
            return mk_py(('excclass', EXC_ALIASES.get(name, name)))
        if name in BUILTINS:
            return mk_py(('builtin', name))
        self.oos('unresolved name %r' % name, node)

    def resolve_import(self, module, attr, node=None):
        """from module import attr"""
        sub = self.src.module(module + '.' + attr) if module else None
        if sub is not None:
            return mk_py(('module', module + '.' + attr))
        mi = self.src.module(module)
        if mi is not None:
            if attr in mi.defs:
                d = mi.defs[attr]
                if isinstance(d, ast.ClassDef):
                    if attr in self.spec.exc_parent:
                        return mk_py(('excclass', attr))
                    return mk_py(('class', '%s:%s' % (module, attr)))
                return mk_py(('func', '%s:%s' % (module, attr)))
            if ('%s:%s' % (module, attr)) in self.spec.consts:
                return self.const_sv(self.spec.consts['%s:%s' % (module, attr)], node)
            if attr in mi.consts:
                return self.const_sv(mi.consts[attr], node)
            if attr in mi.imports:
                imp = mi.imports[attr]
                if imp[0] == 'module':
                    return mk_py(('module', imp[1]))
                return self.resolve_import(imp[1], imp[2], node)
            if attr in mi.assigns:
                return mk_py(('modvar', '%s:%s' % (module, attr)))
            self.oos('cannot resolve %s.%s' % (module, attr), node)
        # external module
        if attr in self.spec.exc_parent or attr in EXC_ALIASES:
            return mk_py(('excclass', EXC_ALIASES.get(attr, attr)))
        return self.module_attr(module, attr, node)

    def module_attr(self, module, attr, node=None):
        q = '%s:%s' % (module, attr)
        if q in self.spec.contracts:
            return mk_py(('func', q))
        if q in self.spec.handlers or q == 'functools:partial':
            return mk_py(('extern', q))
        if q in self.spec.consts:
            return self.const_sv(self.spec.consts[q], node)
        if module.split('.')[0] in STDLIB_CONST_MODULES:
            m = self.stdmod(module)
            if m is not None and hasattr(m, attr):
                v = getattr(m, attr)
                if isinstance(v, (int, str, float)) and not isinstance(v, bool):
                    self.spec.consts.setdefault(q, int(v) if isinstance(v, int) else v)
                    return self.const_sv(int(v) if isinstance(v, int) else v, node)
        if attr in self.spec.exc_parent:
            return mk_py(('excclass', attr))
        sub = '%s.%s' % (module, attr)
        if any(k.startswith(sub + ':') or k.startswith(sub + '.')
               for k in list(self.spec.contracts) + list(self.spec.handlers)):
            return mk_py(('module', sub))
        if self.src.module(sub) is not None:
            return mk_py(('module', sub))
        return mk_py(('extern', q))


BUILTIN_EXC = set(['Exception', 'ValueError', 'TypeError', 'KeyError', 'IndexError', 'RuntimeError',
                   'OSError', 'AttributeError', 'NotImplementedError', 'ImportError',
                   'DeprecationWarning', 'StopIteration', 'OverflowError', 'AssertionError',
                   'BaseException', 'LookupError', 'ZeroDivisionError'])
BUILTINS = set(['len', 'int', 'float', 'str', 'bool', 'isinstance', 'hasattr', 'getattr', 'setattr',
                'sorted', 'set', 'list', 'dict', 'tuple', 'range', 'enumerate', 'min', 'max', 'sum',
                'repr', 'callable', 'abs', 'zip', 'open', 'super', 'type', 'any', 'all', 'iter',
                'next', 'print', 'bytes', 'round', 'id', 'map', 'filter', 'reversed'])
