"""Spec-expression evaluation (old, quantifiers, Val accessors ...) and calls by contract."""
import ast
import z3

from .tys import *   # noqa
from .state import State, Exc, Res
from .engine import FA, zand, zor, STR_LOWER, STR_UPPER, INT_OF_STR_OK, INT_OF_STR
from .expr import ufun, S

TYPE_NAMES = {'REPEV': REPEV, 'PATH': PATH, 'INT': INT, 'BOOL': BOOL, 'REAL': REAL, 'STR': STR, 'VAL': VAL, 'BYTES': BYTES,
              'SIGEV': SIGEV, 'PUBEV': PUBEV}


class SpecMixin(object):
    SPEC_FORMS = set([
        'old', 'forall', 'exists', 'implies', 'ite', 'is_int', 'is_str', 'is_none', 'is_bool',
        'is_real', 'is_obj', 'is_list', 'is_ref', 'is_num', 'as_int', 'as_str', 'as_bool', 'as_real',
        'as_ref', 'obj_has', 'obj_get', 'obj_size', 'vlist_of', 'lower', 'upper', 'strip', 'unchanged',
        'same_field', 'same_heap', 'sub', 'unit', 'empty', 'store', 'remove', 'keys', 'ufn',
        'allocated', 'fresh_obj', 'int_ok', 'int_of', 'sigev', 'sig_pid', 'sig_num', 'sig_t',
        'pubev', 'ev_w', 'ev_topic', 'ev_pid', 'ev_code', 'at', 'truthy', 'val', 'vnone',
        'prefix_of', 'suffix_of', 'contains', 'index_of', 'str_to_int', 'iff', 'distinct_keys',
        'null', 'isnull', 'in_re', 'last', 'card', 'real', 'tag_eq', 'obj_of', 'same_ghost',
        'str_of_int', 'length', 'ref_id', 'distinct', 'sig_mode', 'path_idx', 'slen', 'path_inv',
        'is_bytes', 'as_bytes', 'init', 'repev', 'rp_cid', 'rp_mid', 'rp_status', 'as_ref', 'same',
    ])

    # ------------------------------------------------------------------ entry points
    def parse_spec(self, text):
        key = ('spec', text)
        if key not in self._feas_cache:
            try:
                self._feas_cache[key] = ast.parse(text.strip(), mode='eval').body
            except SyntaxError as e:
                raise OutOfSubset('syntax error in spec %r: %s' % (text, e))
        return self._feas_cache[key]

    def sp(self, text, st, pol=0):
        """evaluate a spec expression to an SV (total).  pol: +1 the formula is a goal to prove,
        -1 it is assumed, 0 unknown/mixed.  Polarity only selects between logically equivalent
        encodings of contains()/distinct() (skolem-function form when assumed, quantifier form
        when proved)."""
        tree = self.parse_spec(text) if isinstance(text, str) else text
        self.spec_mode += 1
        saved = self.spec_pol
        self.spec_pol = pol
        try:
            return self.ev1(tree, st)
        finally:
            self.spec_mode -= 1
            self.spec_pol = saved

    def spb(self, text, st, pol=0):
        v = self.sp(text, st, pol)
        return self.truthy(st, v)

    # ------------------------------------------------------------------ ghosts
    def ghost_get(self, st, name):
        if name not in st.ghost:
            st.ghost[name] = named(self.spec.ghosts[name], 'G.' + name)
            for f in self.wf_value_facts(st.ghost[name]):
                if not any(f.eq(x) for x in self.global_axioms):
                    self.global_axioms.append(f)
        return st.ghost[name]

    def ghost_set(self, st, name, val):
        st = st.copy()
        ty = self.spec.ghosts[name]
        c = self.coerce(val, ty)
        if c is None:
            self.oos('ghost %s of sort %r assigned %r' % (name, ty, val.ty))
        st.ghost[name] = c
        st.hver += 1
        return st

    # ------------------------------------------------------------------ spec forms
    def _args(self, e, st):
        return [self.ev1(a, st) for a in e.args]

    def spec_old(self, e, st):
        if st.old is None:
            self.oos('old() without an entry state', e)
        o = st.old.copy()
        o.env = dict(st.env)
        o.pc = st.pc
        o.old = o          # old(old(e)) = old(e)
        return self.ev1(e.args[0], o)

    def spec_init(self, e, st):
        """init(x): the entry value of parameter x (loop invariants see the current value under x)"""
        n = e.args[0]
        if not isinstance(n, ast.Name) or st.old is None or n.id not in st.old.env:
            self.oos('init() needs a parameter name', e)
        return st.old.env[n.id]

    def spec_at(self, e, st):
        lab = e.args[0].value
        if lab not in st.labels:
            self.oos('unknown label %r' % lab, e)
        o = st.labels[lab].copy()
        env = dict(o.env)
        env.update(dict((k, v) for k, v in st.env.items() if k not in env))
        o.env = env
        o.pc = st.pc
        return self.ev1(e.args[1], o)

    def _quant(self, e, st, q):
        *tys, lam = e.args
        if not isinstance(lam, ast.Lambda):
            self.oos('quantifier needs a lambda', e)
        names = [a.arg for a in lam.args.args]
        sorts = []
        for t in tys:
            sorts.append(self.spec_type(t))
        while len(sorts) < len(names):
            sorts.append(INT)
        st2 = st.copy()
        bound = []
        for n, ty in zip(names, sorts):
            if n in st.env and n not in ('i', 'j', 'k'):
                self.oos('bound variable %r of a quantifier shadows a name in scope' % n, e)
            v = fresh(ty, 'q_' + n)
            bound.append(v.z)
            st2.env[n] = v
        body = self.truthy(st2, self.ev1(lam.body, st2))
        res = q(bound, body)
        if q is z3.ForAll and len(bound) == 1 and self.spec_pol < 0:
            # assumed universal: also instantiate it at every skolem constant of the goal (add_vc
            # mentions each skolem under hint!<sort>), in case its body offers no usable trigger
            b0 = bound[0]
            hf = z3.Function('hint!%s' % str(b0.sort()).replace(' ', '_'), b0.sort(), z3.BoolSort())
            try:
                res = z3.And(res, z3.ForAll(bound, body, patterns=[hf(b0)]))
            except z3.Z3Exception:
                pass
        return SV(BOOL, res)

    def spec_type(self, t):
        if isinstance(t, ast.Name) and t.id in TYPE_NAMES:
            return TYPE_NAMES[t.id]
        if isinstance(t, ast.Call) and isinstance(t.func, ast.Name) and t.func.id == 'Ref':
            return TRef(t.args[0].value if isinstance(t.args[0], ast.Constant) else t.args[0].id)
        self.oos('spec type expression', t)

    def spec_forall(self, e, st):
        return self._quant(e, st, z3.ForAll)

    def spec_exists(self, e, st):
        return self._quant(e, st, z3.Exists)

    def spec_implies(self, e, st):
        saved = self.spec_pol
        self.spec_pol = -saved
        try:
            a = self.ev1(e.args[0], st)
        finally:
            self.spec_pol = saved
        b = self.ev1(e.args[1], st)
        return SV(BOOL, z3.Implies(self.truthy(st, a), self.truthy(st, b)))

    def spec_iff(self, e, st):
        saved = self.spec_pol
        self.spec_pol = 0
        try:
            a, b = self._args(e, st)
        finally:
            self.spec_pol = saved
        return SV(BOOL, self.truthy(st, a) == self.truthy(st, b))

    def spec_ite(self, e, st):
        saved = self.spec_pol
        self.spec_pol = 0
        try:
            c = self.ev1(e.args[0], st)
        finally:
            self.spec_pol = saved
        a = self.ev1(e.args[1], st)
        b = self.ev1(e.args[2], st)
        return self.ite(self.truthy(st, c), a, b, e)

    def spec_truthy(self, e, st):
        (a,) = self._args(e, st)
        return SV(BOOL, self.truthy(st, a))

    def _tag(self, e, st, f):
        (a,) = self._args(e, st)
        if a.ty != VAL:
            c = self.coerce(a, VAL)
            if c is None:
                return mk_bool(False)
            a = c
        return SV(BOOL, f(a.z))

    def spec_is_int(self, e, st):
        return self._tag(e, st, Val.is_VInt)

    def spec_is_str(self, e, st):
        return self._tag(e, st, Val.is_VStr)

    def spec_is_none(self, e, st):
        (a,) = self._args(e, st)
        return SV(BOOL, self.is_none(a))

    def spec_is_bytes(self, e, st):
        return self._tag(e, st, Val.is_VBytes)

    def spec_as_bytes(self, e, st):
        (a,) = self._args(e, st)
        return SV(BYTES, Val.vy(a.z)) if a.ty == VAL else a

    def spec_is_bool(self, e, st):
        return self._tag(e, st, Val.is_VBool)

    def spec_is_real(self, e, st):
        return self._tag(e, st, Val.is_VReal)

    def spec_is_num(self, e, st):
        return self._tag(e, st, lambda z: z3.Or(Val.is_VInt(z), Val.is_VReal(z)))

    def spec_is_obj(self, e, st):
        return self._tag(e, st, Val.is_VObj)

    def spec_is_list(self, e, st):
        return self._tag(e, st, Val.is_VList)

    def spec_is_ref(self, e, st):
        return self._tag(e, st, Val.is_VRef)

    def _total(self, v, ty, what):
        # accessor applied outside its domain: an unspecified value (specs guard with is_xxx)
        return v if v is not None else fresh(ty, 'undef_' + what)

    def spec_as_int(self, e, st):
        (a,) = self._args(e, st)
        return SV(INT, Val.vi(a.z)) if a.ty == VAL else self._total(self.coerce(a, INT), INT, 'int')

    def spec_as_str(self, e, st):
        (a,) = self._args(e, st)
        return SV(STR, Val.vs(a.z)) if a.ty == VAL else self._total(self.coerce(a, STR), STR, 'str')

    def spec_as_bool(self, e, st):
        (a,) = self._args(e, st)
        return SV(BOOL, Val.vb(a.z)) if a.ty == VAL else a

    def spec_as_real(self, e, st):
        (a,) = self._args(e, st)
        if a.ty == VAL:
            return SV(REAL, z3.If(Val.is_VInt(a.z), z3.ToReal(Val.vi(a.z)), Val.vr(a.z)))
        return self._total(self.coerce(a, REAL), REAL, 'real')

    def spec_real(self, e, st):
        (a,) = self._args(e, st)
        return self.coerce(a, REAL)

    def spec_same(self, e, st):
        """same(a, b): identical values (structural equality of the encodings), as opposed to python's ==
        which identifies 1, 1.0 and True"""
        a, b = self._args(e, st)
        if a.ty != b.ty or len(a.t) != len(b.t):
            self.oos('same() of different sorts %r / %r' % (a.ty, b.ty), e)
        return SV(BOOL, zand([x == y for x, y in zip(a.t, b.t)]))

    def spec_as_ref(self, e, st):
        a = self.ev1(e.args[0], st)
        cls = e.args[1].value
        return SV(TRef(cls), z3.If(Val.is_VRef(a.z), Val.vx(a.z), 0))

    def spec_ref_id(self, e, st):
        (a,) = self._args(e, st)
        return SV(INT, Val.vx(a.z)) if a.ty == VAL else SV(INT, a.z)

    def spec_as_ref(self, e, st):
        """as_ref('Cls', n): the object whose identity (ref_id) is the integer n"""
        cls = e.args[0].value
        n = self.ev1(e.args[1], st)
        return SV(TRef(cls), n.z)

    def spec_path_idx(self, e, st):
        a, i = self._args(e, st)
        return SV(PATH, self.path_idx(a.z, i.z))

    def spec_path_inv(self, e, st):
        (a,) = self._args(e, st)
        self.path_idx(a.z, z3.IntVal(0))
        return SV(INT, ufun('u_path_idx_inv', PStr, z3.IntSort())(a.z))

    def spec_slen(self, e, st):
        (a,) = self._args(e, st)
        return SV(INT, z3.Length(a.z))

    def spec_val(self, e, st):
        (a,) = self._args(e, st)
        c = self.coerce(a, VAL)
        if c is None:
            self.oos('val() of %r' % (a.ty,), e)
        return c

    def spec_vnone(self, e, st):
        return SV(VAL, Val.VNone)

    def spec_null(self, e, st):
        return SV(TRef(e.args[0].value), z3.IntVal(0))

    def spec_isnull(self, e, st):
        (a,) = self._args(e, st)
        return SV(BOOL, self.is_none(a))

    def spec_obj_has(self, e, st):
        o, k = self._args(e, st)
        d = self.vobj(st, Val.vo(o.z))
        return SV(BOOL, z3.And(Val.is_VObj(o.z), self.dict_has(d, k.z)))

    def spec_obj_get(self, e, st):
        o, k = self._args(e, st)
        d = self.vobj(st, Val.vo(o.z))
        return self.dict_get(d, k.z)

    def spec_obj_of(self, e, st):
        (o,) = self._args(e, st)
        return self.vobj(st, Val.vo(o.z))

    def spec_obj_size(self, e, st):
        (o,) = self._args(e, st)
        return SV(INT, self.vobj(st, Val.vo(o.z)).t[-1])

    def spec_vlist_of(self, e, st):
        (o,) = self._args(e, st)
        return self.vlist(st, Val.vl(o.z))

    def spec_lower(self, e, st):
        (a,) = self._args(e, st)
        return SV(STR, self.str_lower(a.z))

    def spec_upper(self, e, st):
        (a,) = self._args(e, st)
        return SV(STR, self.str_upper(a.z))

    def spec_strip(self, e, st):
        (a,) = self._args(e, st)
        return SV(STR, self.str_strip(a.z))

    def spec_unchanged(self, e, st):
        cs = []
        for a in e.args:
            now = self.ev1(a, st)
            before = self.spec_old(ast.Call(func=None, args=[a], keywords=[]), st)
            cs.append(self.eq(st, now, before))
        return SV(BOOL, zand(cs))

    def heap_key_of(self, text, node=None):
        cls, field = text.split('.')
        key, ty = self.field_info(cls, field, node)
        return key, ty

    def spec_same_field(self, e, st):
        cs = []
        for a in e.args:
            key, ty = self.heap_key_of(a.value, e)
            now = st.heap.get(key) or self.heap0(key, ty)
            was = st.old.heap.get(key) or self.heap0(key, ty)
            cs += [x == y for x, y in zip(now, was)]
        return SV(BOOL, zand(cs))

    def spec_same_ghost(self, e, st):
        cs = []
        for a in e.args:
            now = self.ghost_get(st, a.value)
            was = self.ghost_get(st.old, a.value)
            cs.append(self.eq(st, now, was))
        return SV(BOOL, zand(cs))

    def spec_same_heap(self, e, st):
        exc = set()
        for kw in e.keywords:
            if kw.arg == 'except_':
                exc = set(x.value for x in kw.value.elts)
        cs = []
        keys = set(st.heap) | set(st.old.heap)
        for key in sorted(keys):
            if '%s.%s' % key in exc or key[1] == '$alloc':
                continue
            ty = self.field_info(key[0], key[1])[1]
            now = st.heap.get(key) or self.heap0(key, ty)
            was = st.old.heap.get(key) or self.heap0(key, ty)
            cs += [x == y for x, y in zip(now, was) if not x.eq(y)]
        for g in sorted(set(st.ghost) | set(st.old.ghost)):
            if g in exc:
                continue
            now = self.ghost_get(st, g)
            was = self.ghost_get(st.old, g)
            if not all(x.eq(y) for x, y in zip(now.t, was.t)):
                cs.append(self.eq(st, now, was))
        return SV(BOOL, zand(cs))

    def spec_sub(self, e, st):
        s, a, b = self._args(e, st)
        if isinstance(s.ty, TList):
            self.oos('sub() on lists in specs: use quantified facts', e)
        return SV(s.ty, z3.SubSeq(s.z, a.z, b.z - a.z))

    def spec_unit(self, e, st):
        (a,) = self._args(e, st)
        return self.mk_list(a.ty, [a])

    def spec_empty(self, e, st):
        ty = self.spec_type(e.args[0])
        return self.L_empty(ty)

    def spec_last(self, e, st):
        (s,) = self._args(e, st)
        return self.L_at(s, s.t[1] - 1)

    def spec_length(self, e, st):
        (s,) = self._args(e, st)
        if isinstance(s.ty, TList):
            return SV(INT, self.L_len(s))
        return SV(INT, z3.Length(s.z))

    def spec_card(self, e, st):
        (s,) = self._args(e, st)
        return SV(INT, s.t[-1])

    def spec_store(self, e, st):
        d, k, v = self._args(e, st)
        return self.dict_set(d, self.coerce(k, d.ty.k).z, v)

    def spec_remove(self, e, st):
        d, k = self._args(e, st)
        if isinstance(d.ty, TSet):
            return self.set_del(d, self.coerce(k, d.ty.elem).z)
        return self.dict_del(d, self.coerce(k, d.ty.k).z)

    def spec_keys(self, e, st):
        (d,) = self._args(e, st)
        return SV(TSet(d.ty.k), [d.t[0], d.t[-1]])

    def spec_distinct_keys(self, e, st):
        self.oos('distinct_keys', e)

    def spec_ufn(self, e, st):
        """ufn('name', RET, args...): application of an uninterpreted spec function"""
        name = e.args[0].value
        ret = self.spec_type(e.args[1])
        args = [self.ev1(a, st) for a in e.args[2:]]
        sorts = [a.z.sort() for a in args] + [zsorts(ret)[0]]
        f = ufun('u_' + name, *sorts)
        return SV(ret, f(*[a.z for a in args]))

    def spec_allocated(self, e, st):
        (a,) = self._args(e, st)
        arrs, _, _ = self.heap_arrays(st, a.ty.cls, '$alloc')
        return SV(BOOL, z3.Select(arrs[0], a.z))

    def spec_fresh_obj(self, e, st):
        (a,) = self._args(e, st)
        arrs, _, _ = self.heap_arrays(st.old, a.ty.cls, '$alloc')
        return SV(BOOL, z3.And(a.z != 0, z3.Not(z3.Select(arrs[0], a.z))))

    def spec_int_ok(self, e, st):
        (a,) = self._args(e, st)
        return SV(BOOL, INT_OF_STR_OK(a.z))

    def spec_int_of(self, e, st):
        (a,) = self._args(e, st)
        return SV(INT, INT_OF_STR(a.z))

    def spec_str_to_int(self, e, st):
        (a,) = self._args(e, st)
        return SV(INT, z3.StrToInt(a.z))

    def spec_str_of_int(self, e, st):
        (a,) = self._args(e, st)
        return SV(STR, self.to_str_term(st, a))

    def spec_prefix_of(self, e, st):
        a, b = self._args(e, st)
        return SV(BOOL, z3.PrefixOf(a.z, b.z))

    def spec_suffix_of(self, e, st):
        a, b = self._args(e, st)
        return SV(BOOL, z3.SuffixOf(a.z, b.z))

    def spec_contains(self, e, st):
        a, b = self._args(e, st)
        if isinstance(a.ty, TList):
            b = self.coerce(b, a.ty.elem)
            if self.spec_pol < 0 and a.t:
                # assumed: skolem-function form (the witness is a function of the list and the element)
                w = ufun('wit_%s' % str(a.t[0].sort()).replace(' ', '_'), a.t[0].sort(), b.z.sort(), z3.IntSort())
                i = w(a.t[0], b.z)
                return SV(BOOL, z3.And(0 <= i, i < a.t[1], z3.Select(a.t[0], i) == b.z))
            return SV(BOOL, self.L_contains(a, b.z))
        return SV(BOOL, z3.Contains(a.z, b.z))

    def spec_distinct(self, e, st):
        """distinct(l): no element occurs twice.  Assumed: injectivity through a position function
        (linear instantiation); proved: pairwise quantifier (skolemised by the solver)."""
        (l,) = self._args(e, st)
        if not l.t:
            return mk_bool(True)
        i = z3.Int(fresh_name('di'))
        j = z3.Int(fresh_name('dj'))
        if self.spec_pol < 0:
            (es,) = zsorts(l.ty.elem)
            pos = ufun('pos_%s' % str(l.t[0].sort()).replace(' ', '_'), l.t[0].sort(), es, z3.IntSort())
            return SV(BOOL, FA([i], z3.Implies(z3.And(0 <= i, i < l.t[1]),
                                               pos(l.t[0], z3.Select(l.t[0], i)) == i),
                               patterns=[z3.Select(l.t[0], i)]))
        return SV(BOOL, z3.ForAll([i, j], z3.Implies(z3.And(0 <= i, i < j, j < l.t[1]),
                                                     z3.Select(l.t[0], i) != z3.Select(l.t[0], j))))

    def spec_index_of(self, e, st):
        a, b = self._args(e, st)
        return SV(INT, z3.IndexOf(a.z, b.z, 0))

    def spec_in_re(self, e, st):
        a = self.ev1(e.args[0], st)
        from .regex import to_z3re
        return SV(BOOL, z3.InRe(a.z, to_z3re(e.args[1].value)))

    def spec_tag_eq(self, e, st):
        a, b = self._args(e, st)
        z, w = a.z, b.z
        tests = [Val.is_VNone, Val.is_VBool, Val.is_VInt, Val.is_VReal, Val.is_VStr, Val.is_VBytes,
                 Val.is_VList, Val.is_VObj, Val.is_VRef]
        return SV(BOOL, zand([t(z) == t(w) for t in tests]))

    def spec_sigev(self, e, st):
        a = self._args(e, st)
        p, n, t = a[:3]
        mode = a[3].z if len(a) > 3 else z3.IntVal(0)
        if n.ty == VAL:
            n = SV(INT, Val.vi(n.z))
        return SV(SIGEV, SigEv.mk_sig(p.z, self.coerce(n, INT).z, self.coerce(t, REAL).z, mode))

    def spec_sig_mode(self, e, st):
        (a,) = self._args(e, st)
        return SV(INT, SigEv.sg_mode(a.z))

    def spec_sig_pid(self, e, st):
        (a,) = self._args(e, st)
        return SV(INT, SigEv.sg_pid(a.z))

    def spec_sig_num(self, e, st):
        (a,) = self._args(e, st)
        return SV(INT, SigEv.sg_num(a.z))

    def spec_sig_t(self, e, st):
        (a,) = self._args(e, st)
        return SV(REAL, SigEv.sg_t(a.z))

    def spec_repev(self, e, st):
        a = [self.coerce(x, VAL) for x in self._args(e, st)]
        return SV(REPEV, RepEv.mk_rep(a[0].z, a[1].z, a[2].z))

    def spec_rp_cid(self, e, st):
        (a,) = self._args(e, st)
        return SV(VAL, RepEv.rp_cid(a.z))

    def spec_rp_mid(self, e, st):
        (a,) = self._args(e, st)
        return SV(VAL, RepEv.rp_mid(a.z))

    def spec_rp_status(self, e, st):
        (a,) = self._args(e, st)
        return SV(VAL, RepEv.rp_status(a.z))

    def spec_pubev(self, e, st):
        w, t, p, c = self._args(e, st)
        return SV(PUBEV, PubEv.mk_ev(w.z, t.z, p.z, c.z))

    def spec_ev_w(self, e, st):
        (a,) = self._args(e, st)
        return SV(INT, PubEv.ev_w(a.z))

    def spec_ev_topic(self, e, st):
        (a,) = self._args(e, st)
        return SV(STR, PubEv.ev_topic(a.z))

    def spec_ev_pid(self, e, st):
        (a,) = self._args(e, st)
        return SV(INT, PubEv.ev_pid(a.z))

    def spec_ev_code(self, e, st):
        (a,) = self._args(e, st)
        return SV(INT, PubEv.ev_code(a.z))

    def call_pred(self, e, st):
        p = self.spec.preds[e.func.id]
        out_args = []
        was = self.spec_mode
        if not was:
            self.oos('spec predicate %s used in code' % p.name, e)
        args = [self.ev1(a, st) for a in e.args]
        st2 = st.copy()
        st2.env = dict(st.env)
        for (n, ty), a in zip(p.params, args):
            c = self.coerce(a, ty) if ty is not None else a
            if c is None:
                self.oos('predicate %s: argument %s of sort %r, expected %r' % (p.name, n, a.ty, ty), e)
            st2.env[n] = c
        return self.ok(st, self.ev1(p.tree(), st2))

    # ------------------------------------------------------------------ signatures
    def signature(self, c):
        """-> (names, defaults{name: ast node | SV}, vararg, kwarg, FuncInfo|None)"""
        key = ('sig', c.qual)
        if key in self._feas_cache:
            return self._feas_cache[key]
        fi = None
        if not c.qual.startswith('$') and self.src.module(c.qual.split(':')[0]) is not None:
            try:
                fi = self.src.find(c.qual)
            except OutOfSubset:
                fi = None
        if fi is not None:
            a = fi.node.args
            names = [x.arg for x in a.args] + [x.arg for x in a.kwonlyargs]
            defaults = {}
            nd = len(a.defaults)
            for n, d in zip([x.arg for x in a.args][len(a.args) - nd:], a.defaults):
                defaults[n] = d
            for x, d in zip(a.kwonlyargs, a.kw_defaults):
                if d is not None:
                    defaults[x.arg] = d
            if fi.is_classmethod:
                names = names[1:]
            sig = (names, defaults, a.vararg.arg if a.vararg else None,
                   a.kwarg.arg if a.kwarg else None, fi)
        else:
            names = list(c.params.keys())
            sig = (names, dict(c.defaults), None, None, None)
        self._feas_cache[key] = sig
        return sig

    def param_type(self, c, name, fi):
        if name in c.params:
            return c.params[name]
        if name == 'self':
            cls = None
            if fi is not None and fi.cls is not None:
                cls = fi.cls
            elif '.' in c.qual.split(':')[-1]:
                cls = c.qual.split(':')[-1].split('.')[0]
            elif c.qual.startswith('$') and '.' in c.qual:
                cls = c.qual[1:].split('.')[0]
            if cls in self.spec.classes:
                return TRef(cls)
        return VAL

    # ------------------------------------------------------------------ modifies handling
    def parse_mods(self, mods, env, node=None):
        """-> dict with 'keys': {heapkey: None | [obj terms]}, 'ghosts': set, 'all': bool,
        'new': set(classes)"""
        out = {'keys': {}, 'ghosts': set(), 'all': False, 'new': set()}
        for m in mods:
            if m == '*':
                out['all'] = True
                continue
            if m == '$val':
                out['keys'][('$vobj', 'map')] = None
                out['keys'][('$vlist', 'seq')] = None
                out['new'].add('$vobj')
                out['new'].add('$vlist')
                continue
            if m.startswith('new:'):
                out['new'].add(m[4:])
                continue
            if m in self.spec.ghosts:
                out['ghosts'].add(m)
                continue
            if '.' not in m:
                self.oos('bad modifies entry %r' % m, node)
            head, field = m.rsplit('.', 1)
            if head in self.spec.classes and field == '*':
                for cn in self.spec.mro(head):
                    for fld in self.spec.classes[cn].fields:
                        out['keys'][(cn, fld)] = None
                continue
            if head in self.spec.classes or head.startswith('$'):
                key, ty = self.field_info(head, field, node)
                out['keys'][key] = None
                continue
            # object-restricted: head is a spec expression denoting an object (usually a param)
            st = env
            obj = self.sp(head, st)
            if not isinstance(obj.ty, TRef):
                self.oos('modifies entry %r: %s is not an object' % (m, head), node)
            if field == '*':
                for cname in self.spec.mro(obj.ty.cls):
                    for fld in self.spec.classes[cname].fields:
                        key = (cname, fld)
                        if key in out['keys'] and out['keys'][key] is None:
                            continue
                        out['keys'].setdefault(key, []).append(obj.z)
                continue
            key, ty = self.field_info(obj.ty.cls, field, node)
            if key in out['keys'] and out['keys'][key] is None:
                continue
            out['keys'].setdefault(key, []).append(obj.z)
        return out

    def all_heap_keys(self, st):
        keys = set(st.heap.keys()) | set(self._heap0.keys())
        for cname, d in self.spec.classes.items():
            for f in d.fields:
                keys.add((cname, f))
        return keys

    def apply_havoc(self, st, mods):
        if mods['all']:
            for key in sorted(self.all_heap_keys(st)):
                if key[1] == '$alloc':
                    continue
                ty = self.field_info(key[0], key[1])[1]
                st = self.havoc_key(st, key, ty)
            for g in sorted(self.spec.ghosts):
                if g in self.spec.local_ghosts:
                    continue        # invocation-local audit counter: only the owner's ghost_at writes it
                st = st.copy()
                st.ghost[g] = fresh(self.spec.ghosts[g], 'G.' + g)
                st = st.assume(*self.wf_value_facts(st.ghost[g]))
            news = set(k[0] for k in self.all_heap_keys(st))
        else:
            for key in sorted(mods['keys']):
                objs = mods['keys'][key]
                ty = self.field_info(key[0], key[1])[1]
                if objs is None:
                    st = self.havoc_key(st, key, ty)
                else:
                    st = self.havoc_objs(st, key, ty, objs)
            for g in sorted(mods['ghosts']):
                if g in self.spec.local_ghosts:
                    continue        # audit ghosts of the callee are invisible to its callers
                st = st.copy()
                self.ghost_get(st, g)
                st.ghost[g] = fresh(self.spec.ghosts[g], 'G.' + g)
                st = st.assume(*self.wf_value_facts(st.ghost[g]))
            news = mods['new']
        for cls in sorted(news):
            arrs, ty, key = self.heap_arrays(st, cls, '$alloc')
            n = z3.Const(fresh_name('H.%s.$alloc' % cls), arrs[0].sort())
            o = z3.Int(fresh_name('o'))
            st = st.assume(FA([o], z3.Implies(z3.Select(arrs[0], o), z3.Select(n, o)),
                                     patterns=[z3.Select(arrs[0], o), z3.Select(n, o)]))
            st.heap[key] = (n,)
        st.hver += 1
        return st

    # ------------------------------------------------------------------ call by contract
    def use_axioms(self, c):
        for g in c.axioms:
            if ('axg', g) in self.axioms_used:
                continue
            self.axioms_used.add(('axg', g))
            es = State()
            es.old = es
            for text in self.spec.axioms[g]:
                self.global_axioms.append(self.spb(text, es))

    def bind_call(self, st, c, args, kw, node, recv=None, star=None):
        """bind and coerce the arguments of a call by contract -> (st, env) or (list of Res, None)"""
        names, defaults, vararg, kwarg, fi = self.signature(c)
        args = list(args)
        kw = dict(kw)
        bound = {}
        extra_pos = []
        for i, a in enumerate(args):
            if i < len(names):
                bound[names[i]] = a
            else:
                extra_pos.append(a)
        if extra_pos and vararg is None and not c.trusted:
            return self.raise_(st, 'TypeError', node), None
        extra_kw = {}
        for k, v in kw.items():
            if k in names:
                if k in bound:
                    return self.raise_(st, 'TypeError', node), None
                bound[k] = v
            else:
                extra_kw[k] = v
        if extra_kw and kwarg is None and fi is not None:
            return self.raise_(st, 'TypeError', node), None
        has_splat = bool(star and (star['args'] or star['kwargs']))
        splat_kw = star['kwargs'][0] if (star and star['kwargs']) else None

        def from_splat(n, dflt):
            """parameter n may be supplied by **d: d[n] when present, else the default (or an arbitrary value)"""
            ty = self.param_type(c, n, fi)
            if splat_kw is None:
                return dflt
            if isinstance(splat_kw.ty, TDict) and splat_kw.ty.k == STR and splat_kw.t:
                has = self.dict_has(splat_kw, z3.StringVal(n))
                got = self.dict_get(splat_kw, z3.StringVal(n))
            elif splat_kw.ty == VAL:
                dd = self.vobj(st, Val.vo(splat_kw.z))
                has = self.dict_has(dd, z3.StringVal(n))
                got = self.dict_get(dd, z3.StringVal(n))
            else:
                return dflt if dflt is not None else fresh(ty, 'splat_' + n)
            base = dflt if dflt is not None else fresh(ty, 'splat_' + n)
            g2 = self.coerce(got, ty)
            b2 = self.coerce(base, ty)
            if g2 is None or b2 is None:
                g2 = self.coerce(got, VAL)
                b2 = self.coerce(base, VAL)
                if g2 is None or b2 is None:
                    return fresh(ty, 'splat_' + n)
            return self.ite(has, g2, b2)
        for n in names:
            if n in bound:
                continue
            if n in defaults:
                d = defaults[n]
                if isinstance(d, SV):
                    bound[n] = d
                elif isinstance(d, ast.AST):
                    mi = fi.module if fi is not None else self.modinfo
                    saved = self.modinfo
                    self.modinfo = mi
                    try:
                        es = State()
                        bound[n] = self.ev1(d, es)
                    finally:
                        self.modinfo = saved
                else:
                    bound[n] = self.const_sv(d)
                if has_splat:
                    bound[n] = from_splat(n, bound[n])
            elif has_splat:
                bound[n] = from_splat(n, None)
            else:
                return self.raise_(st, 'TypeError', node), None
        if vararg is not None:
            bound[vararg] = self.mk_tuple(extra_pos)
        if kwarg is not None:
            ty = c.params.get(kwarg)
            if ty is not None:
                d = self.empty_dict(ty)
                for k, v in extra_kw.items():
                    d = self.dict_set(d, z3.StringVal(k), v)
                if has_splat and star['kwargs']:
                    sk = star['kwargs'][0]
                    if sk.ty == ty:
                        s0, d = self.dict_update(st, d, sk)
                        st = s0
                    elif sk.ty == VAL:
                        d = fresh(ty, 'kwsplat')
                bound[kwarg] = d
            else:
                bound[kwarg] = SV(TDict(NONE, NONE), (), py=dict(extra_kw))
        # coerce to declared parameter sorts
        env = {}
        for n, v in bound.items():
            if n in (vararg, kwarg):
                env[n] = v
                continue
            ty = self.param_type(c, n, fi)
            cv = self.coerce(v, ty)
            if cv is None:
                if ty == VAL:
                    st, cv = self.to_val_deep(st, v)
                else:
                    cv = self.coerce_store(st, v, ty, 'arg %s of %s' % (n, c.qual), node)
            env[n] = cv
        return st, env

    def check_call_requires(self, st, c, env, node, wrap=None):
        """call-site obligations the CALLER's contract attaches to calls of this callee (call_requires)"""
        cur = getattr(self, 'contract', None)
        if cur is None or not cur.call_requires:
            return
        short = c.qual.split(':')[-1].split('.')[-1]
        for name, r in cur.call_requires.get(short, []):
            s2 = st.copy()
            s2.env = dict(st.env)
            for k, v in env.items():
                s2.env['arg_' + k] = v
            cond = self.spb(r, s2, +1)
            if wrap is not None:
                cond = wrap(cond)
            self.add_vc('callsite[%s]:%s@%s' % (name, short, getattr(node, 'lineno', '?')), 'pre', st, cond,
                        node, note=r)

    def sync_slot_of(self, c):
        """name given to @synchronized(...) on the real function behind contract c (None: not synchronized)"""
        cache = self.__dict__.setdefault('_sync_cache', {})
        if c.qual not in cache:
            name = None
            if not c.trusted and ':' in c.qual and not c.qual.split(':')[1].startswith('$'):
                try:
                    name = self.src.find(c.qual).synchronized
                except Exception:
                    name = None
            cache[c.qual] = name
        return cache[c.qual]

    def mentions_local_ghost(self, text):
        """invocation-local audit ghosts are neither havocked nor framed at call sites; a callee clause that talks about
        them must therefore not be assumed there (it would relate the caller's unrelated copy)"""
        import re as _re
        if not isinstance(text, str) or not self.spec.local_ghosts:
            return False
        return any(_re.search(r'(?<![A-Za-z0-9_.])%s(?![A-Za-z0-9_])' % _re.escape(g), text)
                   for g in self.spec.local_ghosts)

    def apply_call_ghosts(self, st, c, env, node):
        cur = getattr(self, 'contract', None)
        if cur is None or not cur.ghost_on_call or self.call_depth or self.spec_mode:
            return st
        short = c.qual.split(':')[-1].split('.')[-1]
        for text in cur.ghost_on_call.get(short, []):
            tree = ast.parse(text.strip()).body[0]
            if not (isinstance(tree, ast.Assign) and isinstance(tree.targets[0], ast.Name) and
                    tree.targets[0].id in self.spec.ghosts):
                self.oos('ghost_on_call statement must assign a declared ghost: %r' % text, node)
            s2 = st.copy()
            s2.env = dict(st.env)
            for k, v in env.items():
                s2.env['arg_' + k] = v
            st = self.ghost_set(st, tree.targets[0].id, self.sp(tree.value, s2))
        return st

    def call_contract(self, st, c, args, kw, node, recv=None, star=None):
        """A call of a @synchronized method goes through the wrapper verified under C10: it is either refused at once
        with ConflictError and no effect, or the body runs owning the exclusive slot (ghost excl) and the slot is the
        caller's again afterwards.  (For a caller that already owns the slot only the refusal is real; keeping both
        outcomes is an over-approximation.)"""
        sync = self.sync_slot_of(c) if 'excl' in self.spec.ghosts else None
        if sync is None or getattr(self, '_in_sync', False):
            return self.call_contract_body(st, c, args, kw, node, recv, star)
        out = []
        # the wrapper refuses iff the arbiter is restarting or the slot is taken (util.synchronized, verified under C10)
        busy = None
        if recv is not None and isinstance(recv.ty, TRef) and recv.ty.cls in ('Watcher', 'Arbiter'):
            a = recv if recv.ty.cls == 'Arbiter' else self.read_field(st, recv.z, 'Watcher', 'arbiter')
            if recv.ty.cls == 'Arbiter' or True:
                rs = self.read_field(st, a.z, 'Arbiter', '_restarting')
                sl = self.read_field(st, a.z, 'Arbiter', '_exclusive_running_command')
                busy = z3.Or(rs.z, z3.Not(Val.is_VNone(sl.z)))
        if not (c.kind == 'coroutine' and self._awaiting):
            ex = Exc('ConflictError', {}, True, origin='%s@%s' % (c.qual.split(':')[-1], getattr(node, 'lineno', '?')))
            rst = st if busy is None else st.assume(busy)
            if busy is None or self.feasible(rst):
                out.append(Res(rst, None, ex))
            self.notes.append('call of @synchronized(%r) %s at line %s: refusal outcome added' %
                              (sync, c.qual, getattr(node, 'lineno', '?')))
            if busy is not None:
                st = st.assume(z3.Not(busy))
        if c.kind == 'coroutine' and not self._awaiting:
            return out + self.call_contract_body(st, c, args, kw, node, recv, star)
        mine = self.ghost_get(st, 'excl')
        st1 = self.ghost_set(st, 'excl', mk_bool(True))
        self._in_sync = True
        try:
            res = self.call_contract_body(st1, c, args, kw, node, recv, star)
        finally:
            self._in_sync = False
        for r in res:
            out.append(Res(self.ghost_set(r.st, 'excl', mine), r.val, r.exc))
        return out

    def inline_generator(self, st, c, args, kw, node, recv=None, star=None):
        """a plain generator function (kind='generator'): its REAL body is executed at the call site and the yielded
        values are collected, per path, into a static tuple -- `for x in gen(...)` is then unrolled.  Only for
        generators that yield a statically bounded number of values on every path (no yield inside a symbolic loop)."""
        self.used_contracts.add(c.qual)
        fi = self.src.find(c.qual)
        st1, env = self.bind_call(st, c, args, kw, node, recv, star)
        if env is None:
            return st1
        if self.call_depth > 6:
            self.oos('generator inlining recursion', node)
        caller_env = st.env
        st2 = st1.copy()
        st2.env = dict(env)
        st2.env['$yields'] = mk_py(('yields', []))
        saved = (self.yield_hook, self.modinfo)

        def hook(e, s):
            res = []
            for r in (self.ev(e.value, s) if e.value is not None else self.ok(s, mk_none())):
                if r.exc is not None:
                    res.append(r)
                    continue
                acc = r.st.env['$yields'].py[1]
                res.append(Res(r.st.setvar('$yields', mk_py(('yields', acc + [r.val]))), mk_none()))
            return res
        self.yield_hook = hook
        self.modinfo = fi.module
        self.call_depth += 1
        out = []
        try:
            for o in self.ex_block(fi.node.body, st2):
                s3 = o.st.copy()
                vals = o.st.env['$yields'].py[1]
                s3.env = caller_env
                if o.kind in ('next', 'return'):
                    out.append(Res(s3, self.mk_tuple(list(vals))))
                elif o.kind == 'raise':
                    out.append(Res(s3, None, o.exc))
                else:
                    self.oos('break/continue escaping a generator body', node)
        finally:
            self.call_depth -= 1
            self.yield_hook, self.modinfo = saved
        self.notes.append('generator %s inlined at line %s (real body executed, yields collected)'
                          % (c.qual, getattr(node, 'lineno', '?')))
        return out

    def call_contract_body(self, st, c, args, kw, node, recv=None, star=None):
        if c.kind == 'generator':
            return self.inline_generator(st, c, args, kw, node, recv, star)
        self.used_contracts.add(c.qual)
        self.use_axioms(c)
        if c.kind == 'coroutine' and not self._awaiting:
            from . import rely as _rely
            return self.ok(st, _rely.make_pending_call(self, st, c, args, kw, node, recv, star))
        self._awaiting = False
        st, env = self.bind_call(st, c, args, kw, node, recv, star)
        if env is None:
            return st
        names, defaults, vararg, kwarg, fi = self.signature(c)
        pre = st.copy()
        pre.env = env
        pre.old = None
        if c.inline is not None and (self.spec_mode or not c.requires) and not c.modifies:
            # pure accessor whose result is definitional: no fresh symbol needed
            pre.old = pre
            val = self.sp(c.inline, pre)
            if c.ret is not None and c.ret != NONE:
                val = self.coerce(val, c.ret) or val
            return self.ok(st, val)
        self.check_call_requires(st, c, env, node)
        st = self.apply_call_ghosts(st, c, env, node)
        pre = st.copy()
        pre.env = env
        pre.old = None
        # preconditions
        for i, r in enumerate(c.requires):
            cond = self.spb(r, pre, +1)
            if not z3.is_true(cond):
                self.add_vc('pre[%d]:%s@%s' % (i, c.qual.split(':')[-1], getattr(node, 'lineno', '?')),
                            'pre', st, cond, node, note=r)
                st = st.assume(cond)
                pre = pre.assume(cond)
        out = []
        # a call evaluated under a binder (comprehension element): its result is a function of the bound index,
        # and it must not have effects
        binders = list(getattr(self, 'binder_stack', ()))
        if binders and (c.modifies or any(c.raises.values()) or c.raises):
            if c.modifies:
                self.oos('call of %s (which modifies state) inside a comprehension' % c.qual, node)
        # ---- normal return
        mods = self.parse_mods(c.modifies, pre, node)
        post = self.apply_havoc(pre, mods)
        post.old = pre
        post.env = dict(env)
        ret_ty = c.ret
        if ret_ty is None or ret_ty == NONE:
            result = mk_none()
        elif isinstance(ret_ty, TTuple):
            result = self.mk_tuple([fresh_dep(t, 'ret%d_%s' % (k, c.qual.split(':')[-1].split('.')[-1]), binders)
                                    for k, t in enumerate(ret_ty.elems)])
        else:
            result = fresh_dep(ret_ty, 'ret_' + c.qual.split(':')[-1].split('.')[-1], binders)
            if isinstance(ret_ty, TRef):
                post = post.assume(self.allocated_fact(post, ret_ty.cls, result.z))
        post.env['result'] = result
        feasible = True
        conds = []
        for ens in list(c.ensures) + list(c.assumed):
            if self.mentions_local_ghost(ens):
                continue        # clause about the callee's own audit ghosts: an obligation of the callee, not a fact for callers
            cz = self.spb(ens, post, -1)
            if z3.is_false(cz):
                feasible = False
                break
            conds.append(cz)
        if feasible:
            post2 = post.assume(*conds)
            if isinstance(result.ty, (TDict, TSet)) and result.t:
                post2 = post2.assume(*self.dict_wf(result))
            ns = post2.copy()
            ns.env = st.env
            ns.old = st.old
            if not (c.ensures and not self.feasible(ns)):
                out.append(Res(ns, result))
        # ---- exceptional returns
        for cls, econds in c.raises.items():
            emods = self.parse_mods(c.exc_modifies if c.exc_modifies is not None else c.modifies,
                                    pre, node)
            epost = self.apply_havoc(pre, emods)
            epost.old = pre
            epost.env = dict(env)
            exact = True
            ecls = cls
            if cls == '*':
                ecls, exact = 'Exception', False
            elif cls.endswith('+'):
                ecls, exact = cls[:-1], False
            ex = Exc(ecls, {}, exact, origin='%s@%s' % (c.qual.split(':')[-1], getattr(node, 'lineno', '?')))
            if ecls == 'OSError':
                ex.fields['errno'] = fresh(INT, 'errno')
                epost.env['errno'] = ex.fields['errno']
            zs = []
            dead = False
            for ec in ([econds] if isinstance(econds, str) else econds):
                if self.mentions_local_ghost(ec):
                    continue
                cz = self.spb(ec, epost, -1)
                if z3.is_false(cz):
                    dead = True
                    break
                zs.append(cz)
            if dead:
                continue
            es = epost.assume(*zs)
            es2 = es.copy()
            es2.env = st.env
            es2.old = st.old
            if self.feasible(es2):
                out.append(Res(es2, None, ex))
        return out
