"""Sidecar specification registry: classes (field sorts), contracts, predicates, ghosts."""
import ast
from .tys import *   # noqa


class ClassDecl(object):
    def __init__(self, name, qual=None, fields=None, bases=(), doc='', hasattr_fields=None, const_attrs=None):
        self.name = name
        self.qual = qual            # 'circus.watcher:Watcher' or None for a spec-only class
        self.fields = dict(fields or {})
        self.bases = tuple(bases)
        self.doc = doc
        self.hasattr_fields = dict(hasattr_fields or {})   # attr -> BOOL field deciding hasattr()
        self.const_attrs = dict(const_attrs or {})         # attr -> python-side constant (e.g. a class object)


class Loop(object):
    def __init__(self, invariant=(), variant=None, fingerprint=None, modifies=None, variant_opt=None):
        self.invariant = list(invariant)
        self.variant = variant
        # termination measure checked only when the property asks for termination of every while loop
        # (spec.require_variants, C05); a while loop with neither variant then yields a failing obligation
        self.variant_opt = variant_opt
        self.fingerprint = fingerprint   # expected "<kind>:<source of iter/test>", checked
        self.modifies = modifies


class Contract(object):
    """Contract of one real function (or of a trusted library function).

    qual       'module:Class.method' / 'module:function' (module dotted, as imported)
    params     dict name -> Ty for parameters other than self (missing => inferred default VAL)
    ret        result type
    requires   list of spec expressions (strings)
    ensures    list of spec expressions; `result`, `old(e)` available
    raises     dict ExcClass -> list of spec expressions that hold when it escapes
               (old() = entry state).  A class not listed must be proved not to escape.
               The special key '*' allows any exception class.
    modifies   list of locations: 'Cls.field', 'Cls.field[objexpr]', ghost names, '$val' (JSON heap)
    loops      dict ordinal -> Loop
    trusted    True: no body is verified (library / kernel / out-of-subset function); listed
               in the trusted base of every evidence file that uses it
    kind       'function' | 'coroutine' | 'property'
    """

    def __init__(self, qual, params=None, ret=None, requires=(), ensures=(), raises=None,
                 modifies=(), loops=None, trusted=False, kind='function', note='',
                 pure=False, defaults=None, exc_modifies=None, tags=(), must_fail=(), axioms=(),
                 ghost_at=None, rely=None, detached=None, yield_guarantee=(), inline=None, assumed=(),
                 call_requires=None, local_types=None, seq_only=(), ghost_on_call=None, entry_assumes=()):
        self.qual = qual
        self.params = dict(params or {})
        self.ret = ret
        self.requires = list(requires)
        # an ensures entry may be ('name', 'expr'): the obligation is then called post[name]
        self.ensure_names = [e[0] if isinstance(e, tuple) else str(i) for i, e in enumerate(ensures)]
        self.ensures = [e[1] if isinstance(e, tuple) else e for e in ensures]
        self.raises = dict(raises or {})
        self.modifies = list(modifies)
        self.loops = dict(loops or {})
        self.trusted = trusted
        self.kind = kind
        self.note = note
        self.pure = pure
        self.defaults = dict(defaults or {})
        self.exc_modifies = exc_modifies     # None: same as modifies
        self.tags = tuple(tags)
        self.axioms = list(axioms)         # names of axiom groups (spec.axioms) this contract relies on
        self.ghost_at = dict(ghost_at or {})   # callee name -> ghost assignments run after that call returns
        self.rely = rely                   # coroutine: name of the rely relation at suspension points
        self.detached = detached           # coroutine: contract of the synchronous prefix when not awaited
        self.yield_guarantee = list(yield_guarantee)
        # callee short name -> [(name, spec)]: extra obligations at every call of that callee made by THIS function,
        # over the caller's state with the callee's bound parameters visible as arg_<param>
        self.call_requires = dict(call_requires or {})
        # callee short name -> ghost assignments executed when THIS function calls it, over the caller's state with the
        # callee's BOUND parameters (defaults, *args/**kwargs expanded) visible as arg_<param>
        self.ghost_on_call = dict(ghost_on_call or {})
        self.local_types = dict(local_types or {})
        # names of ensures that talk about the whole heap / all other objects: valid for one call, NOT composable under
        # the parallel-for rule (several instances would contradict each other) -- the rule skips them
        self.seq_only = set(seq_only)   # local name -> Ty of an initially empty container literal
        # facts assumed when the BODY is verified but not demanded from callers (a class invariant justified elsewhere,
        # e.g. by a frame scan); reported in the evidence as assumptions
        self.entry_assumes = list(entry_assumes)
        self.assumed = list(assumed)       # clauses assumed at call sites but NOT proved from the body (reported as assumptions)
        self.inline = inline               # pure accessor: result is exactly this spec expression (must also be an ensures)
        self.must_fail = list(must_fail)   # deliberately false postconditions (vacuity guard)


class Pred(object):
    """named spec predicate / spec function, expanded inline."""

    def __init__(self, name, params, body, ret=BOOL):
        self.name = name
        self.params = list(params)     # [(name, Ty)]
        self.body = body
        self.ret = ret
        self._ast = None

    def tree(self):
        if self._ast is None:
            self._ast = ast.parse(self.body.strip(), mode='eval').body
        return self._ast


class Spec(object):
    def __init__(self):
        self.classes = {}
        self.contracts = {}
        self.preds = {}
        self.ghosts = {}           # name -> Ty
        self.consts = {}           # dotted name -> python constant or SV factory
        self.exc_parent = {}
        self.assumptions = {}      # id -> text
        self.lemmas = {}           # name -> Lemma
        self.axioms = {}           # group name -> list of spec expressions (ground facts)
        self.handlers = {}         # extern qual -> python handler(engine, st, args, kw, node)
        self.relies = {}           # name -> Rely
        self.method_handlers = {}  # method name on an opaque object -> handler(engine, st, recv, args, node)
        self.local_ghosts = set()  # invocation-local ghost counters (written only by their owner's ghost_at)
        self.nonnull = set()       # (declaring class, field): reference fields that are never None (class invariant)

    def Class(self, name, **kw):
        c = ClassDecl(name, **kw)
        self.classes[name] = c
        return c

    def add(self, c):
        self.contracts[c.qual] = c
        return c

    def pred(self, name, params, body, ret=BOOL):
        self.preds[name] = Pred(name, params, body, ret)

    def ghost(self, name, ty):
        self.ghosts[name] = ty

    def field_owner(self, cls, field):
        """(declaring class, Ty) for field lookup through the bases; None if unknown"""
        seen = set()
        todo = [cls]
        while todo:
            c = todo.pop(0)
            if c in seen or c not in self.classes:
                continue
            seen.add(c)
            d = self.classes[c]
            if field in d.fields:
                return c, d.fields[field]
            todo += list(d.bases)
        return None

    def class_of_qual(self, qual):
        for c in self.classes.values():
            if c.qual == qual:
                return c
        return None

    def mro(self, cls):
        out = []
        todo = [cls]
        while todo:
            c = todo.pop(0)
            if c in out or c not in self.classes:
                continue
            out.append(c)
            todo += list(self.classes[c].bases)
        return out

    def is_subexc(self, c, parent):
        while c is not None:
            if c == parent:
                return True
            c = self.exc_parent.get(c)
        return False


class Lemma(object):
    """A proof obligation over contract formulas only (no code): hyps => goal, closed under
    the universally quantified variables `vars` (dict name -> Ty)."""

    def __init__(self, name, vars, hyps, goal, note=''):
        self.name = name
        self.vars = dict(vars)
        self.hyps = list(hyps)
        self.goal = goal
        self.note = note


EXC_TREE = {
    'BaseException': None, 'Exception': 'BaseException',
    'ArithmeticError': 'Exception', 'ZeroDivisionError': 'ArithmeticError',
    'OverflowError': 'ArithmeticError',
    'LookupError': 'Exception', 'KeyError': 'LookupError', 'IndexError': 'LookupError',
    'ValueError': 'Exception', 'UnicodeError': 'ValueError',
    'UnicodeDecodeError': 'UnicodeError', 'UnicodeEncodeError': 'UnicodeError',
    'TypeError': 'Exception', 'AttributeError': 'Exception',
    'RuntimeError': 'Exception', 'NotImplementedError': 'RuntimeError',
    'RecursionError': 'RuntimeError',
    'OSError': 'Exception', 'FileNotFoundError': 'OSError', 'PermissionError': 'OSError',
    'ChildProcessError': 'OSError', 'ProcessLookupError': 'OSError',
    'FileExistsError': 'OSError', 'InterruptedError': 'OSError',
    'ImportError': 'Exception', 'StopIteration': 'Exception', 'AssertionError': 'Exception',
    'Warning': 'Exception', 'DeprecationWarning': 'Warning',
    'MemoryError': 'Exception', 'NameError': 'Exception',
    # circus.exc
    'AlreadyExist': 'Exception', 'MessageError': 'Exception', 'CallError': 'Exception',
    'ArgumentError': 'Exception', 'ConflictError': 'Exception',
    # psutil
    'PsutilError': 'Exception', 'NoSuchProcess': 'PsutilError', 'AccessDenied': 'PsutilError',
    'TimeoutExpired': 'PsutilError', 'ZombieProcess': 'NoSuchProcess',
    # zmq / tornado
    'ZMQError': 'Exception', 'Return': 'Exception',
    # configparser
    'ConfigParserError': 'Exception', 'MissingSectionHeaderError': 'ConfigParserError',
    'ParsingError': 'ConfigParserError', 'NoOptionError': 'ConfigParserError',
    'NoSectionError': 'ConfigParserError',
}
EXC_ALIASES = {'IOError': 'OSError', 'EnvironmentError': 'OSError', 'error': 'OSError'}


def new_spec():
    s = Spec()
    s.exc_parent = dict(EXC_TREE)
    return s
