"""./vf setup: verify the offline tool chain is present (compiles nothing)."""
import os
import shutil
import subprocess
import sys


def main():
    ok = True
    import z3
    print('z3-solver', z3.get_version_string())
    for tool in ('/usr/bin/cvc5', '/venv/bin/python'):
        if not os.path.exists(tool):
            print('MISSING', tool)
            ok = False
    r = subprocess.run(['/venv/bin/python', '-c', 'import circus, tornado, psutil, zmq; print("repo deps ok")'],
                       capture_output=True, text=True, env=dict(os.environ, PYTHONPATH=os.environ.get('PYVC_REPO', '/repo')))
    print(r.stdout.strip() or r.stderr.strip()[-300:])
    ok = ok and r.returncode == 0
    for d in ('evidence', 'out'):
        os.makedirs(os.path.join(os.path.dirname(os.path.dirname(os.path.abspath(__file__))), d), exist_ok=True)
    sys.exit(0 if ok else 1)


if __name__ == '__main__':
    main()
