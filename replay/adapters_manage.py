"""C01 adapters: the real Watcher.manage_processes / set_numprocesses / incr / decr over fake workers.
spawn_process is replaced by a recorder that lists a new fake worker (its own contract is replayed by the
SpawnProcess adapter); kill_process is the real one on a virtual clock."""
from replay.adapters import register
from replay.adapters_watcher import FakeKernel, FakeProcess, real_watcher


def build(inp):
    import circus.watcher as W
    from tornado import concurrent
    k = FakeKernel()
    w = real_watcher(numprocesses=inp['numprocesses'], respawn=inp.get('respawn', True),
                     max_age=inp.get('max_age', 0), graceful_timeout=0.2)
    w.singleton = inp.get('singleton', False)
    w._status = inp.get('status', 'active')
    from replay.adapters_arbiter import bare_arbiter
    w.arbiter = bare_arbiter()
    procs = {}
    for i, alive in enumerate(inp['workers']):
        pid = 1000 + i
        gone = (alive == 'gone')                # already collected: psutil says NoSuchProcess -> UNEXISTING
        alive = (alive is True)
        p = FakeProcess(k, pid, dies_at=None if alive else 0.0, delay_after_stop=0.05)
        p.started = i
        p.status = 0 if alive else (2 if gone else 1)     # RUNNING / DEAD_OR_ZOMBIE / UNEXISTING as circus.process reports it
        p.age = lambda: 0
        procs[pid] = p
    w.processes = dict(procs)
    log = {'spawned': [], 'next': 2000}

    def fake_spawn(recovery_wid=None):
        if inp.get('spawn_fails'):
            return False
        pid = log['next']
        log['next'] += 1
        p = FakeProcess(k, pid, delay_after_stop=0.05)
        p.status = 0
        p.age = lambda: 0
        w.processes[pid] = p
        log['spawned'].append(pid)
        return 0.0
    w.spawn_process = fake_spawn
    w.notify_event = lambda topic, msg: log.setdefault('events', []).append(topic)

    def vsleep(d):
        k.now += d
        f = concurrent.Future()
        f.set_result(None)
        return f
    return W, w, k, log, procs, vsleep


def run_with_clock(W, vsleep, make):
    from replay.adapters_arbiter import run_coroutine
    saved = W.tornado_sleep
    W.tornado_sleep = vsleep
    try:
        return run_coroutine(make)
    finally:
        W.tornado_sleep = saved


@register('circus.watcher:Watcher.manage_processes')
class ManageProcesses(object):
    def from_model(self, m):
        return []

    def enumerate(self):
        for np in (0, 1, 2, 3):
            for workers in ([], [True], [True, True], [True, False], [False, False], [True, True, True],
                            [True, True, True, False], ['gone'], [True, 'gone'], [True, True, 'gone', False]):
                for respawn in (True, False):
                    for status in ('active', 'stopped', 'stopping'):
                        yield {'numprocesses': np, 'workers': workers, 'respawn': respawn, 'status': status}

    def run(self, inp):
        W, w, k, log, procs, vsleep = build(inp)
        before = dict(w.processes)
        res, exc = run_with_clock(W, vsleep, lambda: w.manage_processes())
        obs = {}
        if exc is not None:
            obs['raised'] = type(exc).__name__
        obs['spawned'] = len(log['spawned'])
        obs['signals'] = [list(s) for s in k.signals]
        obs['events'] = log.get('events', [])
        obs['count'] = len(w.processes)
        obs['status'] = w._status
        obs['table_same'] = w.processes == before
        signalled = set(s[0] for s in k.signals)
        obs['silently_dropped'] = [pid for pid in procs if pid not in w.processes and pid not in signalled and
                                   obs['events'].count('reap') == 0]
        obs['listed_dead'] = [pid for pid, p in procs.items() if pid in w.processes and p.status in (1, 2)]
        obs['unlisted_alive'] = [pid for pid, p in procs.items() if pid not in w.processes and p.status == 0 and
                                 not any(s[0] == pid for s in k.signals)]
        return obs

    def check(self, inp, obs):
        bad = set()
        if 'raised' in obs:
            return set(['noescape'])
        np = inp['numprocesses']
        all_alive = all(x is True for x in inp['workers'])
        if inp['status'] == 'stopped':
            if obs['spawned'] or obs['signals'] or not obs['table_same']:
                bad.add('post[0]')
            return bad
        if all_alive and len(inp['workers']) == np:
            if obs['spawned'] or obs['signals'] or obs['events'] or not obs['table_same']:
                bad.add('post[fixpoint]')
        if inp['status'] == 'active' and inp['respawn'] and obs['status'] != 'stopped' and obs['count'] < np:
            bad.add('post[deficit-filled]')
        if obs['spawned'] and obs['status'] != 'stopped' and obs['count'] != np:
            bad.add('post[no-overshoot]')
        if obs.get('listed_dead'):
            bad.add('post[found-dead-are-unlisted]')
            bad.add('inv-pres[13]:loop0')
        if obs['unlisted_alive']:
            bad.add('inv-pres[1]:loop0')
            bad.add('inv-pres[1]')        # DROPDEAD: a live worker was unlisted without being terminated
        if obs.get('silently_dropped') and obs['status'] != 'stopped':
            bad.add('post[dead-removed-are-reaped]')
        return bad


class _SetNp(object):
    meth = 'set_numprocesses'

    def from_model(self, m):
        return []

    def enumerate(self):
        for cur in (0, 1, 3):
            for arg in (-5, -1, 0, 1, 2, 5):
                for singleton in (False, True):
                    yield {'numprocesses': cur, 'arg': arg, 'singleton': singleton, 'workers': [True] * min(cur, 2)}

    def target(self, inp):
        return inp['arg']

    def run(self, inp):
        W, w, k, log, procs, vsleep = build(inp)
        fn = getattr(W.Watcher, self.meth)
        fn = getattr(fn, '__wrapped__', fn)
        res, exc = run_with_clock(W, vsleep, lambda: getattr(w, self.meth)(inp['arg']))
        obs = {'numprocesses': w.numprocesses, 'result': res, 'count': len(w.processes), 'status': w._status}
        if exc is not None:
            obs['raised'] = type(exc).__name__
        return obs

    def check(self, inp, obs):
        bad = set()
        t = self.target(inp)
        if 'raised' in obs:
            if obs['raised'] != 'ValueError':
                bad.add('noescape')
            elif obs['numprocesses'] != inp['numprocesses'] or not inp['singleton']:
                bad.add('raises[ValueError][0]')
                bad.add('raises[ValueError][1]')
            return bad
        if obs['numprocesses'] != max(t, 0):
            bad.add('post[target-clamped]')
            bad.add('post[target]')
        if obs['numprocesses'] < 0:
            bad.add('post[4]')
        if inp['singleton'] and obs['numprocesses'] > 1:
            bad.add('post[singleton-at-most-one]')
        if obs['result'] != obs['numprocesses']:
            bad.add('post[1]')
        if obs['status'] != 'stopped' and obs['count'] < obs['numprocesses']:
            bad.add('post[deficit-filled]')
        return bad


@register('circus.watcher:Watcher.set_numprocesses')
class SetNumprocesses(_SetNp):
    pass


@register('circus.watcher:Watcher.incr')
class Incr(_SetNp):
    meth = 'incr'

    def target(self, inp):
        return inp['numprocesses'] + inp['arg']


@register('circus.watcher:Watcher.decr')
class Decr(_SetNp):
    meth = 'decr'

    def target(self, inp):
        return inp['numprocesses'] - inp['arg']


@register('circus.watcher:Watcher.do_action')
class DoAction(object):
    """the real do_action (through its real @synchronized wrapper) on a stopped / active watcher; _reload's effects are
    observed through the recording spawn_process and the fake kernel"""
    def from_model(self, m):
        return []

    def enumerate(self):
        for num in (0, 1, -1, 2):
            for status in ('stopped', 'active'):
                for workers in ([], [True]):
                    yield {'num': num, 'status': status, 'numprocesses': 2, 'workers': workers if status == 'active' else []}

    def run(self, inp):
        W, w, k, log, procs, vsleep = build(inp)
        w.prereload_fn = None
        w.send_hup = False
        w.call_hook = lambda *a, **kw: True
        w._create_redirectors = lambda: None
        before = dict(w.processes)
        res, exc = run_with_clock(W, vsleep, lambda: w.do_action(inp['num']))
        obs = {}
        if exc is not None:
            obs['raised'] = type(exc).__name__
        obs['spawned'] = len(log['spawned'])
        obs['signals'] = [list(s) for s in k.signals]
        obs['status'] = w._status
        obs['table_same'] = w.processes == before
        return obs

    def check(self, inp, obs):
        bad = set()
        if inp['status'] == 'stopped' and (obs['spawned'] or obs['signals'] or obs['status'] != 'stopped' or not obs['table_same']):
            bad.add('post[stopped-stays-stopped]')
            bad.add('raises[*][0]')
        return bad


@register('circus.watcher:Watcher.spawn_processes')
class SpawnProcesses(object):
    """the real spawn_processes over fake workers (Watcher._stop replaced by a stand-in); spawn_process is a scripted recorder:
    each call either lists a new worker or reports failure (False), as a refused before_spawn / after_spawn hook does"""
    def from_model(self, m):
        return []

    def enumerate(self):
        for np, workers, script in ((2, [], ['ok', 'ok']), (2, [], ['ok', 'fail']), (3, [True], ['ok', 'fail']),
                                    (2, [], ['fail']), (1, [], ['fail']), (3, [], ['ok', 'ok', 'fail']),
                                    (2, [True, True], []), (3, [True], ['ok', 'ok'])):
            yield {'numprocesses': np, 'workers': workers, 'script': script}

    def run(self, inp):
        W, w, k, log, procs, vsleep = build(inp)
        w.call_hook = lambda *a, **kw: True
        w.stream_redirector = None
        w.evpub_socket = None
        script = list(inp['script'])
        real_fake = w.spawn_process

        def scripted(recovery_wid=None):
            what = script.pop(0) if script else 'ok'
            if what == 'fail':
                return False
            return real_fake(recovery_wid)
        w.spawn_process = scripted
        from tornado import gen

        @gen.coroutine
        def stop_standin():
            # stand-in for Watcher._stop (its own contract is replayed by other adapters): all workers gone, stopped
            log['stops'] = log.get('stops', 0) + 1
            w.processes.clear()
            w._status = 'stopped'
        w._stop = stop_standin
        before = len(w.processes)
        res, exc = run_with_clock(W, vsleep, lambda: w.spawn_processes())
        obs = {'status': w._status, 'count': len(w.processes), 'before': before, 'spawned': len(log['spawned'])}
        if exc is not None:
            obs['raised'] = type(exc).__name__
        return obs

    def check(self, inp, obs):
        bad = set()
        if 'raised' in obs:
            return set(['noescape'])
        np, k = inp['numprocesses'], obs['before']
        if obs['status'] != 'stopped':
            if obs['count'] != (np if k < np else k):
                bad.add('post[6]')
            if obs['spawned'] != obs['count'] - k:
                bad.add('post[7]')
        elif obs['count'] != 0:
            bad.add('post[8]')
        return bad
