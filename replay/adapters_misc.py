import itertools
from replay.adapters import register


class Host(object):
    pass


@register('circus.util:synchronized.real_decorator.wrapper')
class SyncWrapper(object):
    """real util.synchronized around a probe body; inputs enumerate the bound object's shape, the slot
    state and the body's behaviour"""

    def from_model(self, m):
        return []

    def enumerate(self):
        for shape in ('watcher', 'watcher-noarb', 'arbiter', 'plain'):
            for restarting in (False, True):
                for slot in (None, 'other'):
                    for behaviour in ('value', 'raise', 'raise-conflict', 'future-ok', 'future-exc',
                                      'value-none'):
                        yield {'shape': shape, 'restarting': restarting, 'slot': slot,
                               'behaviour': behaviour}

    def run(self, inp):
        from circus import util
        from circus.exc import ConflictError
        from tornado import concurrent
        arb = Host()
        arb._restarting = inp['restarting']
        arb._exclusive_running_command = inp['slot']
        host = Host()
        A = None
        if inp['shape'] == 'watcher':
            host.arbiter = arb
            A = arb
        elif inp['shape'] == 'watcher-noarb':
            host.arbiter = None
        elif inp['shape'] == 'arbiter':
            host = arb
            A = arb
        seen = {}
        fut = concurrent.Future()

        def body(self):
            seen['slot_during'] = None if A is None else A._exclusive_running_command
            b = inp['behaviour']
            if b == 'value':
                return 42
            if b == 'value-none':
                return None
            if b == 'raise':
                raise RuntimeError('boom')
            if b == 'raise-conflict':
                raise ConflictError('inner')
            return fut
        wrapped = util.synchronized('probe')(body)
        obs = {'called': False}
        snapshot = (arb._restarting, arb._exclusive_running_command)
        try:
            res = wrapped(host)
            obs['returned'] = 'future' if res is fut else repr(res)
        except Exception as e:
            obs['raised'] = type(e).__name__
        obs['called'] = 'slot_during' in seen
        obs['slot_during'] = seen.get('slot_during')
        obs['slot_after'] = arb._exclusive_running_command
        obs['unchanged'] = snapshot == (arb._restarting, arb._exclusive_running_command)
        if obs.get('returned') == 'future':
            if inp['behaviour'] == 'future-ok':
                fut.set_result(1)
            else:
                fut.set_exception(RuntimeError('late'))
            # done callbacks run on the loop
            from tornado import ioloop
            loop = ioloop.IOLoop.current()
            loop.add_callback(loop.stop)
            loop.start()
            obs['slot_after_done'] = arb._exclusive_running_command
        obs['A'] = A is not None
        return obs

    def check(self, inp, obs):
        bad = set()
        has_a = obs['A']
        refused = has_a and (inp['restarting'] or inp['slot'] is not None)
        if 'raised' in obs:
            if obs['raised'] == 'ConflictError' and not obs['called']:
                if not refused:
                    bad.add('raises[ConflictError][0]')
                if not obs['unchanged']:
                    bad.add('raises[ConflictError][1]')
            else:
                if refused:
                    bad.add('raises[*][0]')
                if has_a and obs['slot_after'] is not None:
                    bad.add('raises[*][1]')
        else:
            if refused:
                bad.add('post[0]')
            if obs['returned'] != 'future':
                if has_a and obs['slot_after'] is not None:
                    bad.add('post[1]')
            else:
                if has_a and obs['slot_after'] != 'probe':
                    bad.add('post[2]')
                if has_a and obs.get('slot_after_done') is not None:
                    bad.add('post[3]')
        if obs['called'] and has_a and obs['slot_during'] != 'probe':
            bad.add('post[2]')     # body must run with the slot held
            bad.add('pre[0]')
        return bad
