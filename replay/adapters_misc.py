import itertools
from replay.adapters import register


class Host(object):
    pass


@register('circus.util:synchronized.real_decorator.wrapper')
class SyncWrapper(object):
    """real util.synchronized around a probe body; inputs enumerate the bound object's shape, the slot
    state and the body's behaviour"""

    def from_model(self, m):
        return []

    def enumerate(self):
        for shape in ('watcher', 'watcher-noarb', 'arbiter', 'plain'):
            for restarting in (False, True):
                for slot in (None, 'other'):
                    for behaviour in ('value', 'raise', 'raise-conflict', 'future-ok', 'future-exc',
                                      'value-none'):
                        yield {'shape': shape, 'restarting': restarting, 'slot': slot,
                               'behaviour': behaviour}

    def run(self, inp):
        from circus import util
        from circus.exc import ConflictError
        from tornado import concurrent
        arb = Host()
        arb._restarting = inp['restarting']
        arb._exclusive_running_command = inp['slot']
        host = Host()
        A = None
        if inp['shape'] == 'watcher':
            host.arbiter = arb
            A = arb
        elif inp['shape'] == 'watcher-noarb':
            host.arbiter = None
        elif inp['shape'] == 'arbiter':
            host = arb
            A = arb
        seen = {}
        fut = concurrent.Future()

        def body(self):
            seen['slot_during'] = None if A is None else A._exclusive_running_command
            b = inp['behaviour']
            if b == 'value':
                return 42
            if b == 'value-none':
                return None
            if b == 'raise':
                raise RuntimeError('boom')
            if b == 'raise-conflict':
                raise ConflictError('inner')
            return fut
        wrapped = util.synchronized('probe')(body)
        obs = {'called': False}
        snapshot = (arb._restarting, arb._exclusive_running_command)
        try:
            res = wrapped(host)
            obs['returned'] = 'future' if res is fut else repr(res)
        except Exception as e:
            obs['raised'] = type(e).__name__
        obs['called'] = 'slot_during' in seen
        obs['slot_during'] = seen.get('slot_during')
        obs['slot_after'] = arb._exclusive_running_command
        obs['unchanged'] = snapshot == (arb._restarting, arb._exclusive_running_command)
        if obs.get('returned') == 'future':
            if inp['behaviour'] == 'future-ok':
                fut.set_result(1)
            else:
                fut.set_exception(RuntimeError('late'))
            # done callbacks run on the loop
            from tornado import ioloop
            loop = ioloop.IOLoop.current()
            loop.add_callback(loop.stop)
            loop.start()
            obs['slot_after_done'] = arb._exclusive_running_command
        obs['A'] = A is not None
        return obs

    def check(self, inp, obs):
        bad = set()
        has_a = obs['A']
        refused = has_a and (inp['restarting'] or inp['slot'] is not None)
        if 'raised' in obs:
            if obs['raised'] == 'ConflictError' and not obs['called']:
                if not refused:
                    bad.add('raises[ConflictError][0]')
                if not obs['unchanged']:
                    bad.add('raises[ConflictError][1]')
            else:
                if refused:
                    bad.add('raises[*][0]')
                if has_a and obs['slot_after'] is not None:
                    bad.add('raises[*][1]')
        else:
            if refused:
                bad.add('post[0]')
            if obs['returned'] != 'future':
                if has_a and obs['slot_after'] is not None:
                    bad.add('post[1]')
            else:
                if has_a and obs['slot_after'] != 'probe':
                    bad.add('post[2]')
                if has_a and obs.get('slot_after_done') is not None:
                    bad.add('post[3]')
        if obs['called'] and has_a and obs['slot_during'] != 'probe':
            bad.add('post[2]')     # body must run with the slot held
            bad.add('pre[0]')
        return bad


@register('circus.util:_synchronized_cb')
class SynchronizedCb(object):
    """the real done-callback of util.synchronized, called the way tornado calls it (with the completed future):
    whatever the outcome of the operation -- a result, an exception, a cancelled future -- the slot is free
    afterwards and nothing escapes into the loop (an exception escaping a done-callback is only logged by tornado,
    the slot would stay taken for ever)"""

    def from_model(self, m):
        return []

    def enumerate(self):
        for arb in ('none', 'slot-held', 'slot-free', 'restarting'):
            for fut in ('result', 'result-none', 'exception', 'conflict', 'keyerror', 'cancelled', 'not-a-future'):
                yield {'arbiter': arb, 'future': fut}

    def run(self, inp):
        from circus import util
        from circus.exc import ConflictError
        from tornado import concurrent
        arb = None
        if inp['arbiter'] != 'none':
            arb = Host()
            arb._restarting = inp['arbiter'] == 'restarting'
            arb._exclusive_running_command = None if inp['arbiter'] == 'slot-free' else 'probe'
        f = inp['future']
        fut = concurrent.Future()
        if f == 'result':
            fut.set_result(42)
        elif f == 'result-none':
            fut.set_result(None)
        elif f == 'exception':
            fut.set_exception(RuntimeError('hook failed'))
        elif f == 'conflict':
            fut.set_exception(ConflictError('inner'))
        elif f == 'keyerror':
            fut.set_exception(KeyError('unknown option'))
        elif f == 'cancelled':
            fut.cancel()
        else:
            fut = None
        obs = {}
        try:
            util._synchronized_cb(arb, fut)
        except BaseException as e:       # CancelledError is a BaseException
            obs['raised'] = type(e).__name__
        if fut is not None and fut.done() and not fut.cancelled():
            fut.exception()              # retrieve: no "exception was never retrieved" noise at exit
        obs['slot_after'] = None if arb is None else arb._exclusive_running_command
        obs['restarting_after'] = None if arb is None else arb._restarting
        return obs

    def check(self, inp, obs):
        bad = set()
        if 'raised' in obs:
            bad.add('noescape')
        if inp['arbiter'] != 'none':
            if obs['slot_after'] is not None:
                bad.add('post[0]')
            if obs['restarting_after'] != (inp['arbiter'] == 'restarting'):
                bad.add('frame')
        return bad
