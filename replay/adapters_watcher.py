import itertools
from replay.adapters import register, scal, arr, nested


class Stub(object):
    def __init__(self, **kw):
        self.__dict__.update(kw)


def bare_watcher(**attrs):
    from circus.watcher import Watcher
    w = Watcher.__new__(Watcher)
    w.__dict__.update(attrs)
    return w


@register('circus.watcher:Watcher._nextwid')
class NextWid(object):
    def from_model(self, m):
        s = scal(m, 'in.self')
        np = arr(m, 'H.Watcher.numprocesses.0', s, 0)
        keys = nested(m, 'H.Watcher.processes.0', s)
        vals = nested(m, 'H.Watcher.processes.1', s)
        wids = []
        for k, has in keys.items():
            if has is True:
                wids.append(arr(m, 'H.Process.wid.0', vals.get(k), 0))
        yield {'numprocesses': np, 'wids': wids}

    def enumerate(self):
        for np in range(0, 4):
            for n in range(0, 2 * np + 2):
                for wids in itertools.combinations(range(0, 2 * np + 2), n):
                    yield {'numprocesses': np, 'wids': list(wids)}

    def run(self, inp):
        w = bare_watcher(numprocesses=inp['numprocesses'],
                         processes=dict((100 + i, Stub(wid=x, pid=100 + i)) for i, x in enumerate(inp['wids'])))
        try:
            return {'result': w._nextwid}
        except Exception as e:
            return {'raised': type(e).__name__}

    def check(self, inp, obs):
        np, wids = inp['numprocesses'], set(inp['wids'])
        bad = set()
        if 'result' in obs:
            r = obs['result']
            if not r >= 1:
                bad.add('post[0]')
            if not r <= 2 * np:
                bad.add('post[1]')
            if r in wids:
                bad.add('post[2]')
            if not all(y in wids for y in range(1, r)):
                bad.add('post[3]')
        elif obs.get('raised') == 'RuntimeError':
            if not all(y in wids for y in range(1, 2 * np + 1)):
                bad.add('raises[RuntimeError][0]')
        else:
            bad.add('noescape')
        return bad


# ---------------------------------------------------------------------------- kill_process (C03)
class FakeKernel(object):
    def __init__(self):
        self.now = 0.0
        self.signals = []      # (pid, signum, time, how)


class FakeProcess(object):
    """double for circus.process.Process at the psutil boundary, driven by a virtual clock"""

    def __init__(self, kernel, pid, dies_at=None, delay_after_stop=None, stop_signals=(15,), kids=()):
        self.k = kernel
        self.pid = pid
        self.wid = 1
        self.stopping = False
        self.dies_at = dies_at
        self.delay_after_stop = delay_after_stop
        self.stop_signals = stop_signals
        self.kids = list(kids)
        self.closed = False
        self.started = 0
        self.polls = []
        self.reaped = False

    def _alive(self):
        return self.dies_at is None or self.k.now < self.dies_at

    def is_alive(self):
        a = self._alive()
        self.polls.append((self.k.now, a))
        if not a:
            self.reaped = True      # poll() reaps the zombie
        return a

    def children(self, recursive=False):
        from psutil import NoSuchProcess
        if not self._alive() and self.reaped:
            raise NoSuchProcess(self.pid)
        return list(self.kids)

    def send_signal(self, sig):
        from psutil import NoSuchProcess
        if not self._alive() and self.reaped:
            raise NoSuchProcess(self.pid)
        # a dead but not yet reaped child (zombie) still accepts kill(2)
        self.k.signals.append((self.pid, int(sig), self.k.now, 'process' if self._alive() else 'zombie'))
        if int(sig) == 9:
            self.dies_at = self.k.now
        elif int(sig) in self.stop_signals and self.delay_after_stop is not None:
            t = self.k.now + self.delay_after_stop
            self.dies_at = t if self.dies_at is None else min(self.dies_at, t)

    def send_signal_child(self, pid, sig):
        self.k.signals.append((pid, int(sig), self.k.now, 'child'))

    def stop(self):
        self.closed = True


def real_watcher(**kw):
    from circus.watcher import Watcher
    w = Watcher('replay', 'sleep 1', **kw)
    return w


def run_coroutine(fn):
    from tornado import ioloop
    loop = ioloop.IOLoop.current()
    return loop.run_sync(fn)


@register('circus.watcher:Watcher.kill_process')
class KillProcess(object):
    def from_model(self, m):
        return []

    def enumerate(self):
        for g in (0.3, 0.0, 0.25, 1.0):
            for beh in ('obeys-fast', 'ignores', 'dies-late', 'dies-at-boundary', 'obeys-slow', 'dead-already'):
                for stop_children in (False, True):
                    for override in (None, 2):
                        yield {'g': g, 'behaviour': beh, 'stop_children': stop_children,
                               'override_signal': override, 'g_override': None}

    def run(self, inp):
        import circus.watcher as W
        from tornado import concurrent
        k = FakeKernel()
        g = inp['g']
        beh = inp['behaviour']
        sig = inp['override_signal']
        stop_sig = sig if sig is not None else 15
        kw = {}
        if beh == 'obeys-fast':
            kw = {'delay_after_stop': 0.05}
        elif beh == 'obeys-slow':
            kw = {'delay_after_stop': g + 5}
        elif beh == 'dies-late':
            kw = {'dies_at': max(g - 0.05, 0.0)}       # exits by itself during the last polling step
        elif beh == 'dies-at-boundary':
            kw = {'dies_at': g}
        elif beh == 'dead-already':
            kw = {'dies_at': 0.0}
        p = FakeProcess(k, 4242, stop_signals=(stop_sig,), kids=(77,), **kw)
        w = real_watcher(graceful_timeout=g, stop_children=inp['stop_children'])
        w.processes = {p.pid: p}

        def vsleep(d):
            k.now += d
            f = concurrent.Future()
            f.set_result(None)
            return f
        saved = W.tornado_sleep
        W.tornado_sleep = vsleep
        obs = {}
        try:
            obs['result'] = run_coroutine(lambda: w.kill_process(p, stop_signal=sig,
                                                                 graceful_timeout=inp['g_override']))
        except Exception as e:
            obs['raised'] = type(e).__name__
        finally:
            W.tornado_sleep = saved
        obs['signals'] = [list(s) for s in k.signals]
        obs['polls'] = p.polls
        obs['end'] = k.now
        obs['dies_at'] = p.dies_at
        obs['stopping'] = p.stopping
        obs['closed'] = p.closed
        return obs

    def check(self, inp, obs):
        bad = set()
        if 'raised' in obs:
            return set(['noescape'])
        own = [s for s in obs['signals'] if s[0] == 4242]
        g = inp['g'] if inp['g_override'] is None else inp['g_override']
        want = inp['override_signal'] if inp['override_signal'] is not None else 15
        if not obs['result']:
            if own:
                bad.add('post[1]')
            return bad
        if len(own) < 1:
            bad.add('post[2]')
            return bad
        if own[0][1] != want:
            bad.add('post[3]')
        kids = [s for s in obs['signals'] if s[0] == 77 and s[1] == want]
        if inp['stop_children'] and not kids:
            bad.add('post[5]')
        if len(own) > 2:
            bad.add('post[6]')
        if len(own) == 2:
            if own[1][1] != 9:
                bad.add('post[7]')
            if own[1][2] < own[0][2] + g - 1e-9:
                bad.add('post[8]')
            if not (own[1][2] - own[0][2] < g + 0.1 + 1e-9):
                bad.add('post[9]')
            # SIGKILL only to a worker that was still alive when the timeout had elapsed
            if own[1][3] == 'zombie':
                bad.add('post[11]')
        if len(own) == 1:
            # no SIGKILL: the worker must have been seen dead
            if not any(not a for t, a in obs['polls']):
                bad.add('post[10]')
        if obs['stopping'] or not obs['closed']:
            bad.add('post[12]')
        return bad


# ---------------------------------------------------------------------------- spawn_process
@register('circus.watcher:Watcher.spawn_process')
class SpawnProcess(object):
    """real Watcher.spawn_process with the Process class replaced by a kernel double; hook outcomes,
    exec failures and worker behaviour are the inputs"""

    def from_model(self, m):
        return []

    def enumerate(self):
        for status in ('active', 'stopped', 'starting'):
            for before in (None, True, False, 'raise'):
                for after in (None, True, False, 'raise'):
                    for fail_first in (0, 1, 9):
                        for stubborn in (False, True):
                            for listed in ((), (1,), (1, 2)):
                                yield {'status': status, 'before_spawn': before, 'after_spawn': after,
                                       'exec_failures': fail_first, 'stubborn': stubborn,
                                       'listed_wids': list(listed), 'numprocesses': 2}

    def run(self, inp):
        import circus.watcher as W
        from tornado import concurrent
        k = FakeKernel()
        created = []
        attempts = [0]

        def proc_factory(name, wid, cmd, **kw):
            attempts[0] += 1
            if attempts[0] <= inp['exec_failures']:
                raise OSError(2, 'exec failed')
            p = FakeProcess(k, 5000 + len(created), delay_after_stop=None if inp['stubborn'] else 0.0)
            p.wid = wid
            p.started = k.now
            p.redirected = False
            created.append(p)
            return p

        class TW(W.Watcher):
            @property
            def _process_class(self):
                return proc_factory
        w = TW('replay', 'sleep 1', numprocesses=inp['numprocesses'], graceful_timeout=0.3)
        events = []
        w.notify_event = lambda topic, msg: events.append((topic, dict(msg)))

        def mk(outcome):
            def hook(**kw):
                if outcome == 'raise':
                    raise RuntimeError('hook')
                return outcome
            return hook
        for hname in ('before_spawn', 'after_spawn'):
            if inp[hname] is not None:
                w.hooks[hname] = mk(inp[hname])
        w._status = inp['status']
        for i, wid in enumerate(inp['listed_wids']):
            q = FakeProcess(k, 100 + i)
            q.wid = wid
            w.processes[q.pid] = q
        before = dict(w.processes)

        def vsleep(d):
            f = concurrent.Future()      # never resolved: the detached kill_process stays suspended
            return f
        saved = W.tornado_sleep
        W.tornado_sleep = vsleep
        obs = {}
        try:
            r = w.spawn_process()
            obs['result'] = r if isinstance(r, bool) else ('time' if isinstance(r, float) else repr(r))
        except Exception as e:
            obs['raised'] = type(e).__name__
        finally:
            W.tornado_sleep = saved
        obs['created'] = [(p.pid, p.wid, p._alive()) for p in created]
        obs['listed'] = sorted(w.processes)
        obs['before'] = sorted(before)
        obs['spawn_events'] = [m.get('process_pid') for t, m in events if t == 'spawn']
        obs['wids'] = sorted(p.wid for p in w.processes.values())
        obs['leaked'] = [p.pid for p in created if p._alive() and p.pid not in w.processes]
        return obs

    def check(self, inp, obs):
        bad = set()
        if 'raised' in obs:
            return set(['noescape']) if obs['raised'] != 'RuntimeError' else set()
        r = obs['result']
        if inp['status'] == 'stopped':
            if r is not True or obs['created'] or obs['listed'] != obs['before']:
                bad.add('post[0]')
            return bad
        if len(obs['created']) > 1:
            bad.add('post[1]')
        if r == 'time':
            new = [p for p in obs['listed'] if p not in obs['before']]
            if len(new) != 1 or len(obs['created']) != 1 or new[0] != obs['created'][0][0]:
                bad.add('post[3]')
            if len(set(obs['wids'])) != len(obs['wids']) or any(x < 1 for x in obs['wids']):
                bad.add('post[6]')
            if obs['spawn_events'] != new:
                bad.add('post[10]')
        else:
            if obs['listed'] != obs['before']:
                bad.add('post[7]')
            if obs['spawn_events']:
                bad.add('post[11]')
        if inp['before_spawn'] in (False, 'raise') and (r is not False or obs['created']):
            bad.add('post[9]')
        if obs['leaked']:
            bad.add('post[accounted]')       # a live child that no watcher lists
        return bad
