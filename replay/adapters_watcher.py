import itertools
from replay.adapters import register, scal, arr, nested


class Stub(object):
    def __init__(self, **kw):
        self.__dict__.update(kw)


def bare_watcher(**attrs):
    from circus.watcher import Watcher
    w = Watcher.__new__(Watcher)
    w.__dict__.update(attrs)
    return w


@register('circus.watcher:Watcher._nextwid')
class NextWid(object):
    def from_model(self, m):
        s = scal(m, 'in.self')
        np = arr(m, 'H.Watcher.numprocesses.0', s, 0)
        keys = nested(m, 'H.Watcher.processes.0', s)
        vals = nested(m, 'H.Watcher.processes.1', s)
        wids = []
        for k, has in keys.items():
            if has is True:
                wids.append(arr(m, 'H.Process.wid.0', vals.get(k), 0))
        yield {'numprocesses': np, 'wids': wids}

    def enumerate(self):
        for np in range(0, 4):
            for n in range(0, 2 * np + 2):
                for wids in itertools.combinations(range(0, 2 * np + 2), n):
                    yield {'numprocesses': np, 'wids': list(wids)}

    def run(self, inp):
        w = bare_watcher(numprocesses=inp['numprocesses'],
                         processes=dict((100 + i, Stub(wid=x, pid=100 + i)) for i, x in enumerate(inp['wids'])))
        try:
            return {'result': w._nextwid}
        except Exception as e:
            return {'raised': type(e).__name__}

    def check(self, inp, obs):
        np, wids = inp['numprocesses'], set(inp['wids'])
        bad = set()
        if 'result' in obs:
            r = obs['result']
            if not r >= 1:
                bad.add('post[0]')
            if not r <= 2 * np:
                bad.add('post[1]')
            if r in wids:
                bad.add('post[2]')
            if not all(y in wids for y in range(1, r)):
                bad.add('post[3]')
        elif obs.get('raised') == 'RuntimeError':
            if not all(y in wids for y in range(1, 2 * np + 1)):
                bad.add('raises[RuntimeError][0]')
        else:
            bad.add('noescape')
        return bad


# ---------------------------------------------------------------------------- kill_process (C03)
class FakeKernel(object):
    def __init__(self):
        self.now = 0.0
        self.signals = []      # (pid, signum, time, how)


class FakeProcess(object):
    """double for circus.process.Process at the psutil boundary, driven by a virtual clock"""

    def __init__(self, kernel, pid, dies_at=None, delay_after_stop=None, stop_signals=(15,), kids=()):
        self.k = kernel
        self.pid = pid
        self.wid = 1
        self.stopping = False
        self.dies_at = dies_at
        self.delay_after_stop = delay_after_stop
        self.stop_signals = stop_signals
        self.kids = list(kids)
        self.closed = False
        self.started = 0
        self.polls = []
        self.reaped = False

    def _alive(self):
        return self.dies_at is None or self.k.now < self.dies_at

    def is_alive(self):
        a = self._alive()
        self.polls.append((self.k.now, a))
        if not a:
            self.reaped = True      # poll() reaps the zombie
        return a

    def children(self, recursive=False):
        from psutil import NoSuchProcess
        if not self._alive() and self.reaped:
            raise NoSuchProcess(self.pid)
        return list(self.kids)

    def send_signal(self, sig):
        from psutil import NoSuchProcess
        if not self._alive() and self.reaped:
            raise NoSuchProcess(self.pid)
        # a dead but not yet reaped child (zombie) still accepts kill(2)
        self.k.signals.append((self.pid, int(sig), self.k.now, 'process' if self._alive() else 'zombie'))
        if int(sig) == 9:
            self.dies_at = self.k.now
        elif int(sig) in self.stop_signals and self.delay_after_stop is not None:
            t = self.k.now + self.delay_after_stop
            self.dies_at = t if self.dies_at is None else min(self.dies_at, t)

    def send_signal_child(self, pid, sig):
        self.k.signals.append((pid, int(sig), self.k.now, 'child'))

    def stop(self):
        self.closed = True


def real_watcher(**kw):
    from circus.watcher import Watcher
    w = Watcher('replay', 'sleep 1', **kw)
    return w


def run_coroutine(fn):
    from tornado import ioloop
    loop = ioloop.IOLoop.current()
    return loop.run_sync(fn)


@register('circus.watcher:Watcher.kill_process')
class KillProcess(object):
    def from_model(self, m):
        return []

    def enumerate(self):
        for g in (0.3, 0.0, 0.25, 1.0):
            for beh in ('obeys-fast', 'ignores', 'dies-late', 'dies-at-boundary', 'obeys-slow', 'dead-already'):
                for stop_children in (False, True):
                    for override in (None, 2):
                        yield {'g': g, 'behaviour': beh, 'stop_children': stop_children,
                               'override_signal': override, 'g_override': None}
        # per-request graceful_timeout overrides, shorter and longer than the configured one
        for g, go in ((1.0, 0.2), (30.0, 0.5), (0.2, 1.0), (0.0, 0.3), (1.0, 0.0), (5.0, 0)):     # 0 = SIGKILL at once
            for beh in ('ignores', 'obeys-fast', 'obeys-slow'):
                yield {'g': g, 'behaviour': beh, 'stop_children': False, 'override_signal': None,
                       'g_override': go}

    def run(self, inp):
        import circus.watcher as W
        from tornado import concurrent
        k = FakeKernel()
        g = inp['g']
        beh = inp['behaviour']
        sig = inp['override_signal']
        stop_sig = sig if sig is not None else 15
        kw = {}
        if inp.get('g_override') is not None:
            g = inp['g_override']
        if beh == 'obeys-fast':
            kw = {'delay_after_stop': 0.05}
        elif beh == 'obeys-slow':
            kw = {'delay_after_stop': g + 5}
        elif beh == 'dies-late':
            kw = {'dies_at': max(g - 0.05, 0.0)}       # exits by itself during the last polling step
        elif beh == 'dies-at-boundary':
            kw = {'dies_at': g}
        elif beh == 'dead-already':
            kw = {'dies_at': 0.0}
        p = FakeProcess(k, 4242, stop_signals=(stop_sig,), kids=(77,), **kw)
        w = real_watcher(graceful_timeout=inp['g'], stop_children=inp['stop_children'])
        w.processes = {p.pid: p}

        def vsleep(d):
            k.now += d
            f = concurrent.Future()
            f.set_result(None)
            return f
        saved = W.tornado_sleep
        W.tornado_sleep = vsleep
        obs = {}
        try:
            obs['result'] = run_coroutine(lambda: w.kill_process(p, stop_signal=sig,
                                                                 graceful_timeout=inp['g_override']))
        except Exception as e:
            obs['raised'] = type(e).__name__
        finally:
            W.tornado_sleep = saved
        obs['signals'] = [list(s) for s in k.signals]
        obs['polls'] = p.polls
        obs['end'] = k.now
        obs['dies_at'] = p.dies_at
        obs['stopping'] = p.stopping
        obs['closed'] = p.closed
        return obs

    def check(self, inp, obs):
        bad = set()
        if 'raised' in obs:
            return set(['noescape'])
        own = [s for s in obs['signals'] if s[0] == 4242]
        g = inp['g'] if inp['g_override'] is None else inp['g_override']
        want = inp['override_signal'] if inp['override_signal'] is not None else 15
        if not obs['result']:
            if own:
                bad.add('post[1]')
            return bad
        if len(own) < 1:
            bad.add('post[2]')
            return bad
        if own[0][1] != want:
            bad.add('post[3]')
        kids = [s for s in obs['signals'] if s[0] == 77 and s[1] == want]
        if inp['stop_children'] and not kids:
            bad.add('post[5]')
        if len(own) > 2:
            bad.add('post[6]')
        if len(own) == 2:
            if own[1][1] != 9:
                bad.add('post[7]')
            if own[1][2] < own[0][2] + g - 1e-9:
                bad.add('post[8]')
            if not (own[1][2] - own[0][2] < g + 0.1 + 1e-9):
                bad.add('post[9]')
            # SIGKILL only to a worker that was still alive when the timeout had elapsed
            if own[1][3] == 'zombie':
                bad.add('post[11]')
        if len(own) == 1:
            # no SIGKILL: the worker must have been seen dead
            if not any(not a for t, a in obs['polls']):
                bad.add('post[10]')
        if obs['stopping'] or not obs['closed']:
            bad.add('post[12]')
        return bad


# ---------------------------------------------------------------------------- reap_process
class ReapKernel(object):
    """child table behind os.waitpid(pid, WNOHANG) and time.sleep (virtual)"""
    def __init__(self, state, exit_status, polls_alive):
        self.state = state              # 'alive' | 'zombie' | 'notchild'
        self.exit_status = exit_status  # wait status it will report
        self.polls_alive = polls_alive  # how many more (0,0) answers before it becomes a zombie
        self.reaped = False
        self.calls = 0
        self.slept = 0.0

    def waitpid(self, pid, options):
        import errno
        self.calls += 1
        if self.calls > 200:
            raise RuntimeError('replay: waitpid polled 200 times')
        if self.state == 'notchild' or self.reaped:
            raise OSError(errno.ECHILD, 'No child processes')
        if self.state == 'alive':
            if self.polls_alive > 0:
                self.polls_alive -= 1
                return (0, 0)
            self.state = 'zombie'
        self.reaped = True
        return (pid, self.exit_status)

    def sleep(self, d):
        self.slept += d


def wdecode(s):
    return (s >> 8) & 0xff if s % 128 == 0 else -(s % 128)


@register('circus.watcher:Watcher.reap_process')
class ReapProcess(object):
    def from_model(self, m):
        return []

    def enumerate(self):
        for ours in (True, False):
            for status in (None, 0, 3 * 256, 9, 15, 255 * 256):
                for state, polls in (('alive', 1), ('alive', 3), ('zombie', 0), ('notchild', 0)):
                    for es in (0, 256, 9):
                        yield {'ours': ours, 'status': status, 'state': state, 'polls_alive': polls,
                               'exit_status': es, 'returncode': 7}

    def run(self, inp):
        import circus.watcher as W
        k = ReapKernel(inp['state'], inp['exit_status'], inp['polls_alive'])
        fk = FakeKernel()
        p = FakeProcess(fk, 4242)
        p.returncode = lambda: inp['returncode']
        p.status = 1        # DEAD_OR_ZOMBIE
        other = FakeProcess(fk, 4343)
        w = real_watcher()
        w.processes = {4343: other}
        if inp['ours']:
            w.processes[4242] = p
        events = []
        w.notify_event = lambda topic, msg: events.append((topic, dict(msg)))
        saved = (W.os.waitpid, W.time.sleep)

        class _OS(object):
            def __getattr__(self, n):
                return getattr(saved_os, n)
        saved_os, saved_time = W.os, W.time

        class OSP(object):
            waitpid = staticmethod(k.waitpid)

            def __getattr__(self, n):
                return getattr(saved_os, n)

        class TP(object):
            sleep = staticmethod(k.sleep)

            def __getattr__(self, n):
                return getattr(saved_time, n)
        W.os, W.time = OSP(), TP()
        obs = {}
        try:
            W.Watcher.reap_process(w, 4242, inp['status'])
        except Exception as e:
            obs['raised'] = type(e).__name__ + ': ' + str(e)
        finally:
            W.os, W.time = saved_os, saved_time
        obs['listed'] = sorted(w.processes)
        obs['reaps'] = [[m.get('process_pid'), m.get('exit_code')] for t, m in events if t == 'reap']
        obs['other_events'] = [t for t, m in events if t != 'reap']
        obs['child_left'] = (k.state != 'notchild') and not k.reaped      # still an unreaped child of ours
        obs['was_child'] = inp['state'] != 'notchild'
        obs['waitpid_calls'] = k.calls
        return obs

    def check(self, inp, obs):
        bad = set()
        if 'raised' in obs:
            return set(['noescape'])
        if not inp['ours']:
            if obs['reaps'] or obs['listed'] != [4343] or obs['waitpid_calls']:
                bad.add('post[0]')
            return bad
        if 4242 in obs['listed'] or len(obs['reaps']) != 1 or obs['reaps'][0][0] != 4242:
            bad.add('post[1]')
        if 4343 not in obs['listed']:
            bad.add('post[2]')
            bad.add('post[3]')
        if obs['reaps']:
            code = obs['reaps'][0][1]
            if inp['status'] is not None and code != wdecode(inp['status']):
                bad.add('post[4]')
            if inp['status'] is None and obs['was_child'] and code != wdecode(inp['exit_status']):
                bad.add('post[5]')
        if inp['status'] is None and obs['child_left']:
            bad.add('post[6]')
        return bad


# ---------------------------------------------------------------------------- spawn_process
@register('circus.watcher:Watcher.spawn_process')
class SpawnProcess(object):
    """real Watcher.spawn_process with the Process class replaced by a kernel double; hook outcomes,
    exec failures and worker behaviour are the inputs"""

    def from_model(self, m):
        return []

    def enumerate(self):
        for status in ('active', 'stopped', 'starting'):
            for before in (None, True, False, 'raise'):
                for after in (None, True, False, 'raise'):
                    for fail_first in (0, 1, 9):
                        for stubborn in (False, True):
                            for listed in ((), (1,), (1, 2)):
                                yield {'status': status, 'before_spawn': before, 'after_spawn': after,
                                       'exec_failures': fail_first, 'stubborn': stubborn,
                                       'listed_wids': list(listed), 'numprocesses': 2}

    def run(self, inp):
        import circus.watcher as W
        from tornado import concurrent
        k = FakeKernel()
        created = []
        attempts = [0]

        def proc_factory(name, wid, cmd, **kw):
            attempts[0] += 1
            if attempts[0] <= inp['exec_failures']:
                raise OSError(2, 'exec failed')
            p = FakeProcess(k, 5000 + len(created), delay_after_stop=None if inp['stubborn'] else 0.0)
            p.wid = wid
            p.started = k.now
            p.redirected = False
            created.append(p)
            return p

        class TW(W.Watcher):
            @property
            def _process_class(self):
                return proc_factory
        w = TW('replay', 'sleep 1', numprocesses=inp['numprocesses'], graceful_timeout=0.3)
        events = []
        w.notify_event = lambda topic, msg: events.append((topic, dict(msg)))

        def mk(outcome):
            def hook(**kw):
                if outcome == 'raise':
                    raise RuntimeError('hook')
                return outcome
            return hook
        for hname in ('before_spawn', 'after_spawn'):
            if inp[hname] is not None:
                w.hooks[hname] = mk(inp[hname])
        w._status = inp['status']
        for i, wid in enumerate(inp['listed_wids']):
            q = FakeProcess(k, 100 + i)
            q.wid = wid
            w.processes[q.pid] = q
        before = dict(w.processes)

        def vsleep(d):
            f = concurrent.Future()      # never resolved: the detached kill_process stays suspended
            return f
        saved = W.tornado_sleep
        W.tornado_sleep = vsleep
        obs = {}
        try:
            r = w.spawn_process()
            obs['result'] = r if isinstance(r, bool) else ('time' if isinstance(r, float) else repr(r))
        except Exception as e:
            obs['raised'] = type(e).__name__
        finally:
            W.tornado_sleep = saved
        obs['created'] = [(p.pid, p.wid, p._alive()) for p in created]
        obs['listed'] = sorted(w.processes)
        obs['before'] = sorted(before)
        obs['spawn_events'] = [m.get('process_pid') for t, m in events if t == 'spawn']
        obs['wids'] = sorted(p.wid for p in w.processes.values())
        obs['leaked'] = [p.pid for p in created if p._alive() and p.pid not in w.processes]
        return obs

    def check(self, inp, obs):
        bad = set()
        if 'raised' in obs:
            return set(['noescape']) if obs['raised'] != 'RuntimeError' else set()
        r = obs['result']
        if inp['status'] == 'stopped':
            if r is not True or obs['created'] or obs['listed'] != obs['before']:
                bad.add('post[0]')
            return bad
        if len(obs['created']) > 1:
            bad.add('post[1]')
        if r == 'time':
            new = [p for p in obs['listed'] if p not in obs['before']]
            if len(new) != 1 or len(obs['created']) != 1 or new[0] != obs['created'][0][0]:
                bad.add('post[3]')
            if len(set(obs['wids'])) != len(obs['wids']) or any(x < 1 for x in obs['wids']):
                bad.add('post[6]')
            if obs['spawn_events'] != new:
                bad.add('post[10]')
        else:
            if obs['listed'] != obs['before']:
                bad.add('post[7]')
            if obs['spawn_events']:
                bad.add('post[11]')
        if inp['before_spawn'] in (False, 'raise') and (r is not False or obs['created']):
            bad.add('post[9]')
        if obs['leaked']:
            bad.add('post[accounted]')       # a live child that no watcher lists
        return bad


# ---------------------------------------------------------------------------- call_hook
@register('circus.watcher:Watcher.call_hook')
class CallHook(object):
    """real Watcher.call_hook with real callables as hooks; events recorded at notify_event"""
    def from_model(self, m):
        return []

    def enumerate(self):
        for registered in (True, False):
            for outcome in ('true', 'false', 'raise', 'none'):
                for ignore in (False, True):
                    for name in ('before_start', 'after_spawn', 'before_stop', 'before_signal'):
                        yield {'hook_name': name, 'registered': registered, 'outcome': outcome, 'ignore': ignore}

    def run(self, inp):
        w = real_watcher()
        calls = []

        def hook(*a, **kw):
            calls.append(kw.get('hook_name'))
            if inp['outcome'] == 'raise':
                raise ValueError('hook failed')
            return {'true': True, 'false': False, 'none': None}[inp['outcome']]
        w.hooks = {inp['hook_name']: hook} if inp['registered'] else {}
        w.ignore_hook_failure = [inp['hook_name']] if inp['ignore'] else []
        events = []
        w.notify_event = lambda topic, msg: events.append(topic)
        obs = {}
        try:
            r = w.call_hook(inp['hook_name'], pid=1)
            obs['result'] = r if isinstance(r, (bool, type(None), int)) else repr(r)
        except Exception as e:
            obs['raised'] = type(e).__name__
        obs['calls'] = len(calls)
        obs['events'] = events
        return obs

    def check(self, inp, obs):
        bad = set()
        if 'raised' in obs:
            return set(['noescape'])
        if not inp['registered']:
            if obs['result'] is not True or obs['events']:
                bad.add('post[0]')
            return bad
        hook_events = [e for e in obs['events'] if e in ('hook_success', 'hook_failure')]
        if len(hook_events) != 1 or len(obs['events']) != 1:
            bad.add('post[1]')
            bad.add('post[2]')
        if hook_events and hook_events[-1] == 'hook_failure' and obs['result'] is not inp['ignore']:
            bad.add('post[4]')
        return bad


# ---------------------------------------------------------------------------- notify_event
@register('circus.watcher:Watcher.notify_event')
class NotifyEvent(object):
    """real Watcher.notify_event with a recording PUB socket"""
    def from_model(self, m):
        return []

    def enumerate(self):
        for topic in ('spawn', 'reap', 'kill', 'start', 'stop', 'hook_success', 'updated'):
            for msg in ({'time': 1.5}, {'process_pid': 12, 'time': 2}, {'process_pid': 7, 'exit_code': -9, 'time': 0}):
                for sock in ('open', 'closed', 'none'):
                    yield {'topic': topic, 'msg': msg, 'socket': sock, 'name': 'web.App'}

    def run(self, inp):
        import json
        w = real_watcher()
        w.name = inp['name']
        w.res_name = inp['name'].lower().replace(' ', '_')
        sent = []

        class Sock(object):
            closed = inp['socket'] == 'closed'

            def send_multipart(self, parts):
                sent.append(list(parts))
        w.evpub_socket = None if inp['socket'] == 'none' else Sock()
        obs = {}
        try:
            w.notify_event(inp['topic'], dict(inp['msg']))
        except Exception as e:
            obs['raised'] = type(e).__name__
        obs['n'] = len(sent)
        if sent:
            obs['topic'] = sent[0][0].decode('utf8')
            obs['body'] = json.loads(sent[0][1])
            obs['frames'] = len(sent[0])
        obs['res_name'] = w.res_name
        return obs

    def check(self, inp, obs):
        bad = set()
        if 'raised' in obs:
            return set(['noescape'])
        if inp['socket'] != 'open':
            if obs['n']:
                bad.add('post[2]')
            return bad
        if obs['n'] != 1:
            bad.add('post[0]')
            return bad
        if obs['topic'] != 'watcher.%s.%s' % (obs['res_name'], inp['topic']):
            bad.add('post[wire-topic]')
        if obs['body'] != inp['msg'] or obs['frames'] != 2:
            bad.add('post[wire-body-is-the-message]')
        return bad


# ---------------------------------------------------------------------------- Process.spawn
@register('circus.process:Process.spawn')
class ProcessSpawn(object):
    """real Process.spawn with psutil.Popen replaced by a recorder (nothing is executed)"""
    def from_model(self, m):
        return []

    def enumerate(self):
        for use_fds in (False, True):
            for pipes in ((True, True), (False, True), (False, False)):
                for wd in ('/tmp', None):
                    for env in ({'A': 'b'}, {}):
                        yield {'use_fds': use_fds, 'pipe_stdout': pipes[0], 'pipe_stderr': pipes[1],
                               'working_dir': wd, 'env': env, 'shell': False}

    def run(self, inp):
        import circus.process as P
        calls = []

        class FakePopen(object):
            pid = 4242

            def __init__(self, args, **kw):
                calls.append((list(args), dict((k, v) for k, v in kw.items() if k != 'preexec_fn')))
        p = P.Process.__new__(P.Process)
        p.name = 'x'
        p.wid = 1
        p.cmd = 'sleep 1'
        p.args = ['2']
        p.working_dir = inp['working_dir']
        p.shell = inp['shell']
        p.env = inp['env']
        p.use_fds = inp['use_fds']
        p.executable = None
        p.pipe_stdout = inp['pipe_stdout']
        p.pipe_stderr = inp['pipe_stderr']
        p.close_child_stdin = p.close_child_stdout = p.close_child_stderr = False
        p.uid = p.gid = None
        p.rlimits = {}
        p.watcher = None
        p._sockets = []
        p.username = None
        saved = P.Popen
        P.Popen = FakePopen
        obs = {}
        try:
            expected = p.format_args(sockets_fds=None)
            p.spawn()
        except Exception as e:
            obs['raised'] = type(e).__name__
        finally:
            P.Popen = saved
        obs['calls'] = [[a, dict((k, (v if isinstance(v, (int, str, bool, type(None), dict)) else repr(v)))
                                 for k, v in kw.items())] for a, kw in calls]
        obs['expected_argv'] = expected if 'raised' not in obs else None
        return obs

    def check(self, inp, obs):
        bad = set()
        if 'raised' in obs:
            return set(['noescape'])
        if len(obs['calls']) != 1:
            bad.add('post[one-exec]')
            return bad
        argv, kw = obs['calls'][0]
        if argv != obs['expected_argv']:
            bad.add('post[argv-is-format-args]')
        if kw.get('cwd') != inp['working_dir']:
            bad.add('post[configured-cwd]')
        if kw.get('env') != inp['env']:
            bad.add('post[configured-env]')
        if kw.get('close_fds') is not (not inp['use_fds']):
            bad.add('post[no-fd-leak-without-use-fds]')
        if kw.get('shell') != inp['shell']:
            bad.add('post[shell-and-executable]')
        if (kw.get('stdout') == -1) != inp['pipe_stdout'] or (kw.get('stderr') == -1) != inp['pipe_stderr']:
            bad.add('post[pipes-as-configured]')
        return bad


# ---------------------------------------------------------------------------- Watcher.reap_processes
@register('circus.watcher:Watcher.reap_processes')
class WatcherReapProcesses(object):
    """real Watcher.reap_processes over fake workers; real reap_process with waitpid answered from a fake child table"""
    def from_model(self, m):
        return []

    def enumerate(self):
        for status in ('active', 'stopping', 'stopped'):
            for n in (0, 1, 3):
                for stopping in ('none', 'first', 'all'):
                    yield {'status': status, 'n': n, 'stopping': stopping}

    def run(self, inp):
        import circus.watcher as W
        import errno
        fk = FakeKernel()
        w = real_watcher()
        w._status = inp['status']
        procs = {}
        for i in range(inp['n']):
            p = FakeProcess(fk, 500 + i, dies_at=0.0)
            p.status = 1
            p.returncode = lambda: 0
            p.stopping = (inp['stopping'] == 'all') or (inp['stopping'] == 'first' and i == 0)
            procs[p.pid] = p
        w.processes = dict(procs)
        events = []
        w.notify_event = lambda topic, msg: events.append((topic, msg.get('process_pid')))
        reaped = set()

        def fake_waitpid(pid, options):
            if pid in reaped or pid not in procs:
                raise OSError(errno.ECHILD, 'No child processes')
            reaped.add(pid)
            return (pid, 0)
        saved_os = W.os

        class OSP(object):
            waitpid = staticmethod(fake_waitpid)

            def __getattr__(self, n):
                return getattr(saved_os, n)
        W.os = OSP()
        obs = {}
        try:
            w.reap_processes()
        except Exception as e:
            obs['raised'] = type(e).__name__
        finally:
            W.os = saved_os
        obs['listed'] = sorted(w.processes)
        obs['reap_events'] = sorted(p for t, p in events if t == 'reap')
        obs['unreaped'] = sorted(set(procs) - reaped)
        return obs

    def check(self, inp, obs):
        bad = set()
        if 'raised' in obs:
            return set(['noescape'])
        pids = [500 + i for i in range(inp['n'])]
        if inp['status'] == 'stopped':
            if obs['listed'] != pids or obs['reap_events']:
                bad.add('post[0]')
            return bad
        if obs['listed'] or obs['reap_events'] != pids:
            bad.add('post[1]')
        if obs['unreaped']:
            bad.add('post[2]')
        return bad


# ---------------------------------------------------------------------------- Watcher.send_signal
@register('circus.watcher:Watcher.send_signal')
class WatcherSendSignal(object):
    def from_model(self, m):
        return []

    def enumerate(self):
        for signum in (15, 9, 1):
            for hook in ('none', 'true', 'false', 'raise'):
                for listed in (True, False):
                    yield {'signum': signum, 'hook': hook, 'listed': listed}

    def run(self, inp):
        fk = FakeKernel()
        w = real_watcher()
        p = FakeProcess(fk, 4242)
        if inp['listed']:
            w.processes = {4242: p}

        def hook(*a, **kw):
            if inp['hook'] == 'raise':
                raise ValueError('no')
            return inp['hook'] == 'true'
        w.hooks = {} if inp['hook'] == 'none' else {'before_signal': hook}
        w.notify_event = lambda topic, msg: None
        obs = {}
        try:
            w.send_signal(4242, inp['signum'])
        except Exception as e:
            obs['raised'] = type(e).__name__
        obs['signals'] = [list(s[:2]) for s in fk.signals]
        return obs

    def check(self, inp, obs):
        bad = set()
        if 'raised' in obs:
            return set(['noescape'])
        sigs = obs['signals']
        if not inp['listed']:
            if sigs:
                bad.add('post[0]')
            return bad
        if len(sigs) > 1:
            bad.add('post[1]')
        if sigs and sigs[0] != [4242, inp['signum']]:
            bad.add('post[2]')
        # before_signal is in ignore_hook_failure by default: a raising hook counts as true
        gate = inp['hook'] in ('none', 'true', 'raise')
        want = inp['signum'] == 9 or gate
        if bool(sigs) != want:
            bad.add('post[3]')
        return bad
