import itertools
from replay.adapters import register, scal, arr, nested


class Stub(object):
    def __init__(self, **kw):
        self.__dict__.update(kw)


def bare_watcher(**attrs):
    from circus.watcher import Watcher
    w = Watcher.__new__(Watcher)
    w.__dict__.update(attrs)
    return w


@register('circus.watcher:Watcher._nextwid')
class NextWid(object):
    def from_model(self, m):
        s = scal(m, 'in.self')
        np = arr(m, 'H.Watcher.numprocesses.0', s, 0)
        keys = nested(m, 'H.Watcher.processes.0', s)
        vals = nested(m, 'H.Watcher.processes.1', s)
        wids = []
        for k, has in keys.items():
            if has is True:
                wids.append(arr(m, 'H.Process.wid.0', vals.get(k), 0))
        yield {'numprocesses': np, 'wids': wids}

    def enumerate(self):
        for np in range(0, 4):
            for n in range(0, 2 * np + 2):
                for wids in itertools.combinations(range(0, 2 * np + 2), n):
                    yield {'numprocesses': np, 'wids': list(wids)}

    def run(self, inp):
        w = bare_watcher(numprocesses=inp['numprocesses'],
                         processes=dict((100 + i, Stub(wid=x, pid=100 + i)) for i, x in enumerate(inp['wids'])))
        try:
            return {'result': w._nextwid}
        except Exception as e:
            return {'raised': type(e).__name__}

    def check(self, inp, obs):
        np, wids = inp['numprocesses'], set(inp['wids'])
        bad = set()
        if 'result' in obs:
            r = obs['result']
            if not r >= 1:
                bad.add('post[0]')
            if not r <= 2 * np:
                bad.add('post[1]')
            if r in wids:
                bad.add('post[2]')
            if not all(y in wids for y in range(1, r)):
                bad.add('post[3]')
        elif obs.get('raised') == 'RuntimeError':
            if not all(y in wids for y in range(1, 2 * np + 1)):
                bad.add('raises[RuntimeError][0]')
        else:
            bad.add('noescape')
        return bad
