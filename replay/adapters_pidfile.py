"""C08 adapters: the real Pidfile on a scratch directory; os.kill(pid, 0) answered from a fake process table."""
import os
import shutil
import tempfile
from replay.adapters import register

LIVE = {4242: 'ours', 5555: 'other'}


def fake_kill(pid, sig):
    import errno
    if sig != 0:
        raise RuntimeError('replay: pidfile code sent a real signal')
    if pid < 0:
        return          # kill(-1, 0) / kill(-pgid, 0): "some process in that group / any process" exists
    if pid not in LIVE:
        raise OSError(errno.ESRCH, 'No such process')


def says(content):
    if content is None:
        return None
    if content == '':
        return 0
    try:
        return int(content)
    except ValueError:
        return 'garbled'


class _Pid(object):
    contents = [None, '', '\n', 'abc', '12x', '0', '-7', '-1', ' -1 ', '4242', '4242\n', ' 4242 ', '5555\n', '7777\n', '99999999999\n']

    def from_model(self, m):
        return []

    def setup(self, inp):
        import circus.pidfile as P
        d = tempfile.mkdtemp(prefix='replay_pid_')
        path = os.path.join(d, 'circus.pid')
        if inp['content'] is not None:
            with open(path, 'w') as f:
                f.write(inp['content'])
        pf = P.Pidfile(path)
        pf.pid = 4242
        return P, d, path, pf

    def read(self, path):
        try:
            with open(path) as f:
                return f.read()
        except IOError:
            return None


@register('circus.pidfile:Pidfile.validate')
class PidValidate(_Pid):
    def enumerate(self):
        for c in self.contents:
            yield {'content': c}

    def run(self, inp):
        P, d, path, pf = self.setup(inp)
        saved = P.os.kill
        P.os.kill = fake_kill
        obs = {}
        try:
            obs['result'] = pf.validate()
        except Exception as e:
            obs['raised'] = type(e).__name__
        finally:
            P.os.kill = saved
        obs['after'] = self.read(path)
        shutil.rmtree(d, ignore_errors=True)
        return obs

    def check(self, inp, obs):
        bad = set()
        if 'raised' in obs:
            return set(['noescape'])
        n = says(inp['content'])
        live = isinstance(n, int) and n > 0 and n in LIVE
        if live and obs['result'] != n:
            bad.add('post[live-pid-reported]')
        if not live and obs['result'] is not None:
            bad.add('post[stale-is-none]')
        if obs['after'] != inp['content']:
            bad.add('post[2]')
        return bad


@register('circus.pidfile:Pidfile.create')
class PidCreate(_Pid):
    def enumerate(self):
        for c in self.contents:
            yield {'content': c, 'pid': 4242}

    def run(self, inp):
        P, d, path, pf = self.setup(inp)
        saved = P.os.kill
        P.os.kill = fake_kill
        obs = {}
        try:
            pf.create(inp['pid'])
        except Exception as e:
            obs['raised'] = type(e).__name__
        finally:
            P.os.kill = saved
        obs['after'] = self.read(path)
        shutil.rmtree(d, ignore_errors=True)
        return obs

    def check(self, inp, obs):
        bad = set()
        n = says(inp['content'])
        live = isinstance(n, int) and n > 0 and n in LIVE
        other = live and n != inp['pid']
        if 'raised' in obs:
            if obs['raised'] != 'RuntimeError':
                return set(['noescape'])
            if obs['after'] != inp['content']:
                bad.add('raises[RuntimeError][0]')
            if not other:
                bad.add('raises[RuntimeError][1]')
            return bad
        if other:
            bad.add('post[not-another-live-daemon]')
        if live and not other and obs['after'] != inp['content']:
            bad.add('post[own-pid-kept]')
        if not live and obs['after'] != '%d\n' % inp['pid']:
            bad.add('post[written]')
        return bad


@register('circus.pidfile:Pidfile.unlink')
class PidUnlink(_Pid):
    def enumerate(self):
        for c in self.contents:
            yield {'content': c}

    def run(self, inp):
        P, d, path, pf = self.setup(inp)
        obs = {}
        try:
            pf.unlink()
        except Exception as e:
            obs['raised'] = type(e).__name__
        obs['after'] = self.read(path)
        shutil.rmtree(d, ignore_errors=True)
        return obs

    def check(self, inp, obs):
        bad = set()
        if 'raised' in obs:
            return set(['noescape'])
        if inp['content'] is None:
            return bad
        n = says(inp['content'])
        ours = n == 'garbled' or n == 4242
        if ours and obs['after'] is not None:
            bad.add('post[removed-iff-ours]')
        if not ours and obs['after'] != inp['content']:
            bad.add('post[foreign-kept]')
        return bad
