"""C17 adapters: the real Redirector.Handler on real pipes (os.pipe), with a recording loop and stream."""
import os
from replay.adapters import register


class RecLoop(object):
    def __init__(self):
        self.handlers = {}

    def add_handler(self, fd, h, ev):
        self.handlers[fd] = h

    def remove_handler(self, fd):
        self.handlers.pop(fd, None)


def make():
    from circus.stream.redirector import Redirector
    got = {'stdout': [], 'stderr': []}
    loop = RecLoop()
    r = Redirector(lambda d: got['stdout'].append(dict(d)), lambda d: got['stderr'].append(dict(d)), buffer=8, loop=loop)
    return r, loop, got


class FakeProc(object):
    def __init__(self, pid):
        self.pid = pid


@register('circus.stream.redirector:Redirector.Handler.__call__')
class HandlerCall(object):
    def from_model(self, m):
        return []

    def enumerate(self):
        for chan in ('stdout', 'stderr'):
            for data in ('', 'a', 'hello', '0123456789abcdef'):
                for events in (1, 0, 24, 4, 25, 5):
                    for closed in (False, True):
                        yield {'channel': chan, 'data': data, 'events': events, 'writer_closed': closed}
            # the channel's stream is reconfigured (Redirector.change_stream, reached from `set stdout_stream.*`) while the
            # worker's pipe is already being watched: later output belongs to the stream configured NOW
            for data in ('a', 'hello'):
                yield {'channel': chan, 'data': data, 'events': 1, 'writer_closed': False, 'restreamed': True}

    def run(self, inp):
        r, loop, got = make()
        rfd, wfd = os.pipe()
        os.set_blocking(rfd, False)
        obs = {}
        try:
            if inp['data']:
                os.write(wfd, inp['data'].encode())
            if inp['writer_closed']:
                os.close(wfd)
                wfd = None
            p = FakeProc(4242)
            r.pipes[rfd] = (inp['channel'], p, None)
            r._start_one(rfd, inp['channel'], p, None)
            h = r._active[rfd]
            if inp.get('restreamed'):
                got['new'] = []
                r.change_stream(inp['channel'], lambda d: got['new'].append(dict(d)))
            try:
                h(rfd, inp['events'])
            except Exception as e:
                obs['raised'] = type(e).__name__
            obs['delivered'] = dict((k, [[d['pid'], d['name'], d['data'].decode()] for d in v]) for k, v in got.items())
            obs['active'] = rfd in r._active
            obs['watched'] = rfd in loop.handlers
            obs['in_pipes'] = rfd in r.pipes
        finally:
            os.close(rfd)
            if wfd is not None:
                os.close(wfd)
        return obs

    def check(self, inp, obs):
        bad = set()
        if 'raised' in obs:
            return set(['noescape'])
        readable = inp['events'] % 2 == 1
        chan = inp['channel']
        other = 'stderr' if chan == 'stdout' else 'stdout'
        d = obs['delivered']
        chunk = inp['data'][:8]
        if inp.get('restreamed'):
            if d[chan] or d['new'] != [[4242, chan, chunk]]:
                bad.add('post[chunk-delivered-once-labelled]')
            return bad
        if d[other]:
            bad.add('post[chunk-delivered-once-labelled]')
        if not readable:
            if d[chan]:
                bad.add('post[0]')
            if inp['events'] == 24 and (obs['active'] or obs['watched']):
                bad.add('post[1]')
            return bad
        if chunk:
            if d[chan] != [[4242, chan, chunk]]:
                bad.add('post[chunk-delivered-once-labelled]')
        else:
            if inp['writer_closed']:
                if d[chan] or obs['active'] or obs['watched'] or obs['in_pipes']:
                    bad.add('post[eof-stops-watching]')
            else:
                if d[chan] or not obs['active'] or not obs['watched']:
                    bad.add('post[eagain-is-harmless]')
        return bad


@register('circus.stream.redirector:Redirector.stop')
class RedirStop(object):
    def from_model(self, m):
        return []

    def enumerate(self):
        for n in (0, 1, 3):
            for started in (True, False):
                yield {'n': n, 'started': started}

    def run(self, inp):
        r, loop, got = make()
        for i in range(inp['n']):
            r.pipes[100 + i] = ('stdout', FakeProc(1), None)
        if inp['started']:
            r.start()
        before = len(r._active)
        res = r.stop()
        return {'result': res, 'before': before, 'active': len(r._active), 'watched': len(loop.handlers), 'running': r.running}

    def check(self, inp, obs):
        bad = set()
        if obs['active'] or obs['watched']:
            bad.add('post[nothing-watched]')
            bad.add('post[3]')
        if obs['running']:
            bad.add('post[1]')
        if obs['result'] != obs['before']:
            bad.add('post[4]')
        return bad


@register('circus.stream.redirector:Redirector.start')
class RedirStart(object):
    def from_model(self, m):
        return []

    def enumerate(self):
        for n in (0, 1, 3):
            yield {'n': n}

    def run(self, inp):
        r, loop, got = make()
        for i in range(inp['n']):
            r.pipes[100 + i] = ('stderr', FakeProc(1), None)
        res = r.start()
        return {'result': res, 'active': sorted(r._active), 'watched': sorted(loop.handlers), 'running': r.running,
                'names': sorted(set(h.name for h in r._active.values()))}

    def check(self, inp, obs):
        bad = set()
        want = [100 + i for i in range(inp['n'])]
        if obs['active'] != want or obs['watched'] != want:
            bad.add('post[every-pipe-watched]')
            bad.add('post[0]')
        if not obs['running']:
            bad.add('post[2]')
        return bad


class FakePipe(object):
    def __init__(self, fd):
        self.fd = fd

    def fileno(self):
        return self.fd


class PipedProc(object):
    def __init__(self, pid, out_fd, err_fd):
        self.pid = pid
        self.pipe_stdout = out_fd is not None
        self.pipe_stderr = err_fd is not None
        self.stdout = FakePipe(out_fd) if out_fd is not None else None
        self.stderr = FakePipe(err_fd) if err_fd is not None else None
        self.redirected = False


@register('circus.stream.redirector:Redirector.add_redirections')
class AddRedirections(object):
    """a new worker generation whose pipes reuse descriptor numbers still watched for the previous one"""
    def from_model(self, m):
        return []

    def enumerate(self):
        for running in (True, False):
            for stale in ('none', 'active-handler', 'pipes-entry-only'):
                for fds in ((6, 8), (6, None), (None, 8)):
                    yield {'running': running, 'stale': stale, 'fds': list(fds)}

    def run(self, inp):
        r, loop, got = make()
        old = PipedProc(111, *inp['fds'])
        new = PipedProc(222, *inp['fds'])
        if inp['running']:
            r.start()
        if inp['stale'] != 'none':
            for name, fd in (('stdout', inp['fds'][0]), ('stderr', inp['fds'][1])):
                if fd is None:
                    continue
                r.pipes[fd] = (name, old, None)
                if inp['stale'] == 'active-handler':
                    r._start_one(fd, name, old, None)
        obs = {}
        try:
            r.add_redirections(new)
        except Exception as e:
            obs['raised'] = type(e).__name__
        fds = [f for f in inp['fds'] if f is not None]
        obs['handler_pids'] = dict((str(f), r._active[f].process.pid) for f in fds if f in r._active)
        obs['watched'] = sorted(loop.handlers)
        obs['pipes_pids'] = dict((str(f), r.pipes[f][1].pid) for f in fds if f in r.pipes)
        obs['redirected'] = new.redirected
        return obs

    def check(self, inp, obs):
        bad = set()
        if 'raised' in obs:
            return set(['noescape'])
        fds = [f for f in inp['fds'] if f is not None]
        for f in fds:
            hp = obs['handler_pids'].get(str(f))
            if hp is not None and hp != 222:
                bad.add('post[no-stale-handler-on-a-reused-fd]')
                bad.add('post[new-generation-gets-its-own-handler]')
            if inp['running'] and (hp is None or f not in obs['watched']):
                bad.add('post[watched-when-running]')
            if obs['pipes_pids'].get(str(f)) != 222:
                bad.add('post[no-stale-handler-on-a-reused-fd]')
        if not obs['redirected']:
            bad.add('post[1]')
        return bad
