"""C18 confinement adapters: the real Process / Watcher / Signal / Kill code over fake psutil handles.
Direct os.kill / os.killpg calls of the code under replay are intercepted (never delivered) and counted as signals."""
import os
from replay.adapters import register


class KillTrap(object):
    """every os.kill / os.killpg inside the block is recorded into `log` instead of being delivered"""
    def __init__(self, log):
        self.log = log

    def __enter__(self):
        self.saved = (os.kill, getattr(os, 'killpg', None))
        os.kill = lambda pid, sig: self.log.append((pid, int(sig)))
        if self.saved[1] is not None:
            os.killpg = lambda pg, sig: self.log.append((-pg, int(sig)))
        return self

    def __exit__(self, *a):
        os.kill = self.saved[0]
        if self.saved[1] is not None:
            os.killpg = self.saved[1]
        return False


class FakeWorker(object):
    """psutil.Process double: a pid, children, and send_signal recording into a shared log"""
    def __init__(self, log, pid, kids=(), gone=False):
        self.log = log
        self.pid = pid
        self.kids = list(kids)
        self.gone = gone

    def children(self, recursive=False):
        out = list(self.kids)
        if recursive:
            for k in self.kids:
                out += k.children(True)
        return out

    def send_signal(self, sig):
        import psutil
        if self.gone:
            raise psutil.NoSuchProcess(self.pid)
        self.log.append((self.pid, int(sig)))

    def status(self):
        return 'running'

    def is_running(self):
        return True


def descendants(w):
    out = set()
    for k in w.kids:
        out.add(k.pid)
        out |= descendants(k)
    return out


def real_process(log, pid, kids):
    from circus.process import Process
    p = Process.__new__(Process)
    p.wid = 1
    p.name = 'x'
    p.started = 0
    p._worker = FakeWorker(log, pid, kids)
    p.stopping = False
    return p


def world():
    """two watchers; w1 workers 100 (children 101 -> 111, 102) and 200; w2 worker 300 (child 301); 999 unrelated"""
    from replay.adapters_watcher import real_watcher
    log = []
    k111 = FakeWorker(log, 111)
    k101 = FakeWorker(log, 101, [k111])
    k102 = FakeWorker(log, 102)
    k301 = FakeWorker(log, 301)
    w1 = real_watcher()
    w1.name = 'w1'
    w1.processes = {100: real_process(log, 100, [k101, k102]), 200: real_process(log, 200, [])}
    w2 = real_watcher()
    w2.name = 'W2'
    w2.processes = {300: real_process(log, 300, [k301])}
    return log, w1, w2


@register('circus.process:Process.send_signal_child')
class ProcSendSignalChild(object):
    def from_model(self, m):
        return []

    def enumerate(self):
        for pid in (101, 102, 111, 100, 300, 301, 999, 1, 0, -1):
            for sig in (15, 9, 1):
                yield {'pid': pid, 'signum': sig}

    def run(self, inp):
        log, w1, w2 = world()
        p = w1.processes[100]
        obs = {}
        try:
          with KillTrap(log):
            p.send_signal_child(inp['pid'], inp['signum'])
        except Exception as e:
            obs['raised'] = type(e).__name__
        obs['signals'] = [list(x) for x in log]
        return obs

    def check(self, inp, obs):
        bad = set()
        sigs = obs['signals']
        if 'raised' in obs:
            if sigs:
                bad.add('raises[%s][1]' % obs['raised'])
            if obs['raised'] not in ('NoSuchProcess', 'OSError'):
                bad.add('noescape')
            return bad
        if len(sigs) != 1:
            bad.add('post[1]')
        if sigs and sigs[-1] != [inp['pid'], inp['signum']]:
            bad.add('post[2]')
        if inp['pid'] not in (101, 102):
            bad.add('post[only-a-child]')
        return bad


@register('circus.process:Process.send_signal_children')
class ProcSendSignalChildren(object):
    def from_model(self, m):
        return []

    def enumerate(self):
        for rec in (False, True):
            for sig in (15, 9):
                yield {'recursive': rec, 'signum': sig}

    def run(self, inp):
        log, w1, w2 = world()
        obs = {}
        try:
          with KillTrap(log):
            w1.processes[100].send_signal_children(inp['signum'], inp['recursive'])
        except Exception as e:
            obs['raised'] = type(e).__name__
        obs['signals'] = [list(x) for x in log]
        return obs

    def check(self, inp, obs):
        bad = set()
        allowed = set([101, 102, 111])
        for pid, sig in obs['signals']:
            if pid not in allowed or sig != inp['signum']:
                bad.add('post[only-children]')
                bad.add('raises[NoSuchProcess][2]')
                bad.add('raises[OSError][2]')
        return bad


class _WatcherLevel(object):
    def from_model(self, m):
        return []


@register('circus.watcher:Watcher.send_signal_child')
class WatcherSendSignalChild(_WatcherLevel):
    def enumerate(self):
        for pid in (100, 200, 300, 999):
            for child in (101, 102, 111, 301, 300, 999, '101', 'x', None):
                yield {'pid': pid, 'child_id': child, 'signum': 15}

    def run(self, inp):
        log, w1, w2 = world()
        obs = {}
        try:
          with KillTrap(log):
            w1.send_signal_child(inp['pid'], inp['child_id'], inp['signum'])
        except Exception as e:
            obs['raised'] = type(e).__name__
        obs['signals'] = [list(x) for x in log]
        return obs

    def check(self, inp, obs):
        bad = set()
        kids = {100: (101, 102), 200: ()}
        sigs = obs['signals']
        if 'raised' in obs:
            if sigs:
                bad.add('raises[*][0]')
                bad.add('raises[KeyError][0]')
            return bad
        if len(sigs) > 1:
            bad.add('post[2]')
        for pid, sig in sigs:
            if sig != inp['signum'] or pid not in kids.get(inp['pid'], ()):
                bad.add('post[child-of-addressed-worker]')
        return bad


@register('circus.watcher:Watcher.send_signal_children')
class WatcherSendSignalChildren(_WatcherLevel):
    def enumerate(self):
        for pid in (100, 200, 300, 999):
            for rec in (False, True):
                yield {'pid': pid, 'recursive': rec, 'signum': 15}

    def run(self, inp):
        log, w1, w2 = world()
        obs = {}
        try:
          with KillTrap(log):
            w1.send_signal_children(inp['pid'], inp['signum'], recursive=inp['recursive'])
        except Exception as e:
            obs['raised'] = type(e).__name__
        obs['signals'] = [list(x) for x in log]
        return obs

    def check(self, inp, obs):
        bad = set()
        desc = {100: (101, 102, 111), 200: ()}
        for pid, sig in obs['signals']:
            if sig != inp['signum'] or pid not in desc.get(inp['pid'], ()):
                bad.add('post[children-of-addressed-worker]')
                bad.add('raises[*][1]')
                bad.add('raises[KeyError][0]')
        return bad


class StubArbiter(object):
    def __init__(self, ws):
        self.watchers = list(ws)
        self._watchers_names = dict((w.name.lower(), w) for w in ws)

    def get_watcher(self, name):
        return self._watchers_names[name.lower()]


@register('circus.commands.sendsignal:Signal.execute')
class SignalExecute(object):
    """real Signal.execute -> Watcher -> Process over fake psutil handles"""
    def from_model(self, m):
        return []

    def enumerate(self):
        for name in ('w1', 'W1', 'w2', 'nope'):
            for pid in (None, 100, 200, 300, 999):
                for childpid in (None, 101, 111, 301, 300, 999):
                    if childpid is not None and pid is None:
                        continue
                    for children, recursive in ((False, False), (True, False), (False, True)):
                        yield {'name': name, 'pid': pid, 'childpid': childpid, 'children': children,
                               'recursive': recursive, 'signum': 15}

    def run(self, inp):
        from circus.commands.sendsignal import Signal
        log, w1, w2 = world()
        arb = StubArbiter([w1, w2])
        props = {'name': inp['name'], 'signum': inp['signum'], 'children': inp['children'],
                 'recursive': inp['recursive']}
        if inp['pid'] is not None:
            props['pid'] = inp['pid']
        if inp['childpid'] is not None:
            props['childpid'] = inp['childpid']
        obs = {}
        try:
          with KillTrap(log):
            Signal().execute(arb, props)
        except Exception as e:
            obs['raised'] = type(e).__name__
        obs['signals'] = [list(x) for x in log]
        return obs

    def check(self, inp, obs):
        bad = set()
        own = {'w1': {100: (101, 102, 111), 200: ()}, 'w2': {300: (301,)}}.get(inp['name'].lower(), {})
        allowed = set(own)
        for k, d in own.items():
            allowed |= set(d)
        tags = ['post[confined]', 'raises[*][1]', 'raises[KeyError][1]', 'raises[AttributeError][1]']
        for pid, sig in obs['signals']:
            if pid not in allowed or sig != inp['signum']:
                bad |= set(tags)
            if inp['pid'] is not None and pid != inp['pid'] and pid not in own.get(inp['pid'], ()):
                bad |= set(['post[only-the-given-pid]', 'raises[*][2]', 'raises[KeyError][2]'])
        if obs.get('raised') == 'MessageError' and obs['signals']:
            bad.add('raises[MessageError][0]')
        if obs.get('raised') == 'KeyError' and inp['pid'] is not None and obs['signals']:
            bad.add('raises[KeyError][3]')
        return bad
