"""C07 (snapshot): the real CircusSocket.load_from_config on concrete sections (a socket object is created, never bound)."""
from replay.adapters import register


@register('circus.sockets:CircusSocket.load_from_config')
class LoadFromConfig(object):
    def from_model(self, m):
        return []

    def enumerate(self):
        yield {'config': {'name': 'web', 'host': '127.0.0.1', 'port': '8080'}}
        yield {'config': {'name': 'web', 'host': 'localhost', 'port': '0', 'backlog': '5', 'so_reuseport': 'False'}}
        yield {'config': {'name': 'u', 'path': '/tmp/does-not-matter.sock', 'family': 'AF_UNIX', 'umask': '18'}}
        yield {'config': {'name': 'web', 'family': 'af_inet', 'type': 'sock_dgram', 'blocking': 'true', 'replace': True}}
        yield {'config': {'name': 'web', 'family': 'NO_SUCH_FAMILY'}}
        yield {'config': {'host': 'localhost'}}

    def run(self, inp):
        import copy
        from circus.sockets import CircusSocket
        cfg = copy.deepcopy(inp['config'])
        obs = {}
        s = None
        try:
            s = CircusSocket.load_from_config(cfg)
            obs['cfg'] = s._cfg
            obs['is_copy'] = s._cfg is not cfg
        except Exception as e:
            obs['raised'] = type(e).__name__
        finally:
            if s is not None:
                try:
                    import socket
                    socket.socket.close(s)      # plain close: never unlink a path the adapter did not create
                except Exception:
                    pass
        obs['section_after'] = cfg
        return obs

    def check(self, inp, obs):
        bad = set()
        if obs['section_after'] != inp['config']:
            bad.add('post[section-untouched]')
        if 'raised' in obs:
            return bad
        if obs['cfg'] != inp['config'] or any(type(obs['cfg'].get(k)) is not type(v) for k, v in inp['config'].items()):
            bad.add('post[snapshot-is-the-raw-section]')
        if not obs['is_copy']:
            bad.add('post[snapshot-is-a-copy]')
        return bad
