"""C13 adapter: the real Process.format_args against "substitute, then split" computed with the same real helpers."""
from replay.adapters import register


@register('circus.process:Process.format_args')
class FormatArgs(object):
    def from_model(self, m):
        return []

    def enumerate(self):
        envs = [{'extra': '--workers 4 --debug', 'one': 'x'}, {'extra': "a 'b c' d", 'one': 'y z'}]
        cmds = ['prog --id $(circus.wid)', 'prog $(circus.env.extra)', 'prog ((circus.env.one)) $(circus.nope)']
        argss = [None, '--id $(circus.wid) $(circus.env.extra)', '((CIRCUS.ENV.EXTRA)) tail', "$(circus.env.one) 'q r'",
                 ['--id', '$(circus.wid)', '$(circus.env.extra)'], ['$(circus.env.one)', 'p q'], []]
        for env in envs:
            for cmd in cmds:
                for args in argss:
                    yield {'env': env, 'cmd': cmd, 'args': args, 'wid': 7}

    def run(self, inp):
        import shlex
        import circus.process as P
        from circus.util import replace_gnu_args, ObjectDict
        p = P.Process.__new__(P.Process)
        p.name = 'x'
        p.wid = inp['wid']
        p.cmd = inp['cmd']
        p.args = inp['args']
        p.working_dir = '/tmp'
        p.shell = False
        p.env = dict(inp['env'])
        p.use_fds = False
        p.executable = None
        p.uid = p.gid = None
        p.rlimits = {}
        p.watcher = None
        obs = {}
        try:
            obs['argv'] = p.format_args()
        except Exception as e:
            obs['raised'] = type(e).__name__
        kw = {'wid': inp['wid'], 'shell': False, 'args': inp['args'], 'env': ObjectDict(dict(inp['env'])),
              'working_dir': '/tmp', 'uid': None, 'gid': None, 'rlimits': {}, 'executable': None, 'use_fds': False}
        rga = lambda s: replace_gnu_args(s, **kw)
        want = shlex.split(rga(inp['cmd']))
        if isinstance(inp['args'], str):
            want += shlex.split(rga(inp['args']))
        elif inp['args'] is not None:
            want += [rga(a) for a in inp['args']]
        obs['want'] = want
        return obs

    def check(self, inp, obs):
        bad = set()
        if 'raised' in obs:
            return set(['noescape'])
        if obs['argv'] != obs['want']:
            n = len(__import__('shlex').split(obs['want'][0])) if False else None
            bad.add('post[cmd-substituted-then-split]' if obs['argv'][:1] != obs['want'][:1] else
                    ('post[string-args-substituted-then-split]' if isinstance(inp['args'], str) else
                     ('post[list-args-kept-as-given]' if inp['args'] is not None else 'post[no-args]')))
            if isinstance(inp['args'], str):
                bad.add('post[string-args-substituted-then-split]')
        return bad
