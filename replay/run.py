#!/venv/bin/python
"""Replay harness: runs the REAL code of the current /repo tree (under /venv/bin/python).

usage: run.py <replay.json>
The replay file names the failed obligation (clause) and carries the solver's models.  For the
function concerned an adapter (replay/adapters_*.py) (1) rebuilds concrete inputs from each solver
model, (2) otherwise enumerates a small scope of concrete inputs (bounded falsifier -- only ever
used to FIND a failing input, never to claim that a property holds), runs the real function and
evaluates the executable form of the contract clause.  Prints one JSON line:
  {"verdict": "reproduced" | "not-reproduced" | "no-adapter" | "error", ...}
"""
import json
import os
import signal
import sys
import time

HERE = os.path.dirname(os.path.abspath(__file__))
sys.path.insert(0, os.path.dirname(HERE))
sys.path.insert(0, os.environ.get('PYVC_REPO', '/repo'))


KILL_LOG = []          # every os.kill / os.killpg the code under replay attempted: (pid, sig)
SAFE_PIDS = set()      # children spawned by an adapter itself may really be signalled


def _install_kill_guard():
    """the code under replay may be a CHANGED circus that signals arbitrary pids (0 = our own process group, -1 = every
    process): real signals are delivered only to pids an adapter registered in SAFE_PIDS; everything else is recorded
    and answered with ESRCH"""
    real_kill, real_killpg = os.kill, getattr(os, 'killpg', None)

    def guarded_kill(pid, sig):
        KILL_LOG.append((pid, int(sig)))
        if pid in SAFE_PIDS:
            return real_kill(pid, sig)
        raise ProcessLookupError(3, 'replay guard: no such process')

    def guarded_killpg(pgid, sig):
        KILL_LOG.append((-pgid, int(sig)))
        raise ProcessLookupError(3, 'replay guard: no such process group')
    os.kill = guarded_kill
    if real_killpg is not None:
        os.killpg = guarded_killpg
    os._exit_real_kill = real_kill


def _alarm(signum, frame):
    print(json.dumps({'verdict': 'error', 'detail': 'watchdog: replay blocked'}))
    sys.stdout.flush()
    os._exit(0)


def jsonable(x):
    try:
        json.dumps(x)
        return x
    except Exception:
        if isinstance(x, dict):
            return dict((str(k), jsonable(v)) for k, v in x.items())
        if isinstance(x, (list, tuple, set)):
            return [jsonable(v) for v in x]
        return repr(x)


def sweep(qual, budget):
    """thorough tier: run the complete enumeration of the adapter on the real code and report, per clause,
    the first input that makes it fail (a bounded stand-in: finds violations, proves nothing)"""
    from replay import adapters
    ad = adapters.find(qual)
    if ad is None:
        print(json.dumps({'verdict': 'no-adapter', 'function': qual}))
        return
    t0 = time.time()
    tried = 0
    failing = {}
    complete = True
    errors = 0
    for inp in ad.enumerate():
        if time.time() - t0 > budget:
            complete = False
            break
        tried += 1
        try:
            obs = ad.run(inp)
            bad = ad.check(inp, obs)
        except Exception:
            errors += 1
            continue
        for c in bad:
            if c not in failing:
                failing[c] = {'inputs': jsonable(inp), 'observed': jsonable(obs)}
    print(json.dumps({'verdict': 'sweep', 'function': qual, 'tried': tried, 'complete': complete,
                      'adapter_errors': errors, 'failing': failing, 'seconds': round(time.time() - t0, 2)}))


def main():
    _install_kill_guard()
    if sys.argv[1] == '--sweep':
        signal.signal(signal.SIGALRM, _alarm)
        budget = float(sys.argv[3]) if len(sys.argv) > 3 else 120.0
        signal.alarm(int(budget) + 60)
        return sweep(sys.argv[2], budget)
    path = sys.argv[1]
    budget = float(os.environ.get('PYVC_REPLAY_BUDGET_S', '25'))
    signal.signal(signal.SIGALRM, _alarm)
    signal.alarm(int(budget) + 60)
    rp = json.load(open(path))
    from replay import adapters
    ad = adapters.find(rp['function'])
    if ad is None:
        print(json.dumps({'verdict': 'no-adapter', 'function': rp['function']}))
        return
    clause = rp['obligation'].rsplit(':', 1)[0]
    t0 = time.time()
    tried = 0
    cands = []
    for m in rp.get('models') or []:
        if not m:
            continue
        try:
            for inp in ad.from_model(m):
                cands.append(('solver-model', inp))
        except Exception as e:   # model not convertible: fall through to the falsifier
            cands.append(('model-error', repr(e)))
    fixed = rp.get('inputs')
    if fixed is not None:
        cands = [('recorded', fixed)]

    def attempt(src, inp):
        obs = ad.run(inp)
        failing = ad.check(inp, obs)
        if clause == '*':
            # any clause that is in the given ledger counts
            led = set(c.rsplit(':', 1)[0] for c in rp.get('ledger_clauses', []))
            hit = sorted(f for f in failing if f in led or
                         (f.startswith('noescape') and 'noescape' in led))
            if hit:
                failing = set(failing) | set(['*'])
        elif clause.startswith('inv-'):
            # a loop invariant exists only to carry the function's postconditions: a real execution that
            # falsifies a clause of this function that was discharged on the unchanged tree (ledger) is the
            # failing input of the broken invariant
            led = set(c.rsplit(':', 1)[0] for c in rp.get('ledger_clauses', []))
            if any(f in led for f in failing):
                failing = set(failing) | set([clause])
        return obs, failing
    for src, inp in cands:
        if src == 'model-error':
            continue
        tried += 1
        try:
            obs, failing = attempt(src, inp)
        except Exception as e:
            continue
        if clause in failing or ((clause.startswith('noescape') or clause.startswith('pre[')) and
                                 any(f.startswith('noescape') for f in failing)):
            print(json.dumps({'verdict': 'reproduced', 'source': src, 'inputs': jsonable(inp),
                              'observed': jsonable(obs), 'failing_clauses': sorted(failing),
                              'clause': clause, 'tried': tried}))
            return
    if fixed is None:
        for inp in ad.enumerate():
            if time.time() - t0 > budget:
                break
            tried += 1
            try:
                obs, failing = attempt('falsifier', inp)
            except Exception as e:
                continue
            if clause in failing or ((clause.startswith('noescape') or clause.startswith('pre[')) and
                                     any(f.startswith('noescape') for f in failing)):
                print(json.dumps({'verdict': 'reproduced', 'source': 'falsifier (bounded enumeration '
                                  'of real executions)', 'inputs': jsonable(inp),
                                  'observed': jsonable(obs), 'failing_clauses': sorted(failing),
                                  'clause': clause, 'tried': tried}))
                return
    print(json.dumps({'verdict': 'not-reproduced', 'tried': tried, 'clause': clause,
                      'seconds': round(time.time() - t0, 2)}))


if __name__ == '__main__':
    main()
