"""C11 adapters: option validation (real validate_option / Set.validate / AddWatcher.validate)."""
from replay.adapters import register

VALID_KEYS = ('numprocesses', 'warmup_delay', 'working_dir', 'uid', 'gid', 'send_hup', 'stop_signal',
              'stop_children', 'shell', 'env', 'cmd', 'args', 'copy_env', 'retry_in', 'max_retry',
              'graceful_timeout', 'stdout_stream', 'stderr_stream', 'max_age', 'max_age_variance', 'respawn',
              'singleton', 'hooks', 'close_child_stdin', 'close_child_stdout', 'close_child_stderr')
PREFIXES = ('stdout_stream.', 'stderr_stream.', 'hooks.', 'rlimit_')
VALUES = [None, True, 0, 3, -1, 2.5, '', 'x', '3', [], [1], {}, {'a': 'b'}, {'a': 1}, {'class': 'FileStream'},
          {'before_start': 'm.f'}, {'nope': 'm.f'}]


def validopt(key, val):
    """executable form of the predicate validopt(key, val) of contracts/c_options.py"""
    if key not in VALID_KEYS and not any(key.startswith(p) for p in PREFIXES):
        return False
    if key in ('numprocesses', 'max_retry', 'max_age', 'max_age_variance', 'stop_signal'):
        return isinstance(val, int)
    if key in ('warmup_delay', 'retry_in', 'graceful_timeout'):
        return isinstance(val, (int, float))
    if key in ('uid', 'gid'):
        return isinstance(val, (int, str))
    if key in ('send_hup', 'shell', 'copy_env', 'respawn', 'stop_children', 'close_child_stdin',
               'close_child_stdout', 'close_child_stderr'):
        return isinstance(val, bool)
    if key in ('env', 'hooks', 'stderr_stream', 'stdout_stream'):
        return isinstance(val, dict)
    return True


@register('circus.commands.util:validate_option')
class ValidateOption(object):
    def from_model(self, m):
        return []

    def enumerate(self):
        for k in VALID_KEYS + ('bogus', '', 'hooks.before_start', 'rlimit_nofile', 'rlimit_bogus', 'stdout_stream.class',
                               'NUMPROCESSES'):
            for v in VALUES:
                yield {'key': k, 'val': v}

    def run(self, inp):
        from circus.commands.util import validate_option
        obs = {}
        try:
            validate_option(inp['key'], inp['val'])
            obs['accepted'] = True
        except Exception as e:
            obs['raised'] = type(e).__name__
        return obs

    def check(self, inp, obs):
        bad = set()
        if obs.get('accepted') and not validopt(inp['key'], inp['val']):
            bad |= set(['post[validopt]', 'post[0]', 'post[1]', 'post[2]', 'post[3]', 'post[4]', 'post[5]'])
        if 'raised' in obs and obs['raised'] != 'MessageError':
            bad.add('noescape')
        return bad


def option_sets():
    good = [('numprocesses', 2), ('working_dir', '/x'), ('shell', True), ('env', {'A': 'b'})]
    badv = [('bogus', 1), ('numprocesses', 'x'), ('shell', 'yes'), ('env', {'A': 1}), ('hooks', {'nope': 'x'}),
            ('max_age', 1.5)]
    yield {}
    for g in good:
        yield dict([g])
    for b in badv:
        yield dict([b])
        for g in good:
            if g[0] != b[0]:
                yield dict([g, b])        # valid first, invalid later
                yield dict([b, g])
        yield dict(good[:2] + [b] + good[2:])


class _CmdValidate(object):
    cls = None
    base = {}

    def from_model(self, m):
        return []

    def enumerate(self):
        for opts in option_sets():
            yield {'options': opts}
        yield {'options': 5}
        yield {'options': ['numprocesses']}

    def run(self, inp):
        import importlib
        mod, cname = self.cls
        cmd = getattr(importlib.import_module(mod), cname)()
        props = dict(self.base)
        props['options'] = inp['options']
        obs = {}
        try:
            cmd.validate(props)
            obs['accepted'] = True
        except Exception as e:
            obs['raised'] = type(e).__name__
        return obs

    def check(self, inp, obs):
        bad = set()
        o = inp['options']
        if obs.get('accepted'):
            if not isinstance(o, dict) or not all(validopt(k, v) for k, v in o.items()):
                bad.add('post[every-option-validated]')
        return bad


@register('circus.commands.set:Set.validate')
class SetValidate(_CmdValidate):
    cls = ('circus.commands.set', 'Set')
    base = {'name': 'w1'}


@register('circus.commands.addwatcher:AddWatcher.validate')
class AddValidate(_CmdValidate):
    cls = ('circus.commands.addwatcher', 'AddWatcher')
    base = {'name': 'w9', 'cmd': 'sleep 1'}


OPTNAMES = ('numprocesses', 'warmup_delay', 'working_dir', 'uid', 'gid', 'send_hup', 'stop_signal', 'stop_children',
            'shell', 'env', 'cmd', 'args', 'graceful_timeout', 'max_age', 'max_age_variance')


def opt_snapshot(w):
    return [(n, repr(getattr(w, n, None))) for n in OPTNAMES] + [('_options', repr(sorted(w._options.items())))]


@register('circus.commands.set:Set.execute')
class SetExecute(object):
    """real Set.execute -> real Watcher.set_opt (through the real @synchronized wrapper) on a real Watcher"""
    def from_model(self, m):
        return []

    def enumerate(self):
        good = [('working_dir', '/x'), ('graceful_timeout', 7), ('max_age', 5), ('send_hup', True)]
        late_fail = [('uid', 'no_such_user_zz_replay'), ('gid', 'no_such_group_zz_replay'), ('numprocesses', 2)]
        for busy in (False, True):
            yield {'options': [], 'singleton': True, 'busy': busy}
            for g in good:
                yield {'options': [list(g)], 'singleton': True, 'busy': busy}
            for f in late_fail:
                yield {'options': [list(f)], 'singleton': True, 'busy': busy}
                for g in good:
                    yield {'options': [list(g), list(f)], 'singleton': True, 'busy': busy}     # valid first, refused later
                    yield {'options': [list(f), list(g)], 'singleton': True, 'busy': busy}

    def run(self, inp):
        from circus.commands.set import Set
        from replay.adapters_arbiter import bare_arbiter
        a = bare_arbiter(['w1'])
        w = a.watchers[0]
        w.singleton = inp['singleton']
        w.numprocesses = 1
        w._options = {}
        if not inp['busy']:
            w.do_action = lambda num: None      # idle: the follow-up action itself is not what is replayed
        if inp['busy']:
            a._exclusive_running_command = 'other_operation'
        before = opt_snapshot(w)
        props = {'name': 'w1', 'options': dict((k, v) for k, v in inp['options'])}
        obs = {}
        try:
            Set().execute(a, props)
        except Exception as e:
            obs['raised'] = type(e).__name__
        after = opt_snapshot(w)
        obs['changed'] = [n for (n, x), (_, y) in zip(before, after) if x != y]
        return obs

    def check(self, inp, obs):
        bad = set()
        if 'raised' in obs and obs['changed']:
            if obs['raised'] == 'ConflictError':
                bad.add('raises[ConflictError][0]')
            elif obs['raised'] == 'MessageError':
                bad.add('raises[MessageError][0]')
            else:
                bad.add('raises[*][0]')
        return bad


@register('circus.commands.addwatcher:AddWatcher.execute')
class AddExecute(object):
    """real AddWatcher.execute -> real Arbiter.add_watcher on a bare real Arbiter with a stub controller"""
    def from_model(self, m):
        return []

    def enumerate(self):
        for mode, owner in ((False, None), (True, 1000), (True, 'bob')):
            for name in ('w9', 'W1', 'w1', ''):
                for uid in ('absent', 1000, 1001, 'bob', None):
                    for extra in ({}, {'rlimit_nofile': 100}, {'numprocesses': 2}):
                        yield {'mode': mode, 'owner': owner, 'name': name, 'uid': uid, 'extra': extra}

    def run(self, inp):
        from circus.commands.addwatcher import AddWatcher
        from replay.adapters_arbiter import bare_arbiter, dir_violations
        a = bare_arbiter(['w1'])
        a.ctrl = type('Ctl', (), {'endpoint_owner_mode': inp['mode']})()
        a.endpoint_owner = inp['owner']
        opts = dict(inp['extra'])
        if inp['uid'] != 'absent':
            opts['uid'] = inp['uid']
        props = {'name': inp['name'], 'cmd': 'sleep 1', 'options': opts}
        before = (list(a.watchers), dict(a._watchers_names))
        obs = {}
        try:
            AddWatcher().execute(a, props)
        except Exception as e:
            obs['raised'] = type(e).__name__
        obs['unchanged'] = before == (list(a.watchers), dict(a._watchers_names))
        obs['dir'] = sorted(dir_violations(a))
        obs['present'] = inp['name'].lower() in a._watchers_names
        return obs

    def check(self, inp, obs):
        bad = set()
        uid = None if inp['uid'] == 'absent' else inp['uid']
        if 'raised' not in obs:
            if not obs['present']:
                bad.add('post[added]')
            if inp['name'].lower() == 'w1':
                bad.add('post[was-new]')
            if inp['mode'] and uid != inp['owner']:
                bad.add('post[owner-checked]')
        else:
            r = obs['raised']
            if r in ('MessageError', 'AlreadyExist', 'ConflictError') and not obs['unchanged']:
                bad.add('raises[%s][0]' % r)
            if r == 'MessageError' and not inp['mode']:
                bad.add('raises[MessageError][1]')
            for d in obs['dir']:
                bad.add('raises[*][%d]' % {'dir1': 0, 'dir2': 1, 'dir3': 2, 'dir4': 3}[d])
        return bad
