"""C11 adapters: option validation (real validate_option / Set.validate / AddWatcher.validate)."""
from replay.adapters import register

VALID_KEYS = ('numprocesses', 'warmup_delay', 'working_dir', 'uid', 'gid', 'send_hup', 'stop_signal',
              'stop_children', 'shell', 'env', 'cmd', 'args', 'copy_env', 'retry_in', 'max_retry',
              'graceful_timeout', 'stdout_stream', 'stderr_stream', 'max_age', 'max_age_variance', 'respawn',
              'singleton', 'hooks', 'close_child_stdin', 'close_child_stdout', 'close_child_stderr')
PREFIXES = ('stdout_stream.', 'stderr_stream.', 'hooks.', 'rlimit_')
VALUES = [None, True, 0, 3, -1, 2.5, '', 'x', '3', [], [1], {}, {'a': 'b'}, {'a': 1}, {'class': 'FileStream'},
          {'before_start': 'm.f'}, {'nope': 'm.f'}]


def validopt(key, val):
    """executable form of the predicate validopt(key, val) of contracts/c_options.py"""
    if key not in VALID_KEYS and not any(key.startswith(p) for p in PREFIXES):
        return False
    if key in ('numprocesses', 'max_retry', 'max_age', 'max_age_variance', 'stop_signal'):
        return isinstance(val, int)
    if key in ('warmup_delay', 'retry_in', 'graceful_timeout'):
        return isinstance(val, (int, float))
    if key in ('uid', 'gid'):
        return isinstance(val, (int, str))
    if key in ('send_hup', 'shell', 'copy_env', 'respawn', 'stop_children', 'close_child_stdin',
               'close_child_stdout', 'close_child_stderr'):
        return isinstance(val, bool)
    if key in ('env', 'hooks', 'stderr_stream', 'stdout_stream'):
        return isinstance(val, dict)
    return True


@register('circus.commands.util:validate_option')
class ValidateOption(object):
    def from_model(self, m):
        return []

    def enumerate(self):
        for k in VALID_KEYS + ('bogus', '', 'hooks.before_start', 'rlimit_nofile', 'rlimit_bogus', 'stdout_stream.class',
                               'NUMPROCESSES'):
            for v in VALUES:
                yield {'key': k, 'val': v}

    def run(self, inp):
        from circus.commands.util import validate_option
        obs = {}
        try:
            validate_option(inp['key'], inp['val'])
            obs['accepted'] = True
        except Exception as e:
            obs['raised'] = type(e).__name__
        return obs

    def check(self, inp, obs):
        bad = set()
        if obs.get('accepted') and not validopt(inp['key'], inp['val']):
            bad |= set(['post[validopt]', 'post[0]', 'post[1]', 'post[2]', 'post[3]', 'post[4]', 'post[5]'])
        if 'raised' in obs and obs['raised'] != 'MessageError':
            bad.add('noescape')
        return bad


def option_sets():
    good = [('numprocesses', 2), ('working_dir', '/x'), ('shell', True), ('env', {'A': 'b'})]
    badv = [('bogus', 1), ('numprocesses', 'x'), ('shell', 'yes'), ('env', {'A': 1}), ('hooks', {'nope': 'x'}),
            ('max_age', 1.5)]
    yield {}
    for g in good:
        yield dict([g])
    for b in badv:
        yield dict([b])
        for g in good:
            if g[0] != b[0]:
                yield dict([g, b])        # valid first, invalid later
                yield dict([b, g])
        yield dict(good[:2] + [b] + good[2:])


class _CmdValidate(object):
    cls = None
    base = {}

    def from_model(self, m):
        return []

    def enumerate(self):
        for opts in option_sets():
            yield {'options': opts}
        yield {'options': 5}
        yield {'options': ['numprocesses']}

    def run(self, inp):
        import importlib
        mod, cname = self.cls
        cmd = getattr(importlib.import_module(mod), cname)()
        props = dict(self.base)
        props['options'] = inp['options']
        obs = {}
        try:
            cmd.validate(props)
            obs['accepted'] = True
        except Exception as e:
            obs['raised'] = type(e).__name__
        return obs

    def check(self, inp, obs):
        bad = set()
        o = inp['options']
        if obs.get('accepted'):
            if not isinstance(o, dict) or not all(validopt(k, v) for k, v in o.items()):
                bad.add('post[every-option-validated]')
        return bad


@register('circus.commands.set:Set.validate')
class SetValidate(_CmdValidate):
    cls = ('circus.commands.set', 'Set')
    base = {'name': 'w1'}


@register('circus.commands.addwatcher:AddWatcher.validate')
class AddValidate(_CmdValidate):
    cls = ('circus.commands.addwatcher', 'AddWatcher')
    base = {'name': 'w9', 'cmd': 'sleep 1'}
