"""Adapters for the circus.process.Process wrappers over the psutil handle (poll / is_alive / send_signal / stop /
children / age): the real methods run over a psutil.Popen double that keeps a signal log and a liveness flag."""
import os
from replay.adapters import register
from replay.adapters_signal import KillTrap


class Pipe(object):
    def __init__(self):
        self.closed = False

    def close(self):
        self.closed = True


class Handle(object):
    def __init__(self, log, pid, alive, term_exc=None, kids=(), dies_on_poll=False):
        self.log = log
        self.pid = pid
        self.alive = alive
        self.term_exc = term_exc
        self.kids = list(kids)
        self.stdout = Pipe()
        self.stderr = Pipe()
        self.returncode = None if alive else 0

    def poll(self):
        return None if self.alive else 0

    def _deliver(self, sig):
        import psutil
        if not self.alive:
            raise psutil.NoSuchProcess(self.pid)
        self.log.append((self.pid, int(sig)))

    def send_signal(self, sig):
        self._deliver(sig)

    def terminate(self):
        import psutil
        if self.term_exc == 'AccessDenied':
            raise psutil.AccessDenied(self.pid)
        if self.term_exc == 'NoSuchProcess':
            raise psutil.NoSuchProcess(self.pid)
        self._deliver(15)

    def kill(self):
        self._deliver(9)

    def children(self, recursive=False):
        import psutil
        if not self.alive:
            raise psutil.NoSuchProcess(self.pid)
        out = list(self.kids)
        if recursive:
            for k in self.kids:
                out += k.children(True)
        return out


def make(inp, log):
    from circus.process import Process
    p = Process.__new__(Process)
    p.wid = 1
    p.name = 'x'
    p.started = inp.get('started', 0)
    p.stopping = False
    g = Handle(log, 112, True)
    k1 = Handle(log, 111, True, kids=[g])
    k2 = Handle(log, 113, True)
    p._worker = Handle(log, 4242, inp.get('alive', True), inp.get('term_exc'), kids=[k1, k2])
    return p


class _Base(object):
    def from_model(self, m):
        return []

    def call(self, p, inp):
        raise NotImplementedError

    def run(self, inp):
        log = []
        p = make(inp, log)
        obs = {}
        try:
            with KillTrap(log):
                r = self.call(p, inp)
            obs['result'] = r if isinstance(r, (bool, int, float, list, type(None))) else repr(r)
        except Exception as e:
            obs['raised'] = type(e).__name__
        obs['signals'] = [list(x) for x in log]
        obs['closed'] = [p._worker.stdout.closed, p._worker.stderr.closed]
        return obs


@register('circus.process:Process.poll')
class Poll(_Base):
    def enumerate(self):
        for alive in (True, False):
            yield {'alive': alive}

    def call(self, p, inp):
        return p.poll()

    def check(self, inp, obs):
        bad = set()
        if 'raised' in obs:
            return set(['noescape'])
        if (obs['result'] is None) != inp['alive']:
            bad.add('post[1]')
        return bad


@register('circus.process:Process.is_alive')
class IsAlive(_Base):
    def enumerate(self):
        for alive in (True, False):
            yield {'alive': alive}

    def call(self, p, inp):
        return p.is_alive()

    def check(self, inp, obs):
        if 'raised' in obs:
            return set(['noescape'])
        if obs['result'] is not inp['alive']:
            return set(['post[alive-iff-not-terminated]'])
        return set()


@register('circus.process:Process.send_signal')
class SendSignal(_Base):
    def enumerate(self):
        for alive in (True, False):
            for sig in (15, 9, 1, 2, 10):
                yield {'alive': alive, 'sig': sig}

    def call(self, p, inp):
        return p.send_signal(inp['sig'])

    def check(self, inp, obs):
        bad = set()
        sigs = obs['signals']
        if 'raised' in obs:
            if obs['raised'] != 'NoSuchProcess':
                bad.add('noescape')
            if sigs:
                bad.add('raises[NoSuchProcess][1]')
            if inp['alive']:
                bad.add('raises[NoSuchProcess][2]')
            return bad
        if len(sigs) != 1:
            bad.add('post[1]')
        if not sigs or sigs[-1] != [4242, inp['sig']]:
            bad.add('post[own-pid-named-signal]')
        return bad


@register('circus.process:Process.stop')
class Stop(_Base):
    def enumerate(self):
        for alive in (True, False):
            for exc in (None, 'AccessDenied', 'NoSuchProcess'):
                yield {'alive': alive, 'term_exc': exc}

    def call(self, p, inp):
        return p.stop()

    def check(self, inp, obs):
        bad = set()
        sigs = obs['signals']
        if 'raised' in obs:
            bad.add('noescape')
        if not all(obs['closed']):
            bad.add('post[pipes-closed]')
        if any(s != [4242, 15] for s in sigs):
            bad.add('post[only-sigterm-to-own-pid]')
        if len(sigs) > 1:
            bad.add('post[at-most-one-signal]')
        if sigs and not inp['alive']:
            bad.add('post[no-signal-to-a-dead-worker]')
        return bad


@register('circus.process:Process.children')
class Children(_Base):
    def enumerate(self):
        for alive in (True, False):
            for rec in (False, True):
                yield {'alive': alive, 'recursive': rec}

    def call(self, p, inp):
        return p.children(inp['recursive'])

    def check(self, inp, obs):
        bad = set()
        if 'raised' in obs:
            if obs['raised'] != 'NoSuchProcess':
                bad.add('noescape')
            elif inp['alive']:
                bad.add('raises[NoSuchProcess][1]')
            return bad
        if not isinstance(obs['result'], list) or any(x not in (111, 112, 113) for x in obs['result']):
            bad.add('post[only-descendants]')
        return bad
