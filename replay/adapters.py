"""Adapters from replay files to real executions, one per function (family) under contract."""
import importlib
import json

REGISTRY = {}


def register(qual):
    def deco(cls):
        REGISTRY[qual] = cls()
        return cls
    return deco


def find(qual):
    for m in ('adapters_watcher', 'adapters_util', 'adapters_stream', 'adapters_misc',
              'adapters_ctl', 'adapters_arbiter', 'adapters_signal', 'adapters_options', 'adapters_manage', 'adapters_pidfile', 'adapters_redirector', 'adapters_format', 'adapters_procwrap', 'adapters_sockets'):
        try:
            importlib.import_module('replay.' + m)
        except ImportError as e:
            if 'replay.' + m not in str(e) and m not in str(e):
                raise
    return REGISTRY.get(qual)


# ---- model access helpers
def scal(m, name, default=None):
    return m.get('scalars', {}).get(name, default)


def arr(m, name, idx, default=None):
    a = m.get('arrays', {}).get(name)
    if not a:
        return default
    return a.get('entries', {}).get(json.dumps(idx), default)


def nested(m, name, idx):
    a = m.get('arrays', {}).get(name)
    if not a:
        return {}
    ent = a.get('nested', {}).get(json.dumps(idx), {})
    return dict((json.loads(k), v) for k, v in ent.items())


def val_to_py(v, m=None):
    """Val datatype dump -> python value (JSON containers through the $vobj/$vlist heaps)"""
    if not isinstance(v, dict) or 'ctor' not in v:
        return v
    c, a = v['ctor'], v['args']
    if c == 'VNone':
        return None
    if c in ('VBool', 'VInt', 'VStr'):
        return a[0]
    if c == 'VReal':
        num = a[0]['real'] if isinstance(a[0], dict) else a[0]
        from fractions import Fraction
        return float(Fraction(num))
    if c == 'VBytes':
        return a[0].encode('latin-1')
    if c == 'VList':
        return ['<list %s>' % a[0]]
    if c == 'VObj':
        if m is not None:
            has = nested(m, 'H.$vobj.map.0', a[0])
            get = nested(m, 'H.$vobj.map.1', a[0])
            return dict((k, val_to_py(get.get(k), m)) for k, v2 in has.items() if v2 is True)
        return {}
    return object()
