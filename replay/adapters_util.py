import itertools
import re
import signal
from replay.adapters import register, scal, val_to_py


def designated(s):
    """executable form of sig_designated / the property's grammar: NAME or SIGNAME in any case,
    optional +offset, whole string"""
    m = re.fullmatch(r'([A-Za-z0-9_]+)(\+([0-9]+))?', s)
    if not m:
        return None
    name = m.group(1).upper()
    if not name.startswith('SIG'):
        name = 'SIG' + name
    if name not in signal.Signals.__members__:
        return None
    return int(signal.Signals[name]) + (int(m.group(3)) if m.group(3) else 0)


def int_ok(s):
    try:
        int(s)
        return True
    except ValueError:
        return False


@register('circus.util:to_signum')
class ToSignum(object):
    def from_model(self, m):
        v = scal(m, 'in.signum')
        yield {'signum': val_to_py(v, m)}

    def enumerate(self):
        base = ['TERM', 'term', 'SIGTERM', 'sigterm', 'KILL', 'HUP', 'RTMIN+1', 'SIGRTMIN+2', '15', ' 9 ',
                '-5', 'TERM!!', 'term garbage', '_IGN', 'SIG_IGN', '_DFL', 'KILL+1', 'NOPE', 'SIGNOPE',
                'TERM\n', 'TERM+', '+1', '', ' ', 'IO;', 'KILL+1x', 'é', 'TERM ', ' TERM', 'INT\x00',
                'SIG', 'sig_blocK', '_BLOCK', 'rtmax', 'RTMIN+', 'USR1+0']
        for b in base:
            yield {'signum': b}
        for v in [0, 1, 9, 15, -5, 99999, True, 1.9, None, [1], {'a': 1}, b'TERM']:
            yield {'signum': v}
        names = [n[3:] for n in signal.Signals.__members__]
        for n in names:
            for suffix in ['', '!', ' x', '+1', '+1!', '\n']:
                yield {'signum': n.lower() + suffix}
                yield {'signum': 'sig' + n + suffix}

    def run(self, inp):
        from circus.util import to_signum
        try:
            return {'result': to_signum(inp['signum'])}
        except Exception as e:
            return {'raised': type(e).__name__}

    def check(self, inp, obs):
        x = inp['signum']
        bad = set()
        is_int = isinstance(x, int) and not isinstance(x, bool)
        is_str = isinstance(x, str)
        if 'result' in obs:
            r = obs['result']
            if is_int and r != x:
                bad.add('post[0]')
            if is_str and int_ok(x) and r != int(x):
                bad.add('post[1]')
            if is_str and not int_ok(x):
                d = designated(x)
                if d is None:
                    bad.add('post[2]')
                elif r != d:
                    bad.add('post[3]')
        elif obs['raised'] == 'ValueError':
            if not is_str:
                bad.add('raises[ValueError][0]')
            elif int_ok(x):
                bad.add('raises[ValueError][1]')
            elif designated(x) is not None:
                bad.add('raises[ValueError][2]')
        elif obs['raised'] == 'TypeError':
            if isinstance(x, (int, float, str, bool)):
                bad.add('raises[TypeError][0]')
        else:
            bad.add('noescape')
        return bad
