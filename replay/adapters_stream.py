import itertools
import os
import shutil
import tempfile
from replay.adapters import register


def snapshot(d):
    out = {}
    for f in sorted(os.listdir(d)):
        with open(os.path.join(d, f), 'rb') as fh:
            out[f] = fh.read().decode('latin-1')
    return out


class StreamCase(object):
    """one FileStream operation on a real scratch directory"""
    op = '__call__'

    def from_model(self, m):
        return []

    def enumerate(self):
        datas = ['', 'a', 'bc', 'defg', 'hijklmn']
        for M in (0, 1, 3, 5):
            for N in (0, 1, 2, 3):
                for active in ('', 'x', 'yyyy'):
                    for present in itertools.product((False, True), repeat=4):
                        for data in datas:
                            for asbytes in (False, True):
                                yield {'M': M, 'N': N, 'active': active, 'backups': list(present),
                                       'data': data, 'bytes': asbytes}

    def run(self, inp):
        from circus.stream.file_stream import FileStream
        d = tempfile.mkdtemp(prefix='pyvc_fs_')
        try:
            fn = os.path.join(d, 'log')
            with open(fn, 'w') as fh:
                fh.write(inp['active'])
            for i, p in enumerate(inp['backups'], 1):
                if p:
                    with open('%s.%d' % (fn, i), 'w') as fh:
                        fh.write('B%d;' % i)
            fs = FileStream(filename=fn, max_bytes=inp['M'], backup_count=inp['N'])
            before = snapshot(d)
            payload = inp['data'].encode() if inp['bytes'] else inp['data']
            obs = {}
            try:
                if self.op == '__call__':
                    fs({'data': payload, 'pid': 1, 'name': 'stdout'})
                elif self.op == '_do_rollover':
                    fs._do_rollover()
                elif self.op == '_should_rollover':
                    obs['result'] = fs._should_rollover(payload)
            except Exception as e:
                obs['raised'] = type(e).__name__
            try:
                fs.close()
            except Exception:
                pass
            obs['before'] = before
            obs['after'] = snapshot(d)
            return obs
        finally:
            shutil.rmtree(d, ignore_errors=True)

    def rollover_clauses(self, inp, b, a, base):
        """executable form of the shift clauses; base = index of the first shift clause"""
        bad = set()
        N = inp['N']
        name = lambda i: 'log' if i == 0 else 'log.%d' % i
        if N > 0:
            if a.get(name(1)) != b.get('log'):
                bad.add('post[%d]' % (base + 1))
            for i in range(1, N):
                if name(i) in b and a.get(name(i + 1)) != b[name(i)]:
                    bad.add('post[%d]' % (base + 2))
            for i in range(2, N + 1):
                if name(i - 1) not in b:
                    if i < N and name(i) in b:
                        if name(i) in a:
                            bad.add('post[%d]' % (base + 3))
                    elif a.get(name(i)) != b.get(name(i)):
                        bad.add('post[%d]' % (base + 3))
        for f in set(a) | set(b):
            if f == 'log':
                continue
            idx = int(f.split('.')[-1]) if f.startswith('log.') and f.split('.')[-1].isdigit() else None
            if idx is not None and 1 <= idx <= N:
                continue
            if a.get(f) != b.get(f):
                bad.add('post[%d]' % (base + 4))
        return bad


@register('circus.stream.file_stream:FileStream.__call__')
class CallCase(StreamCase):
    op = '__call__'

    def check(self, inp, obs):
        if 'raised' in obs:
            return set(['noescape'])
        bad = set()
        b, a = obs['before'], obs['after']
        M, N, data = inp['M'], inp['N'], inp['data']
        roll = M > 0 and len(b['log']) + len(data) >= M
        if not roll or N == 0:
            if a.get('log') != b['log'] + data:
                bad.add('post[2]')
            if any(a.get(f) != b.get(f) for f in (set(a) | set(b)) - set(['log'])):
                bad.add('post[3]')
        else:
            if a.get('log') != data:
                bad.add('post[4]')
            bad |= self.rollover_clauses(inp, b, a, 4)
        if M > 0 and N > 0 and len(data) < M and not len(a.get('log', '')) < M:
            bad.add('post[9]')
        return bad


@register('circus.stream.file_stream:FileStream._do_rollover')
class RollCase(StreamCase):
    op = '_do_rollover'

    def check(self, inp, obs):
        if 'raised' in obs:
            return set(['noescape'])
        bad = set()
        b, a = obs['before'], obs['after']
        N = inp['N']
        if N > 0 and a.get('log') != '':
            bad.add('post[2]')
        if N == 0 and a.get('log') != b.get('log'):
            bad.add('post[3]')
        bad |= self.rollover_clauses(inp, b, a, 3)
        return bad


@register('circus.stream.file_stream:FileStream._should_rollover')
class ShouldCase(StreamCase):
    op = '_should_rollover'

    def check(self, inp, obs):
        if 'raised' in obs:
            return set(['noescape'])
        want = 1 if (inp['M'] > 0 and len(obs['before']['log']) + len(inp['data']) >= inp['M']) else 0
        return set() if obs.get('result') == want else set(['post[0]'])
