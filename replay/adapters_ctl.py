import itertools
import json
from replay.adapters import register


class RecStream(object):
    def __init__(self):
        self.frames = []

    def send(self, data, flags=0):
        self.frames.append(data)

    def flush(self):
        pass


def real_controller():
    """real Controller (constructor bypassed: no sockets) with the real command table and a bare real Arbiter"""
    from circus.controller import Controller
    from circus.commands import get_commands
    from replay.adapters_arbiter import bare_arbiter
    c = Controller.__new__(Controller)
    c.arbiter = bare_arbiter(['w1'])
    c.commands = get_commands()
    c.stream = RecStream()
    c.endpoint = 'tcp://x'
    c.endpoint_owner = None
    return c


def snapshot(a):
    """what list / options / status / numprocesses would report"""
    out = []
    for w in a.watchers:
        out.append((w.name, w._status, w.numprocesses, sorted(w.processes), repr(w.options())))
    return (out, sorted(a._watchers_names))


@register('circus.controller:Controller.dispatch')
class Dispatch(object):
    def from_model(self, m):
        return []

    def enumerate(self):
        docs = [b'garbage{', b'5', b'null', b'"x"', b'[1]', b'{}', b'{"command": 5}', b'{"command": null, "id": 3}',
                b'{"command": ["list"]}', b'{"command": "nope", "id": "a"}',
                b'{"command": "list", "id": 7}', b'{"command": "LIST", "id": 7, "msg_type": "cast"}',
                b'{"command": "status", "id": 1, "properties": {"name": "w1"}}',
                b'{"command": "status", "id": 1, "properties": {"name": "zzz"}}',
                b'{"command": "numwatchers", "id": null}', b'{"command": "list", "properties": 5, "id": 2}',
                b'{"command": "set", "id": 4, "properties": {"name": "w1", "options": {"bogus": 1}}}',
                b'{"command": "signal", "id": 9, "properties": {"name": "w1", "signum": "TERM!!"}}',
                b'{"command": "set", "id": 4, "properties": {"name": "w1", "options": {"working_dir": "/x", "bogus": 1}}}',
                b'{"command": "set", "id": 4, "properties": {"name": "w1", "options": {"numprocesses": 2, "max_age": "x"}}}',
                b'{"command": "set", "id": 4, "properties": {"name": "nope", "options": {"numprocesses": 2}}}',
                b'{"command": "add", "id": 5, "properties": {"name": "W1", "cmd": "sleep 1"}}',
                b'{"command": "add", "id": 5, "properties": {"name": "w9", "cmd": "sleep 1", "options": {"bogus": 2}}}',
                b'{"command": "kill", "id": 6, "properties": {"name": "w1", "signum": "NOPE"}}',
                b'{"command": "incr", "id": 6, "properties": {}}',
                # ids that are falsy but not null are ids all the same (seed C06-7)
                b'{"command": "numwatchers", "id": 0}', b'{"command": "list", "id": ""}',
                b'{"command": "nope", "id": false}', b'{"command": "numwatchers", "id": 0.0}',
                b'{"command": "status", "id": 0, "properties": {"name": "zzz"}}']
        for d in docs:
            yield {'msg': d.decode()}

    def run(self, inp):
        c = real_controller()
        obs = {}
        calls = []

        class Rec(object):
            """records the order of validate / execute on the real command object"""
            def __init__(self, cmd):
                self._cmd = cmd

            def __getattr__(self, n):
                return getattr(self._cmd, n)

            def validate(self, props):
                try:
                    r = self._cmd.validate(props)
                except BaseException:
                    calls.append('validate-refused')
                    raise
                calls.append('validate-ok')
                return r

            def execute(self, arbiter, props):
                calls.append('execute')
                return self._cmd.execute(arbiter, props)
        c.commands = dict((k, Rec(v)) for k, v in c.commands.items())
        before = snapshot(c.arbiter)
        try:
            c.dispatch((b'CID', inp['msg'].encode()))
        except BaseException as e:
            obs['raised'] = type(e).__name__
        obs['calls'] = calls
        obs['state_unchanged'] = before == snapshot(c.arbiter)
        frames = c.stream.frames
        replies = []
        for i in range(0, len(frames) - 1, 2):
            try:
                replies.append(json.loads(frames[i + 1]))
            except Exception:
                replies.append('unparsable')
        obs['replies'] = replies
        obs['nframes'] = len(frames)
        return obs

    def check(self, inp, obs):
        bad = set()
        if 'raised' in obs:
            bad.add('noescape')
            return bad
        try:
            j = json.loads(inp['msg'])
            badjson = False
        except ValueError:
            j, badjson = None, True
        cast = isinstance(j, dict) and j.get('msg_type') == 'cast'
        mid = j.get('id') if isinstance(j, dict) else None
        n = len(obs['replies'])
        if badjson:
            if n != 1 or obs['replies'][0].get('id') is not None or obs['replies'][0].get('status') != 'error':
                bad.add('post[0]')
        elif cast:
            if n != 0:
                bad.add('post[1]')
        else:
            if n != 1 or not isinstance(obs['replies'][0], dict) or obs['replies'][0].get('id') != mid or \
                    type(obs['replies'][0].get('id')) is not type(mid):
                bad.add('post[one-reply]')
        # C11
        calls = obs.get('calls', [])
        if calls.count('execute') > 1:
            bad.add('post[execute-at-most-once]')
        if 'execute' in calls and calls[:calls.index('execute')] != ['validate-ok']:
            bad.add('callsite[validated-first]')
        if 'execute' not in calls and not obs.get('state_unchanged', True):
            bad.add('post[refused-before-execute-changes-nothing]')
        known = isinstance(j, dict) and isinstance(j.get('command'), str)
        if (badjson or not known) and 'execute' in calls:
            bad.add('post[invalid-json-or-unknown-command-not-executed]')
        return bad


@register('circus.controller:Controller._dispatch_callback')
class DispatchCallback(object):
    def from_model(self, m):
        return []

    def enumerate(self):
        for resp in [None, {}, {'a': 1}, {'status': 'active'}, {'status': 'ok'}, [1, 2], 'str', 5]:
            for cast in (False, True):
                yield {'resp': resp, 'cast': cast, 'cmd_name': 'status'}

    def run(self, inp):
        c = real_controller()
        obs = {}
        try:
            c._dispatch_callback(b'msg', b'CID', 11, inp['cast'], inp['cmd_name'], inp['resp'])
        except BaseException as e:
            obs['raised'] = type(e).__name__
        frames = c.stream.frames
        obs['replies'] = [json.loads(frames[i + 1]) for i in range(0, len(frames) - 1, 2)]
        return obs

    def check(self, inp, obs):
        bad = set()
        if 'raised' in obs:
            return set(['noescape'])
        if inp['cast']:
            if obs['replies']:
                bad.add('post[0]')
            return bad
        if len(obs['replies']) != 1 or obs['replies'][0].get('id') != 11:
            bad.add('post[1]')
            return bad
        if obs['replies'][0].get('status') not in ('ok', 'error'):
            bad.add('post[status-ok-or-error]')
        return bad


@register('circus.util:TransformableFuture._internal_callback')
class TFInternal(object):
    def from_model(self, m):
        return []

    def enumerate(self):
        for outcome in ('result', 'exception'):
            for has_cb in (True, False):
                yield {'upstream': outcome, 'has_callback': has_cb}

    def run(self, inp):
        from circus.util import TransformableFuture
        from tornado import concurrent
        up = concurrent.Future()
        if inp['upstream'] == 'result':
            up.set_result({'x': 1})
        else:
            up.set_exception(RuntimeError('operation failed'))
        tf = TransformableFuture()
        tf.set_upstream_future(up)
        calls = []
        if inp['has_callback']:
            tf._upstream_callback = lambda f: calls.append(f)
        obs = {}
        try:
            tf._internal_callback(up)
        except BaseException as e:
            obs['raised'] = type(e).__name__
        obs['calls'] = len(calls)
        obs['exception_seen'] = repr(tf.exception())
        if up.exception() is not None:
            up.exception()      # mark retrieved
        return obs

    def check(self, inp, obs):
        bad = set()
        if 'raised' in obs:
            bad.add('noescape')
        want = 1 if inp['has_callback'] else 0
        if obs['calls'] != want:
            bad.add('post[0]' if inp['has_callback'] else 'post[1]')
        return bad


@register('circus.controller:Controller.handle_message')
class HandleMessage(object):
    def from_model(self, m):
        return []

    def enumerate(self):
        for frames in ([b'CID', b''], [b'CID', b'   '], [b'CID', b'{"command": "list", "id": 1}'], [b'only'],
                       [b'a', b'b', b'c'], [b'CID', b'5']):
            yield {'frames': [f.decode() for f in frames]}

    def run(self, inp):
        c = real_controller()
        obs = {}
        try:
            c.handle_message([f.encode() for f in inp['frames']])
        except BaseException as e:
            obs['raised'] = type(e).__name__
        obs['nframes'] = len(c.stream.frames)
        return obs

    def check(self, inp, obs):
        bad = set()
        if 'raised' in obs:
            bad.add('noescape')
        if obs['nframes'] > 2:
            bad.add('post[0]')
        if len(inp['frames']) == 2 and not inp['frames'][1].strip() and obs['nframes'] != 2 and 'raised' not in obs:
            bad.add('post[0]')
        return bad


@register('circus.controller:Controller._dispatch_callback_future')
class DispatchCallbackFuture(object):
    """the done-callback of a waiting request, on completed real futures (plain tornado and TransformableFuture)"""
    def from_model(self, m):
        return []

    def enumerate(self):
        for kind in ('plain', 'transformable'):
            for outcome in ('result', 'exception'):
                for send_resp in (True, False):
                    for cast in (False, True):
                        yield {'future': kind, 'outcome': outcome, 'send_resp': send_resp, 'cast': cast}

    def run(self, inp):
        from tornado import concurrent
        from circus.util import TransformableFuture
        c = real_controller()
        up = concurrent.Future()
        if inp['outcome'] == 'result':
            up.set_result({'numprocesses': 3})
        else:
            up.set_exception(RuntimeError('operation failed'))
        fut = up
        if inp['future'] == 'transformable':
            fut = TransformableFuture()
            fut.set_upstream_future(up)
            fut.set_transform_function(lambda x: {'numprocesses': x})
            fut._internal_callback(up)
        obs = {}
        try:
            c._dispatch_callback_future(b'msg', b'CID', 11, inp['cast'], 'incr', inp['send_resp'], fut)
        except BaseException as e:
            obs['raised'] = type(e).__name__
        if up.exception() is not None:
            pass
        frames = c.stream.frames
        obs['replies'] = [json.loads(frames[i + 1]) for i in range(0, len(frames) - 1, 2)]
        return obs

    def check(self, inp, obs):
        bad = set()
        if 'raised' in obs:
            bad.add('noescape')
        n = len(obs['replies'])
        if not inp['send_resp'] or inp['cast']:
            if n:
                bad.add('post[0]')
        else:
            if n != 1 or obs['replies'][0].get('id') != 11:
                bad.add('post[1]')
        return bad


@register('circus.client:CircusClient.call')
class ClientCall(object):
    """real CircusClient.call over a scripted DEALER socket: stale / foreign replies first, then (maybe) the right one"""
    def from_model(self, m):
        return []

    def enumerate(self):
        scripts = [['own'], ['foreign', 'own'], ['stale', 'foreign', 'own'], ['foreign'], [], ['noid', 'own'],
                   ['foreign', 'foreign', 'foreign', 'own']]
        for s in scripts:
            yield {'script': s}
        # the application re-uses one message dict: it still carries the id an earlier call wrote into it, and that
        # earlier call's reply arrives late
        for s in (['stale', 'own'], ['stale'], ['own']):
            yield {'script': s, 'reused_dict': True}

    def run(self, inp):
        from circus.client import CircusClient
        from circus.exc import CallError
        c = CircusClient.__new__(CircusClient)
        sent = []
        script = list(inp['script'])

        class Sock(object):
            def send(self, data):
                sent.append(json.loads(data))

            def recv(self):
                kind = script.pop(0)
                cid = sent[-1]['id']
                if kind == 'own':
                    return json.dumps({'id': cid, 'status': 'ok', 'n': 1}).encode()
                if kind == 'noid':
                    return json.dumps({'status': 'ok'}).encode()
                return json.dumps({'id': 'feedbeef' if kind == 'foreign' else 'old-call', 'status': 'ok', 'n': 2}).encode()
        sock = Sock()

        class Poller(object):
            def poll(self, timeout):
                return [(sock, 1)] if script else []
        c.socket = sock
        c.poller = Poller()
        c.timeout = 10
        obs = {}
        import circus.client as CC
        fresh = []
        real_uuid4 = CC.uuid.uuid4

        def rec_uuid4():
            u = real_uuid4()
            fresh.append(u.hex)
            return u
        msg = {'command': 'list', 'properties': {}}
        if inp.get('reused_dict'):
            msg['id'] = 'old-call'
        CC.uuid.uuid4 = rec_uuid4
        try:
            r = c.call(msg)
            obs['reply'] = r
        except CallError as e:
            obs['raised'] = 'CallError'
        except Exception as e:
            obs['raised'] = type(e).__name__
        finally:
            CC.uuid.uuid4 = real_uuid4
        obs['call_id'] = sent[-1]['id'] if sent else None
        obs['fresh_ids'] = fresh
        obs['sent'] = len(sent)
        return obs

    def check(self, inp, obs):
        bad = set()
        if 'reply' in obs:
            if not isinstance(obs['reply'], dict) or obs['reply'].get('id') != obs['call_id']:
                bad.add('post[reply-bears-this-calls-id]')
            if 'own' not in inp['script']:
                bad.add('post[reply-bears-this-calls-id]')
        elif obs.get('raised') != 'CallError':
            bad.add('noescape')
        # the id this call goes by is the identifier generated for it, not one found in the message
        if obs['sent'] and obs['call_id'] not in obs.get('fresh_ids', []):
            bad.add('inv-entry[2]:loop0')
            bad.add('inv-entry[3]:loop0')
            if 'reply' in obs:
                bad.add('post[reply-bears-this-calls-id]')
        if obs['sent'] != 1:
            bad.add('post[request-carries-the-id]')
        return bad


# ---- the reply builders (C06): ok / error and the three senders, on a real Controller with a recording stream ------
def _sent(c):
    """the replies on the wire: (cid frame, decoded reply document) per pair of frames"""
    fr = c.stream.frames
    out = []
    for i in range(0, len(fr) - 1, 2):
        body = fr[i + 1]
        try:
            doc = json.loads(body if isinstance(body, str) else body.decode())
        except Exception:
            doc = '<undecodable>'
        out.append((fr[i], doc))
    return out, len(fr)


SENDER_IDS = ['m1', '', 0, 7, None]
SENDER_CIDS = [b'c1', b'', None]


class _Sender(object):
    def from_model(self, m):
        return []

    def payloads(self):
        return [None]

    def enumerate(self):
        for mid in SENDER_IDS:
            for cid in SENDER_CIDS:
                for cast in (False, True):
                    for p in self.payloads():
                        yield {'mid': mid, 'cid': None if cid is None else cid.decode(), 'cast': cast, 'payload': p}

    def run(self, inp):
        c = real_controller()
        cid = None if inp['cid'] is None else inp['cid'].encode()
        obs = {}
        try:
            self.call(c, inp['mid'], cid, inp['cast'], inp['payload'])
        except Exception as e:
            obs['raised'] = type(e).__name__
        sent, nframes = _sent(c)
        obs['nframes'] = nframes
        obs['sent'] = [(None if a is None else a.decode('latin-1'), d) for a, d in sent]
        return obs

    def expected_status(self, inp):
        return None

    def check(self, inp, obs):
        bad = set()
        silent = inp['cast'] or inp['cid'] is None
        if 'raised' in obs:
            bad.add('noescape')
            return bad
        if silent:
            if obs['nframes'] != 0:
                bad.add('post[0]')
            return bad
        ok_ = obs['nframes'] == 2 and len(obs['sent']) == 1 and isinstance(obs['sent'][0][1], dict)
        if ok_:
            cidf, doc = obs['sent'][0]
            ok_ = cidf == inp['cid'] and 'id' in doc and doc['id'] == inp['mid'] and \
                type(doc['id']) is type(inp['mid'])
        if not ok_:
            bad.add('post[1]')
            return bad
        bad |= self.status_clauses(inp, obs['sent'][0][1])
        return bad

    def status_clauses(self, inp, doc):
        return set()


@register('circus.controller:Controller.send_response')
class SendResponse(_Sender):
    def payloads(self):
        return [{'status': 'ok'}, {'status': 'error', 'reason': 'x'}, {'status': 'active', 'id': 'stale'},
                {'status': 'ok', 'time': 1.0, 'pids': [1, 2]}]

    def call(self, c, mid, cid, cast, payload):
        c.send_response(mid, cid, b'{}', dict(payload), cast=cast)

    def status_clauses(self, inp, doc):
        return set() if doc.get('status') == inp['payload']['status'] else set(['post[1]'])


@register('circus.controller:Controller.send_error')
class SendError(_Sender):
    def payloads(self):
        return ['unknown', 'boom', '']

    def call(self, c, mid, cid, cast, payload):
        c.send_error(mid, cid, b'{}', reason=payload, tb='tb', cast=cast, errno=3)

    def status_clauses(self, inp, doc):
        return set() if doc.get('status') == 'error' else set(['post[1]'])


@register('circus.controller:Controller.send_ok')
class SendOk(_Sender):
    def payloads(self):
        return [None, {}, {'pids': [1]}, {'status': 'active'}, {'status': 'stopped', 'x': 1}, {'time': 5}]

    def call(self, c, mid, cid, cast, payload):
        c.send_ok(mid, cid, b'{}', props=None if payload is None else dict(payload), cast=cast)

    def status_clauses(self, inp, doc):
        p = inp['payload']
        bad = set()
        if p is None or 'status' not in p:
            if doc.get('status') != 'ok':
                bad.add('post[2]')
        elif doc.get('status') != p['status']:
            bad.add('post[3]')
        return bad


@register('circus.commands.base:ok')
class OkFn(object):
    def from_model(self, m):
        return []

    def enumerate(self):
        for p in [None, {}, {'pids': [1]}, {'status': 'active'}, {'status': 'stopped', 'x': 1}, {'time': 5},
                  {'status': 'error'}]:
            yield {'props': p}

    def run(self, inp):
        from circus.commands.base import ok
        try:
            r = ok(None if inp['props'] is None else dict(inp['props']))
            return {'result': r if isinstance(r, dict) else repr(r), 'is_dict': isinstance(r, dict)}
        except Exception as e:
            return {'raised': type(e).__name__}

    def check(self, inp, obs):
        if 'raised' in obs:
            return set(['noescape'])
        if not obs['is_dict']:
            return set(['post[0]'])
        r, p = obs['result'], inp['props']
        if 'status' not in r:
            return set(['post[1]'])
        bad = set()
        if p is None or 'status' not in p:
            if r['status'] != 'ok':
                bad.add('post[2]')
        elif r['status'] != p['status']:
            bad.add('post[3]')
        return bad


@register('circus.commands.base:error')
class ErrorFn(object):
    def from_model(self, m):
        return []

    def enumerate(self):
        for reason in ['', 'boom', 'x' * 50]:
            for tb in [None, 'tb']:
                for errno in [0, 3, 5]:
                    yield {'reason': reason, 'tb': tb, 'errno': errno}

    def run(self, inp):
        from circus.commands.base import error
        try:
            r = error(reason=inp['reason'], tb=inp['tb'], errno=inp['errno'])
            json.dumps(r)
            return {'result': r if isinstance(r, dict) else repr(r), 'is_dict': isinstance(r, dict)}
        except Exception as e:
            return {'raised': type(e).__name__}

    def check(self, inp, obs):
        if 'raised' in obs:
            return set(['noescape'])
        if not obs['is_dict']:
            return set(['post[0]'])
        if 'status' not in obs['result']:
            return set(['post[1]'])
        return set() if obs['result']['status'] == 'error' else set(['post[2]'])
