import itertools
import json
from replay.adapters import register


class RecStream(object):
    def __init__(self):
        self.frames = []

    def send(self, data, flags=0):
        self.frames.append(data)

    def flush(self):
        pass


def real_controller():
    """real Controller (constructor bypassed: no sockets) with the real command table and a bare real Arbiter"""
    from circus.controller import Controller
    from circus.commands import get_commands
    from replay.adapters_arbiter import bare_arbiter
    c = Controller.__new__(Controller)
    c.arbiter = bare_arbiter(['w1'])
    c.commands = get_commands()
    c.stream = RecStream()
    c.endpoint = 'tcp://x'
    c.endpoint_owner = None
    return c


def snapshot(a):
    """what list / options / status / numprocesses would report"""
    out = []
    for w in a.watchers:
        out.append((w.name, w._status, w.numprocesses, sorted(w.processes), repr(w.options())))
    return (out, sorted(a._watchers_names))


@register('circus.controller:Controller.dispatch')
class Dispatch(object):
    def from_model(self, m):
        return []

    def enumerate(self):
        docs = [b'garbage{', b'5', b'null', b'"x"', b'[1]', b'{}', b'{"command": 5}', b'{"command": null, "id": 3}',
                b'{"command": ["list"]}', b'{"command": "nope", "id": "a"}',
                b'{"command": "list", "id": 7}', b'{"command": "LIST", "id": 7, "msg_type": "cast"}',
                b'{"command": "status", "id": 1, "properties": {"name": "w1"}}',
                b'{"command": "status", "id": 1, "properties": {"name": "zzz"}}',
                b'{"command": "numwatchers", "id": null}', b'{"command": "list", "properties": 5, "id": 2}',
                b'{"command": "set", "id": 4, "properties": {"name": "w1", "options": {"bogus": 1}}}',
                b'{"command": "signal", "id": 9, "properties": {"name": "w1", "signum": "TERM!!"}}',
                b'{"command": "set", "id": 4, "properties": {"name": "w1", "options": {"working_dir": "/x", "bogus": 1}}}',
                b'{"command": "set", "id": 4, "properties": {"name": "w1", "options": {"numprocesses": 2, "max_age": "x"}}}',
                b'{"command": "set", "id": 4, "properties": {"name": "nope", "options": {"numprocesses": 2}}}',
                b'{"command": "add", "id": 5, "properties": {"name": "W1", "cmd": "sleep 1"}}',
                b'{"command": "add", "id": 5, "properties": {"name": "w9", "cmd": "sleep 1", "options": {"bogus": 2}}}',
                b'{"command": "kill", "id": 6, "properties": {"name": "w1", "signum": "NOPE"}}',
                b'{"command": "incr", "id": 6, "properties": {}}']
        for d in docs:
            yield {'msg': d.decode()}

    def run(self, inp):
        c = real_controller()
        obs = {}
        calls = []

        class Rec(object):
            """records the order of validate / execute on the real command object"""
            def __init__(self, cmd):
                self._cmd = cmd

            def __getattr__(self, n):
                return getattr(self._cmd, n)

            def validate(self, props):
                try:
                    r = self._cmd.validate(props)
                except BaseException:
                    calls.append('validate-refused')
                    raise
                calls.append('validate-ok')
                return r

            def execute(self, arbiter, props):
                calls.append('execute')
                return self._cmd.execute(arbiter, props)
        c.commands = dict((k, Rec(v)) for k, v in c.commands.items())
        before = snapshot(c.arbiter)
        try:
            c.dispatch((b'CID', inp['msg'].encode()))
        except BaseException as e:
            obs['raised'] = type(e).__name__
        obs['calls'] = calls
        obs['state_unchanged'] = before == snapshot(c.arbiter)
        frames = c.stream.frames
        replies = []
        for i in range(0, len(frames) - 1, 2):
            try:
                replies.append(json.loads(frames[i + 1]))
            except Exception:
                replies.append('unparsable')
        obs['replies'] = replies
        obs['nframes'] = len(frames)
        return obs

    def check(self, inp, obs):
        bad = set()
        if 'raised' in obs:
            bad.add('noescape')
            return bad
        try:
            j = json.loads(inp['msg'])
            badjson = False
        except ValueError:
            j, badjson = None, True
        cast = isinstance(j, dict) and j.get('msg_type') == 'cast'
        mid = j.get('id') if isinstance(j, dict) else None
        n = len(obs['replies'])
        if badjson:
            if n != 1 or obs['replies'][0].get('id') is not None or obs['replies'][0].get('status') != 'error':
                bad.add('post[0]')
        elif cast:
            if n != 0:
                bad.add('post[1]')
        else:
            if n != 1 or not isinstance(obs['replies'][0], dict) or obs['replies'][0].get('id') != mid:
                bad.add('post[one-reply]')
        # C11
        calls = obs.get('calls', [])
        if calls.count('execute') > 1:
            bad.add('post[execute-at-most-once]')
        if 'execute' in calls and calls[:calls.index('execute')] != ['validate-ok']:
            bad.add('callsite[validated-first]')
        if 'execute' not in calls and not obs.get('state_unchanged', True):
            bad.add('post[refused-before-execute-changes-nothing]')
        known = isinstance(j, dict) and isinstance(j.get('command'), str)
        if (badjson or not known) and 'execute' in calls:
            bad.add('post[invalid-json-or-unknown-command-not-executed]')
        return bad


@register('circus.controller:Controller._dispatch_callback')
class DispatchCallback(object):
    def from_model(self, m):
        return []

    def enumerate(self):
        for resp in [None, {}, {'a': 1}, {'status': 'active'}, {'status': 'ok'}, [1, 2], 'str', 5]:
            for cast in (False, True):
                yield {'resp': resp, 'cast': cast, 'cmd_name': 'status'}

    def run(self, inp):
        c = real_controller()
        obs = {}
        try:
            c._dispatch_callback(b'msg', b'CID', 11, inp['cast'], inp['cmd_name'], inp['resp'])
        except BaseException as e:
            obs['raised'] = type(e).__name__
        frames = c.stream.frames
        obs['replies'] = [json.loads(frames[i + 1]) for i in range(0, len(frames) - 1, 2)]
        return obs

    def check(self, inp, obs):
        bad = set()
        if 'raised' in obs:
            return set(['noescape'])
        if inp['cast']:
            if obs['replies']:
                bad.add('post[0]')
            return bad
        if len(obs['replies']) != 1 or obs['replies'][0].get('id') != 11:
            bad.add('post[1]')
            return bad
        if obs['replies'][0].get('status') not in ('ok', 'error'):
            bad.add('post[status-ok-or-error]')
        return bad


@register('circus.util:TransformableFuture._internal_callback')
class TFInternal(object):
    def from_model(self, m):
        return []

    def enumerate(self):
        for outcome in ('result', 'exception'):
            for has_cb in (True, False):
                yield {'upstream': outcome, 'has_callback': has_cb}

    def run(self, inp):
        from circus.util import TransformableFuture
        from tornado import concurrent
        up = concurrent.Future()
        if inp['upstream'] == 'result':
            up.set_result({'x': 1})
        else:
            up.set_exception(RuntimeError('operation failed'))
        tf = TransformableFuture()
        tf.set_upstream_future(up)
        calls = []
        if inp['has_callback']:
            tf._upstream_callback = lambda f: calls.append(f)
        obs = {}
        try:
            tf._internal_callback(up)
        except BaseException as e:
            obs['raised'] = type(e).__name__
        obs['calls'] = len(calls)
        obs['exception_seen'] = repr(tf.exception())
        if up.exception() is not None:
            up.exception()      # mark retrieved
        return obs

    def check(self, inp, obs):
        bad = set()
        if 'raised' in obs:
            bad.add('noescape')
        want = 1 if inp['has_callback'] else 0
        if obs['calls'] != want:
            bad.add('post[0]' if inp['has_callback'] else 'post[1]')
        return bad


@register('circus.controller:Controller.handle_message')
class HandleMessage(object):
    def from_model(self, m):
        return []

    def enumerate(self):
        for frames in ([b'CID', b''], [b'CID', b'   '], [b'CID', b'{"command": "list", "id": 1}'], [b'only'],
                       [b'a', b'b', b'c'], [b'CID', b'5']):
            yield {'frames': [f.decode() for f in frames]}

    def run(self, inp):
        c = real_controller()
        obs = {}
        try:
            c.handle_message([f.encode() for f in inp['frames']])
        except BaseException as e:
            obs['raised'] = type(e).__name__
        obs['nframes'] = len(c.stream.frames)
        return obs

    def check(self, inp, obs):
        bad = set()
        if 'raised' in obs:
            bad.add('noescape')
        if obs['nframes'] > 2:
            bad.add('post[0]')
        if len(inp['frames']) == 2 and not inp['frames'][1].strip() and obs['nframes'] != 2 and 'raised' not in obs:
            bad.add('post[0]')
        return bad


@register('circus.controller:Controller._dispatch_callback_future')
class DispatchCallbackFuture(object):
    """the done-callback of a waiting request, on completed real futures (plain tornado and TransformableFuture)"""
    def from_model(self, m):
        return []

    def enumerate(self):
        for kind in ('plain', 'transformable'):
            for outcome in ('result', 'exception'):
                for send_resp in (True, False):
                    for cast in (False, True):
                        yield {'future': kind, 'outcome': outcome, 'send_resp': send_resp, 'cast': cast}

    def run(self, inp):
        from tornado import concurrent
        from circus.util import TransformableFuture
        c = real_controller()
        up = concurrent.Future()
        if inp['outcome'] == 'result':
            up.set_result({'numprocesses': 3})
        else:
            up.set_exception(RuntimeError('operation failed'))
        fut = up
        if inp['future'] == 'transformable':
            fut = TransformableFuture()
            fut.set_upstream_future(up)
            fut.set_transform_function(lambda x: {'numprocesses': x})
            fut._internal_callback(up)
        obs = {}
        try:
            c._dispatch_callback_future(b'msg', b'CID', 11, inp['cast'], 'incr', inp['send_resp'], fut)
        except BaseException as e:
            obs['raised'] = type(e).__name__
        if up.exception() is not None:
            pass
        frames = c.stream.frames
        obs['replies'] = [json.loads(frames[i + 1]) for i in range(0, len(frames) - 1, 2)]
        return obs

    def check(self, inp, obs):
        bad = set()
        if 'raised' in obs:
            bad.add('noescape')
        n = len(obs['replies'])
        if not inp['send_resp'] or inp['cast']:
            if n:
                bad.add('post[0]')
        else:
            if n != 1 or obs['replies'][0].get('id') != 11:
                bad.add('post[1]')
        return bad


@register('circus.client:CircusClient.call')
class ClientCall(object):
    """real CircusClient.call over a scripted DEALER socket: stale / foreign replies first, then (maybe) the right one"""
    def from_model(self, m):
        return []

    def enumerate(self):
        scripts = [['own'], ['foreign', 'own'], ['stale', 'foreign', 'own'], ['foreign'], [], ['noid', 'own'],
                   ['foreign', 'foreign', 'foreign', 'own']]
        for s in scripts:
            yield {'script': s}
        # the application re-uses one message dict: it still carries the id an earlier call wrote into it, and that
        # earlier call's reply arrives late
        for s in (['stale', 'own'], ['stale'], ['own']):
            yield {'script': s, 'reused_dict': True}

    def run(self, inp):
        from circus.client import CircusClient
        from circus.exc import CallError
        c = CircusClient.__new__(CircusClient)
        sent = []
        script = list(inp['script'])

        class Sock(object):
            def send(self, data):
                sent.append(json.loads(data))

            def recv(self):
                kind = script.pop(0)
                cid = sent[-1]['id']
                if kind == 'own':
                    return json.dumps({'id': cid, 'status': 'ok', 'n': 1}).encode()
                if kind == 'noid':
                    return json.dumps({'status': 'ok'}).encode()
                return json.dumps({'id': 'feedbeef' if kind == 'foreign' else 'old-call', 'status': 'ok', 'n': 2}).encode()
        sock = Sock()

        class Poller(object):
            def poll(self, timeout):
                return [(sock, 1)] if script else []
        c.socket = sock
        c.poller = Poller()
        c.timeout = 10
        obs = {}
        import circus.client as CC
        fresh = []
        real_uuid4 = CC.uuid.uuid4

        def rec_uuid4():
            u = real_uuid4()
            fresh.append(u.hex)
            return u
        msg = {'command': 'list', 'properties': {}}
        if inp.get('reused_dict'):
            msg['id'] = 'old-call'
        CC.uuid.uuid4 = rec_uuid4
        try:
            r = c.call(msg)
            obs['reply'] = r
        except CallError as e:
            obs['raised'] = 'CallError'
        except Exception as e:
            obs['raised'] = type(e).__name__
        finally:
            CC.uuid.uuid4 = real_uuid4
        obs['call_id'] = sent[-1]['id'] if sent else None
        obs['fresh_ids'] = fresh
        obs['sent'] = len(sent)
        return obs

    def check(self, inp, obs):
        bad = set()
        if 'reply' in obs:
            if not isinstance(obs['reply'], dict) or obs['reply'].get('id') != obs['call_id']:
                bad.add('post[reply-bears-this-calls-id]')
            if 'own' not in inp['script']:
                bad.add('post[reply-bears-this-calls-id]')
        elif obs.get('raised') != 'CallError':
            bad.add('noescape')
        # the id this call goes by is the identifier generated for it, not one found in the message
        if obs['sent'] and obs['call_id'] not in obs.get('fresh_ids', []):
            bad.add('inv-entry[2]:loop0')
            bad.add('inv-entry[3]:loop0')
            if 'reply' in obs:
                bad.add('post[reply-bears-this-calls-id]')
        if obs['sent'] != 1:
            bad.add('post[request-carries-the-id]')
        return bad
