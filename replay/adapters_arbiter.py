import itertools
from replay.adapters import register


def bare_arbiter(names=()):
    """a real Arbiter object (constructor bypassed: no sockets, no loop) with real Watcher objects"""
    from circus.arbiter import Arbiter
    from circus.watcher import Watcher
    a = Arbiter.__new__(Arbiter)
    a.watchers = []
    a._watchers_names = {}
    a.evpub_socket = None
    a.sockets = {}
    a._exclusive_running_command = None
    a._restarting = False
    a._stopping = False
    a.socket_event = False
    a.warmup_delay = 0
    for n in names:
        w = Watcher(n, 'sleep 1')
        w.arbiter = a
        a.watchers.append(w)
        a._watchers_names[n.lower()] = w
    return a


def dir_violations(a):
    bad = set()
    ws = a.watchers
    if len(set(map(id, ws))) != len(ws):
        bad.add('dir1')
    for w in ws:
        if a._watchers_names.get(w.name.lower()) is not w:
            bad.add('dir2')
    for k, w in a._watchers_names.items():
        if w is None or not any(w is x for x in ws) or w.name.lower() != k:
            bad.add('dir3')
    if len(ws) != len(a._watchers_names):
        bad.add('dir4')
    return bad


@register('circus.arbiter:Arbiter.add_watcher')
class AddWatcher(object):
    def from_model(self, m):
        return []

    def enumerate(self):
        pool = ['', 'a', 'A', 'b', 'Ab', 'aB', ' ', 'ß']
        for existing in [(), ('a',), ('A', 'b'), ('Ab',)]:
            for n in pool + [None, 5, ['a']]:
                yield {'existing': list(existing), 'name': n}

    def run(self, inp):
        from circus.watcher import Watcher
        a = bare_arbiter(inp['existing'])
        before = dict(a._watchers_names)
        obs = {}
        try:
            r = a.add_watcher(inp['name'], 'sleep 1')
            obs['returned'] = type(r).__name__
            obs['is_watcher'] = isinstance(r, Watcher)
            obs['registered'] = isinstance(inp['name'], str) and \
                a._watchers_names.get(inp['name'].lower()) is r
        except Exception as e:
            obs['raised'] = type(e).__name__
        obs['dir'] = sorted(dir_violations(a))
        obs['names'] = sorted(a._watchers_names)
        obs['names_unchanged'] = before == a._watchers_names
        obs['slot'] = a._exclusive_running_command
        return obs

    def check(self, inp, obs):
        bad = set()
        idx = {'dir1': 0, 'dir2': 1, 'dir3': 2, 'dir4': 3}
        if 'returned' in obs:
            if not obs['is_watcher']:
                bad.add('post:result-sort')
            for d in obs['dir']:
                bad.add('post[%d]' % idx[d])
            if not isinstance(inp['name'], str):
                bad.add('post[4]')
            elif not obs['registered']:
                bad.add('post[5]')
                bad.add('post[6]')
        else:
            if obs['raised'] == 'AlreadyExist':
                if not (isinstance(inp['name'], str) and inp['name'].lower() in [x.lower() for x in inp['existing']]):
                    bad.add('raises[AlreadyExist][1]')
                if not obs['names_unchanged']:
                    bad.add('raises[AlreadyExist][2]')
            for d in obs['dir']:
                bad.add('raises[*][%d]' % idx[d])
        return bad


def run_coroutine(make, timeout=5.0):
    """drive a tornado coroutine to completion on a private loop; -> (result, exception)"""
    import asyncio
    from tornado import ioloop
    loop = asyncio.new_event_loop()
    asyncio.set_event_loop(loop)
    try:
        io = ioloop.IOLoop.current()
        try:
            return io.run_sync(make, timeout=timeout), None
        except Exception as e:       # noqa
            return None, e
    finally:
        try:
            loop.close()
        except Exception:
            pass
        asyncio.set_event_loop(None)


@register('circus.arbiter:Arbiter.rm_watcher')
class RmWatcher(object):
    """real Arbiter.rm_watcher (through its real @synchronized wrapper) on real stopped Watchers"""
    def from_model(self, m):
        return []

    def enumerate(self):
        for existing in [('a',), ('A', 'b'), ('Ab', 'c', 'D'), ('x', 'WebApp')]:
            for n in list(existing) + [e.swapcase() for e in existing] + ['zz', None]:
                for nostop in (True, False):
                    yield {'existing': list(existing), 'name': n, 'nostop': nostop}
                if isinstance(n, str):
                    # the stop of the removed watcher suspends: what do other requests see meanwhile?
                    yield {'existing': list(existing), 'name': n, 'nostop': False, 'slow_stop': True}

    def run(self, inp):
        a = bare_arbiter(inp['existing'])
        before = dict(a._watchers_names)
        blist = list(a.watchers)
        obs = {}
        key = inp['name'].lower() if isinstance(inp['name'], str) else None
        if inp.get('slow_stop') and before.get(key) is not None:
            from tornado import gen
            tgt = before[key]

            @gen.coroutine
            def slow_stop(*args, **kw):
                # stand-in for a stop that has to wait for its workers: records what the rest of the daemon can
                # observe while rm_watcher is suspended in it
                obs['susp_dir'] = sorted(dir_violations(a))
                obs['susp_key_in'] = key in a._watchers_names
                obs['susp_target_in_list'] = any(w is tgt for w in a.watchers)
                obs['susp_len'] = len(a.watchers)
                yield gen.sleep(0.01)
                tgt._status = 'stopped'
            tgt._stop = slow_stop
        res, exc = run_coroutine(lambda: a.rm_watcher(inp['name'], nostop=inp['nostop']))
        if exc is not None:
            obs['raised'] = type(exc).__name__
        obs['dir'] = sorted(dir_violations(a))
        obs['key_was_in'] = key in before
        obs['key_in'] = key in a._watchers_names
        target = before.get(key)
        obs['target_in_list'] = any(w is target for w in a.watchers) if target is not None else False
        obs['others_kept'] = all((k in a._watchers_names) and a._watchers_names[k] is v
                                 for k, v in before.items() if k != key) and \
            all(k in before for k in a._watchers_names if k != key)
        obs['len'] = (len(blist), len(a.watchers))
        obs['unchanged'] = before == a._watchers_names and blist == a.watchers
        obs['target_status'] = target._status if target is not None else None
        return obs

    def check(self, inp, obs):
        bad = set()
        idx = {'dir1': 0, 'dir2': 1, 'dir3': 2, 'dir4': 3}

        def both(name, i):
            bad.add('post[%s]' % name)
            bad.add('detached-post[%d]' % i)
        if 'susp_dir' in obs:
            for d in obs['susp_dir']:
                bad.add('detached-post[%d]' % idx[d])
            if obs['susp_key_in']:
                bad.add('detached-post[6]')
            if obs['susp_target_in_list']:
                bad.add('detached-post[7]')
            if obs['susp_len'] != obs['len'][0] - 1:
                bad.add('detached-post[9]')
        if 'raised' not in obs:
            for d in obs['dir']:
                both(str(idx[d]), idx[d])
            if not isinstance(inp['name'], str):
                both('4', 4)
            if not obs['key_was_in']:
                both('5', 5)
            if obs['key_in']:
                both('removed-from-dict', 6)
            if obs['target_in_list']:
                both('removed-from-list', 7)
            if not obs['others_kept']:
                both('others-kept', 8)
            if obs['len'][1] != obs['len'][0] - 1:
                both('9', 9)
            if not inp['nostop'] and obs['target_status'] != 'stopped':
                bad.add('post[stopped-unless-nostop]')
        else:
            if obs['raised'] in ('KeyError', 'AttributeError'):
                if not obs['unchanged']:
                    bad.add('raises[%s][2]' % obs['raised'])
                    bad.add('raises[AttributeError][1]')
                if obs['raised'] == 'KeyError' and obs['key_was_in']:
                    bad.add('raises[KeyError][1]')
            else:
                bad.add('noescape')
        return bad


@register('circus.arbiter:Arbiter.iter_watchers')
class IterWatchers(object):
    def from_model(self, m):
        return []

    def enumerate(self):
        for prios in ([], [0], [1, 2], [2, 1], [0, 5, 3], [3, 3, 1], [7, 0, 7, 2]):
            for reverse in (True, False):
                yield {'priorities': prios, 'reverse': reverse}

    def run(self, inp):
        a = bare_arbiter(['w%d' % i for i in range(len(inp['priorities']))])
        for w, p in zip(a.watchers, inp['priorities']):
            w.priority = p
        res = a.iter_watchers(reverse=inp['reverse'])
        return {'order': [w.priority for w in res], 'same_set': sorted(map(id, res)) == sorted(map(id, a.watchers)),
                'n': len(res)}

    def check(self, inp, obs):
        bad = set()
        if obs['n'] != len(inp['priorities']):
            bad.add('post[0]')
        if not obs['same_set']:
            bad |= set(['post[1]', 'post[2]', 'post[distinct-kept]'])
        o = obs['order']
        ok = all((o[i] >= o[i + 1]) if inp['reverse'] else (o[i] <= o[i + 1]) for i in range(len(o) - 1))
        if not ok:
            bad.add('post[sorted-by-priority]')
        return bad


@register('circus.arbiter:Arbiter._start_watchers')
class StartWatchers(object):
    """real Arbiter._start_watchers / iter_watchers on a virtual clock; Watcher._start replaced by a recorder that
    'spawns' (records a time-stamped entry) and takes some time"""
    def from_model(self, m):
        return []

    def enumerate(self):
        for prios in ([0], [1, 2], [2, 1], [0, 5, 3], [3, 3, 1], [7, 0, 7, 2]):
            for delay in (0.0, 0.5, 2.0):
                for autostart in ('all', 'but-first'):
                    yield {'priorities': prios, 'warmup_delay': delay, 'autostart': autostart}

    def run(self, inp):
        import circus.arbiter as A
        from tornado import concurrent
        a = bare_arbiter(['w%d' % i for i in range(len(inp['priorities']))])
        a.warmup_delay = inp['warmup_delay']
        now = [0.0]
        log = []

        def done(v=None):
            f = concurrent.Future()
            f.set_result(v)
            return f

        def vsleep(d):
            now[0] += d
            return done()
        for i, (w, p) in enumerate(zip(a.watchers, inp['priorities'])):
            w.priority = p
            w.autostart = not (inp['autostart'] == 'but-first' and i == 0)

            def _start(w=w):
                log.append((w.name, w.priority, now[0]))
                now[0] += 0.25
                log.append((w.name, w.priority, now[0]))
                return done()
            w._start = _start
        saved = A.tornado_sleep
        A.tornado_sleep = vsleep
        obs = {}
        try:
            res, exc = run_coroutine(lambda: a._start_watchers())
        finally:
            A.tornado_sleep = saved
        if exc is not None:
            obs['raised'] = type(exc).__name__
        obs['spawns'] = log
        return obs

    def check(self, inp, obs):
        bad = set()
        if 'raised' in obs:
            return set(['noescape'])
        sp = obs['spawns']
        for i in range(len(sp)):
            for j in range(i + 1, len(sp)):
                if sp[i][0] != sp[j][0]:
                    if sp[i][1] < sp[j][1] or sp[j][2] < sp[i][2] + inp['warmup_delay'] - 1e-9:
                        bad.add('post[priority-order-and-pacing]')
        started = set(s[0] for s in sp)
        want = set('w%d' % i for i in range(len(inp['priorities'])) if not (inp['autostart'] == 'but-first' and i == 0))
        if started != want:
            bad.add('post[priority-order-and-pacing]')
        return bad


@register('circus.commands.restart:execute_watcher_start_stop_restart.watcher_iter_func')
class RestartIterFunc(object):
    """the real closure built by execute_watcher_start_stop_restart, captured through its watchers_function hook"""
    def from_model(self, m):
        return []

    def enumerate(self):
        for prios in ([1, 2], [2, 1], [0, 5, 3], [3, 3, 1], [7, 0, 7, 2]):
            for reverse in (True, False, None):
                yield {'priorities': prios, 'reverse': reverse}

    def run(self, inp):
        from circus.commands.restart import execute_watcher_start_stop_restart
        from circus.commands.start import Start
        a = bare_arbiter(['web-%d' % i for i in range(len(inp['priorities']))])
        for w, p in zip(a.watchers, inp['priorities']):
            w.priority = p
        a.get_watcher = lambda name: a._watchers_names[name.lower()]
        got = {}

        def watchers_function(watcher_iter_func=None):
            got['f'] = watcher_iter_func
        execute_watcher_start_stop_restart(Start(), a, {'name': 'web-*'}, 'start', watchers_function, None)
        f = got['f']
        res = f() if inp['reverse'] is None else f(reverse=inp['reverse'])
        return {'order': [w.priority for w in res], 'n': len(res),
                'same_set': sorted(map(id, res)) == sorted(map(id, a.watchers))}

    def check(self, inp, obs):
        bad = set()
        rev = True if inp['reverse'] is None else inp['reverse']
        o = obs['order']
        if not all((o[i] >= o[i + 1]) if rev else (o[i] <= o[i + 1]) for i in range(len(o) - 1)):
            bad.add('post[sorted-by-priority]')
        if obs['n'] != len(inp['priorities']) or not obs['same_set']:
            bad |= set(['post[1]', 'post[2]', 'post[3]'])
        return bad


@register('circus.arbiter:Arbiter.reap_processes')
class ArbiterReapProcesses(object):
    """the real Arbiter.reap_processes over a fake child table: os.waitpid(-1, WNOHANG) hands out the terminated
    children in the given order (watched workers and children no watcher lists), then 0 while live children remain,
    ECHILD when there is none; Watcher.reap_process is the real one"""
    def from_model(self, m):
        return []

    def enumerate(self):
        # each child: (kind, state) kind 'w' = listed worker of watcher 0, 'x' = child no watcher lists
        for kids in ([], [('w', 'dead')], [('w', 'alive')], [('x', 'dead'), ('w', 'dead')], [('w', 'dead'), ('x', 'dead')],
                     [('x', 'dead'), ('w', 'dead'), ('w', 'alive')], [('w', 'dead'), ('w', 'dead'), ('x', 'alive')],
                     [('x', 'dead'), ('x', 'dead'), ('w', 'dead'), ('w', 'dead')]):
            yield {'kids': [list(k) for k in kids]}

    def run(self, inp):
        import errno
        import circus.arbiter as A
        import circus.watcher as W
        from replay.adapters_watcher import FakeKernel, FakeProcess
        a = bare_arbiter(['w0'])
        w = a.watchers[0]
        w._status = 'active'
        fk = FakeKernel()
        table = []      # [pid, kind, state, reaped]
        for i, (kind, state) in enumerate(inp['kids']):
            pid = 700 + i
            table.append([pid, kind, state, False])
            if kind == 'w':
                p = FakeProcess(fk, pid, dies_at=0.0 if state == 'dead' else None)
                p.status = 1 if state == 'dead' else 0
                p.returncode = lambda: 0
                w.processes[pid] = p
        events = []
        w.notify_event = lambda topic, msg: events.append((topic, msg.get('process_pid')))

        def fake_waitpid(pid, options):
            if pid == -1:
                left = [t for t in table if not t[3]]
                if not left:
                    raise OSError(errno.ECHILD, 'No child processes')
                for t in left:
                    if t[2] == 'dead':
                        t[3] = True
                        return (t[0], 0)
                return (0, 0)
            for t in table:
                if t[0] == pid and not t[3]:
                    if t[2] == 'dead':
                        t[3] = True
                        return (pid, 0)
                    return (0, 0)
            raise OSError(errno.ECHILD, 'No child processes')

        class OSP(object):
            def __init__(self, real):
                self._real = real
            waitpid = staticmethod(fake_waitpid)

            def __getattr__(self, n):
                return getattr(self._real, n)
        saved = (A.os, W.os)
        A.os, W.os = OSP(saved[0]), OSP(saved[1])
        obs = {}
        try:
            a.reap_processes()
        except Exception as e:
            obs['raised'] = type(e).__name__
        finally:
            A.os, W.os = saved
        obs['zombies_left'] = [t[0] for t in table if t[2] == 'dead' and not t[3]]
        obs['reap_events'] = sorted(p for t, p in events if t == 'reap')
        obs['alive_reaped'] = [t[0] for t in table if t[2] == 'alive' and t[3]]
        return obs

    def check(self, inp, obs):
        bad = set()
        if 'raised' in obs:
            if obs['raised'] != 'OSError':
                bad.add('noescape')
            return bad
        if obs['zombies_left']:
            bad.add('post[no-zombie-left]')
        dead = [700 + i for i, (k, s) in enumerate(inp['kids']) if s == 'dead']
        if any(p not in dead for p in obs['reap_events']):
            bad.add('post[reaped-were-dead]')
        return bad


# ---- the readers of the watcher directory (C15): real functions on a real, coherent directory ----------------
DIR_POOLS = [(), ('a',), ('A', 'b'), ('Ab', 'c', 'D'), ('x', 'Web App', 'y'), ('ß', 'Z')]


def _lookup_names(existing):
    names = list(existing) + [e.swapcase() for e in existing] + [e.upper() for e in existing]
    return names + ['zz', '', ' ', 'web_app', None, 5, ['a']]


class _Lookup(object):
    """a named lookup: any letter case reaches the same watcher, an unknown name is refused, nothing is changed"""
    refusal = 'KeyError'

    def from_model(self, m):
        return []

    def enumerate(self):
        for existing in DIR_POOLS:
            for n in _lookup_names(existing):
                yield {'existing': list(existing), 'name': n}

    def call(self, a, name):
        return a.get_watcher(name)

    def run(self, inp):
        a = bare_arbiter(inp['existing'])
        before = (dict(a._watchers_names), list(a.watchers))
        obs = {}
        try:
            r = self.call(a, inp['name'])
            obs['returned'] = True
            obs['is_registered'] = isinstance(inp['name'], str) and \
                a._watchers_names.get(inp['name'].lower()) is r and r is not None
        except Exception as e:
            obs['raised'] = type(e).__name__
        obs['unchanged'] = before == (a._watchers_names, a.watchers)
        return obs

    def check(self, inp, obs):
        bad = set()
        n = inp['name']
        known = isinstance(n, str) and n.lower() in [e.lower() for e in inp['existing']]
        if not obs['unchanged']:
            bad.add('frame')
        if 'returned' in obs:
            if not isinstance(n, str):
                bad.add('post[0]')
            elif not known:
                bad.add('post[1]')
            elif not obs['is_registered']:
                bad.add('post[2]')
        elif obs['raised'] == self.refusal:
            if not isinstance(n, str):
                bad.add('raises[%s][0]' % self.refusal)
            elif known:
                bad.add('raises[%s][1]' % self.refusal)
        elif obs['raised'] == 'AttributeError':
            if isinstance(n, str):
                bad.add('raises[AttributeError][0]')
        else:
            bad.add('noescape')
        return bad


@register('circus.arbiter:Arbiter.get_watcher')
class GetWatcher(_Lookup):
    pass


@register('circus.commands.base:Command._get_watcher')
class CommandGetWatcher(_Lookup):
    refusal = 'MessageError'

    def call(self, a, name):
        from circus.commands.status import Status
        return Status()._get_watcher(a, name)


class _DirReader(object):
    """a reader of the whole directory on a coherent directory with mixed statuses"""
    def from_model(self, m):
        return []

    def enumerate(self):
        for existing in DIR_POOLS:
            for active in (0, 1, 2):
                yield {'existing': list(existing), 'active': active}

    def run(self, inp):
        a = bare_arbiter(inp['existing'])
        for i, w in enumerate(a.watchers):
            w._status = 'active' if (i + inp['active']) % 3 == 0 else 'stopped'
        before = (dict(a._watchers_names), list(a.watchers), [w._status for w in a.watchers])
        obs = {}
        try:
            obs['result'] = self.call(a)
        except Exception as e:
            obs['raised'] = type(e).__name__
        obs['names'] = [w.name for w in a.watchers]
        obs['keys'] = sorted(a._watchers_names)
        obs['statuses'] = dict((w.name, w._status) for w in a.watchers)
        obs['unchanged'] = before == (a._watchers_names, a.watchers, [w._status for w in a.watchers])
        return obs

    def check(self, inp, obs):
        if 'raised' in obs:
            return set(['noescape'])
        bad = self.clauses(obs['result'], obs)
        if not obs['unchanged']:
            bad.add('frame')
        return bad


@register('circus.arbiter:Arbiter.numwatchers')
class NumWatchersFn(_DirReader):
    def call(self, a):
        return a.numwatchers()

    def clauses(self, r, obs):
        return set() if r == len(obs['names']) and not isinstance(r, bool) else set(['post[0]'])


@register('circus.arbiter:Arbiter.statuses')
class StatusesFn(_DirReader):
    def call(self, a):
        return a.statuses()

    def clauses(self, r, obs):
        bad = set()
        if not isinstance(r, dict):
            return set(['post[0]', 'post[1]'])
        if any(n not in r or r[n] != s for n, s in obs['statuses'].items()):
            bad.add('post[0]')
        if any(k not in obs['statuses'] for k in r):
            bad.add('post[1]')
        return bad


@register('circus.commands.numwatchers:NumWatchers.execute')
class NumWatchersCmd(_DirReader):
    def call(self, a):
        from circus.commands.numwatchers import NumWatchers
        return NumWatchers().execute(a, {})

    def clauses(self, r, obs):
        if not isinstance(r, dict):
            return set(['post[0]'])
        if 'numwatchers' not in r:
            return set(['post[1]'])
        return set() if r['numwatchers'] == len(obs['names']) else set(['post[2]'])


@register('circus.commands.list:List.execute')
class ListCmd(_DirReader):
    def call(self, a):
        from circus.commands.list import List
        return List().execute(a, {})

    def clauses(self, r, obs):
        if not isinstance(r, dict):
            return set(['post[0]'])
        if 'watchers' not in r:
            return set(['post[1]'])
        lst = r['watchers']
        if not isinstance(lst, list):
            return set(['post[2]'])
        bad = set()
        if set(lst) != set(obs['keys']):
            bad.add('post[3]')
        if len(lst) != len(obs['keys']):
            bad.add('post[4]')
        return bad


@register('circus.commands.status:Status.execute')
class StatusCmd(_DirReader):
    def call(self, a):
        from circus.commands.status import Status
        return Status().execute(a, {})

    def clauses(self, r, obs):
        if not isinstance(r, dict):
            return set(['post[0]'])
        if 'statuses' not in r:
            return set(['post[1]'])
        if not isinstance(r['statuses'], dict):
            return set(['post[2]'])
        return set() if set(r['statuses']) == set(obs['names']) else set(['post[3]'])
